"""C09 - W3C trace-context propagation.  Case generator and configuration."""
from tools.vlib import hx

ID = "C09"
LEVEL = "proof"
DRIVER = {"srcs": ["harness/c09_driver.cc", "harness/c09_purity.cc"], "sdk": False}


def build_driver():
    """the ASan/UBSan case driver + the ThreadSanitizer purity probe (clang++), behind one dispatcher that behaves
    like a single case driver: PURITY lines go to the probe, everything else to the case driver"""
    from tools import vlib, purity
    main = vlib.build_driver("c09_driver", ["harness/c09_driver.cc"], sdk=False)
    probe = purity.build_probe("c09_purity", ["harness/c09_purity.cc"])
    return purity.make_dispatcher("c09_dispatch", main, probe)


TRIVIAL_TAGS = {"ext_empty", "inj_invalid", "rt_invalid"}
ASSUMPTIONS = [
    "SpanContext objects handed to Inject are built by the driver from (trace id, span id, flags byte, TraceState::FromHeader(h)); the model builds the same with its from_header (tied by C14); the trace-state leg of the round trip uses C14's header_roundtrip/from_header_wf (coq/C14/Proofs.v)",
    "theorems about contexts assume 16-byte trace ids and 8-byte span ids (the C++ types are fixed-size arrays)",
    "'never crashes or reads out of bounds' is evidenced by the ASan/UBSan build on the generated malformed stream (header values live in exact-size heap blocks without a terminating NUL), not by a theorem",
    "std::regex / isspace behave as modelled in the C locale",
    "the model treats TraceState / SpanContext / Context / propagator operations as PURE functions of immutable values; this is not a theorem "
    "about the C++: it is probed at run time on every check by harness/c09_purity.cc (clang ThreadSanitizer build, 4 real threads released by a "
    "barrier calling ToHeader/Get/Set/Delete/GetAllEntries, SpanContext accessors, Inject of a shared Context into per-thread carriers, Extract "
    "from a shared carrier, on FRESH shared objects with 0/1/8/32 trace-state members every round; clauses purity:data_race, purity:result_differs)",
]
TRUSTED = ["model coq/C09/Model.v + coq/C14/Model.v is hand-written; tied by this correspondence run"]

HEXL = b"0123456789abcdef"


def rnd_hex(rng, n, upper=0):
    s = bytes(rng.choice(HEXL) for _ in range(n))
    if upper == 1:
        s = s.upper()
    elif upper == 2:
        s = bytes((c - 32 if 97 <= c <= 102 and rng.chance(1, 2) else c) for c in s)
    return s


def rnd_id(rng, n):
    k = rng.below(10)
    if k == 0:
        return bytes(n)
    if k == 1:
        b = bytearray(n); b[rng.below(n)] = 1 << rng.below(8); return bytes(b)
    return rng.bytes(n)


KEYCH = b"abcdefghijklmnopqrstuvwxyz0123456789_-*/"
VALCH = bytes(c for c in range(0x20, 0x7f) if c not in (0x2c, 0x3d))


def rnd_ts_header(rng):
    k = rng.below(12)
    if k < 3:
        return b""
    n = rng.choice([1, 1, 2, 3, 5, 31, 32, 33]) if k < 10 else rng.below(40)
    ms = []
    for i in range(n):
        key = bytes([rng.choice(KEYCH[:36])]) + bytes(rng.choice(KEYCH) for _ in range(rng.below(6)))
        if rng.chance(1, 8):
            key += b"@" + bytes([rng.choice(KEYCH[:36])]) + bytes(rng.choice(KEYCH) for _ in range(rng.below(4)))
        val = bytes(rng.choice(VALCH) for _ in range(1 + rng.below(6))).strip() or b"v"
        ms.append(key + b"=" + val)
    h = b",".join(ms)
    if k == 10:   # damage it
        pos = rng.below(len(h) + 1)
        h = h[:pos] + bytes([rng.choice(b"=, \t\x00\x80A")]) + h[pos:]
    if k == 11:
        h = b" " + h.replace(b",", b" , ") + b" "
    return h


def valid_tp(rng, version=b"00", upper=0):
    tid = rnd_hex(rng, 32, upper)
    sid = rnd_hex(rng, 16, upper)
    if tid.strip(b"0") == b"":
        tid = b"1" + tid[1:]
    if sid.strip(b"0") == b"":
        sid = b"1" + sid[1:]
    return version + b"-" + tid + b"-" + sid + b"-" + rnd_hex(rng, 2, upper)


def ext(tp, ts):
    return "EXT %s %s" % ("NONE" if tp is None else hx(tp), "NONE" if ts is None else hx(ts))


MUT = [b"-", b"g", b"G", b" ", b"\x00", b"\x80", b"\xff", b"0", b"f", b"F", b"/", b":", b"@", b"`", b"\t"]


def purity_cases(tier):
    # PURITY <trace-state members> <threads> <rounds (fresh shared objects each)> <iterations of every operation per round>
    k = 1 if tier == "quick" else 5
    return ["PURITY 0 4 %d 4" % (150 * k), "PURITY 1 4 %d 4" % (150 * k), "PURITY 8 4 %d 3" % (120 * k), "PURITY 32 3 %d 2" % (60 * k)]


def gen(rng, tier):
    n = 1 if tier == "quick" else 12
    cases = purity_cases(tier)
    # inject / round trip: every flags byte exhaustively, ids incl. invalid ones, trace states
    for f in range(256):
        tid, sid = rnd_id(rng, 16), rnd_id(rng, 8)
        h = rnd_ts_header(rng)
        cases.append("INJ %s %s %d %s" % (hx(tid), hx(sid), f, hx(h)))
        cases.append("RT %s %s %d %s" % (hx(tid), hx(sid), f, hx(h)))
    for _ in range(300 * n):
        cases.append("%s %s %s %d %s" % (rng.choice(["INJ", "RT"]), hx(rnd_id(rng, 16)), hx(rnd_id(rng, 8)), rng.below(256), hx(rnd_ts_header(rng))))
    # extract: valid
    for _ in range(200 * n):
        cases.append(ext(valid_tp(rng, upper=rng.below(3)), rnd_ts_header(rng) if rng.chance(1, 2) else None))
    # every single-byte mutation class at every position
    for _ in range(2 * n):
        base = valid_tp(rng)
        for pos in range(55):
            for m in (MUT if tier == "thorough" else [rng.choice(MUT), rng.choice(MUT)]):
                cases.append(ext(base[:pos] + m + base[pos + 1:], None))
        # truncations and extensions
        for l in range(0, 61):
            cases.append(ext((base + b"-abcdef")[:l], None))
        # insertions / deletions
        for _ in range(20):
            pos = rng.below(56)
            cases.append(ext(base[:pos] + rng.choice(MUT) + base[pos:], None))
            cases.append(ext(base[:pos] + base[pos + 1:], None))
    # versions
    for _ in range(60 * n):
        v = rng.choice([b"00", b"01", b"fe", b"ff", b"FF", b"fF", b"0a", b"a0", b"7f", b"80"])
        suffix = rng.choice([b"", b"-", b"-x", b"x", b"-00", b"--", b" ", b"-" + bytes(rng.below(256) for _ in range(rng.below(5)))])
        cases.append(ext(valid_tp(rng, v, rng.below(3)) + suffix, rnd_ts_header(rng) if rng.chance(1, 3) else None))
    # zero ids
    for _ in range(10 * n):
        tp = valid_tp(rng)
        cases.append(ext(tp[:3] + b"0" * 32 + tp[35:], None))
        cases.append(ext(tp[:36] + b"0" * 16 + tp[52:], None))
    # whitespace around, inside
    ws = [b" ", b"\t", b"\n", b"\r", b"\x0b", b"\x0c", b"\xa0", b"\x00", b"\x85"]
    for _ in range(40 * n):
        tp = valid_tp(rng)
        a = b"".join(rng.choice(ws) for _ in range(rng.below(3)))
        b = b"".join(rng.choice(ws) for _ in range(rng.below(3)))
        cases.append(ext(a + tp + b, None))
    for w in ws:
        cases.append(ext(w, None)); cases.append(ext(w * 3, None))
    cases.append(ext(b"", None)); cases.append(ext(None, None)); cases.append(ext(None, b"a=1"))
    # arbitrary bytes
    for _ in range(150 * n):
        l = rng.choice([1, 2, 3, 10, 54, 55, 56, 100, rng.below(200)])
        alphabet = rng.choice([b"-0af", b"-0", bytes(range(256)), b"- \x000f"])
        cases.append(ext(bytes(rng.choice(alphabet) for _ in range(l)), None))
    # dashes only / many fields
    for k in (1, 2, 3, 4, 5, 54, 55, 56):
        cases.append(ext(b"-" * k, None))
    return cases


def neighbours(rng, cases):
    out = []
    for c in cases:
        t = c.split()
        if t[0] == "EXT" and t[1].startswith("x"):
            b = bytes.fromhex(t[1][1:])
            for _ in range(60):
                if not b:
                    break
                pos = rng.below(len(b))
                out.append(ext(b[:pos] + rng.choice(MUT) + b[pos + 1:], None if t[2] == "NONE" else bytes.fromhex(t[2][1:])))
        elif t[0] in ("INJ", "RT"):
            for f in range(0, 256, 5):
                out.append(" ".join([t[0], t[1], t[2], str(f), t[4]]))
    return out

LEVEL_TEXT = ("Theorems in coq/Properties_C09.v about the Gallina model of HttpTraceContext (inject shape through the digit tables read from "
              "trace_flags.h/trace_id.h/span_id.h, inject/extract round trip for every context incl. the trace state, extraction = the positional W3C "
              "grammar for every byte string, invalid => caller's context, never injected/installed, model_meets_spec); the model is tied to the C++ on "
              "every run by running the extracted model and the rebuilt ASan/UBSan driver on the same generated headers and by running the extracted "
              "SPEC on the implementation's outputs; the model's purity assumption (operations are functions of immutable values) is probed on every "
              "run by a ThreadSanitizer build in which real threads share the objects (a run-time probe, not a theorem).")
LEVEL_NOTE = ("Trusted: Coq kernel, extraction, ocaml/driver.ml, the C++ driver, the generator, tools/extract_consts.py; the model is hand-written "
              "(tied by correspondence, not verified against C++ semantics); memory safety is evidenced by sanitizers, not proved.")
