"""C13 - an exported log record carries what was emitted, correlated with the active span.
Case generator and configuration.  Case grammar: coq/C13/Glue.v."""
import os, re
from tools.vlib import hx, ROOT

ID = "C13"
LEVEL = "proof"
DRIVER = {"srcs": ["harness/c13_driver.cc", "harness/c13_purity.cc", "harness/purity/purity_probe.h", "tools/purity.py"], "sdk": True}


def build_driver():
    """the ASan/UBSan case driver + the ThreadSanitizer independence probe behind one dispatcher that behaves like a single
    case driver: PURITY lines go to the probe (one process per case), everything else to the case driver"""
    from tools import vlib, purity
    main = vlib.build_driver("c13_driver", ["harness/c13_driver.cc"], sdk=True)
    probe = vlib.build_driver("c13_purity", ["harness/c13_purity.cc"], sdk=True, variant="tsan")
    return purity.make_dispatcher("c13_dispatch", main, probe)


TRIVIAL_TAGS = {"ill", "odd"}
ASSUMPTIONS = [
    "threads: the model runs the operations of the three threads one at a time (thread-local context stacks, everything else shared); that "
    "the log pipeline keeps no hidden state shared between loggers / records / threads is NOT a theorem - it is probed at run time on every "
    "check by harness/c13_purity.cc (SDK sources under ThreadSanitizer; 3-4 real threads released by a barrier, each inside its own nested "
    "scopes, emit every argument shape through their own logger and through one shared logger of a fresh LoggerProvider per round; "
    "processors {simple}, {simple, simple}, {simple, batch + ForceFlush} with copying exporters; per processor the multiset of records seen "
    "must be the single-threaded reference: each record once, fields as supplied, the emitting thread's identity; clauses purity:data_race "
    "for a ThreadSanitizer report with a library frame, purity:result_differs)",
    "which span is ACTIVE on a thread is decided by the runtime context (C10); C13's model reuses C10's model of Context/Stack/Attach/Detach and the "
    "SPEC takes the active identity as the public context API reports it just before the call (printed by the driver), so C13 decides "
    "'the record carries the identity of the span that is active', C10 decides which one that is",
    "caller buffers are overwritten in place, never freed, by the MU operations (same type, same extent; bool arrays only hold 0/1): a deferred "
    "reader of caller memory then shows changed bytes instead of undefined behaviour; attribute KEYS and event names do live in exact-size heap "
    "blocks that are freed right after the call (a retained reference would be an ASan report)",
    "a record made by a disabled logger (NoopLogRecord) handed to an ENABLED logger is a static_cast to Recordable of an unrelated type "
    "(undefined); such programs, setters through a null record pointer and dangling references are outside the model's domain (outcome ILL, "
    "nothing claimed) and the generator produces them only as ILL probes the driver refuses to execute",
    "observed timestamp: the driver accepts any clock value between the start of the case and the moment of reading as 'now'",
    "the batch processor is the real BatchLogRecordProcessor (worker thread, circular buffer) in front of an "
    "exporter that keeps the recordables; the driver calls ForceFlush before counting; WHEN the worker hands a record over is irrelevant "
    "because kept records are read at the end of the case",
    "Q1..Q4 processors are the real BatchLogRecordProcessor with max_export_batch_size 1..4 (queue 64) in front of an exporter that only "
    "READS the span it is handed (renders every record, releases nothing), so a record handed over twice is seen twice; during a burst "
    "(BU: 2*batch+1..12 emissions in a row from one thread) that exporter's Export is held back until the last Emit returned, hence some "
    "export cycle has to drain several batches whatever the worker's timing; then ForceFlush (or, for a last unflushed burst, provider "
    "Shutdown). What that exporter saw must be exactly the emitted records, in order, each once (SPEC clauses as for every exporter); "
    "the model states that delivery is complete when the emitting operation is over (C01-C03 own the batch protocol itself)",
    "SDK spans are root spans of a real TracerProvider with a scripted id generator/sampler (flags 0/1); other flag bytes and invalid ids are "
    "made active as DefaultSpan / shared_ptr<SpanContext> context values",
    "Logger::Enabled(severity) / minimum severity is not consulted by EmitLogRecord at this commit and no SDK code sets it: not modelled",
]
TRUSTED = ["model coq/C13/Model.v (+ coq/C10/Model.v for the runtime context) is hand-written; tied by this correspondence run",
           "harness/c13_sigs.inc: the fixed table of argument-type sequences instantiated for EmitLogRecord(args...) (tools/c13_gen_sigs.py)"]
IMPL_TIMEOUT = 900

KINDS = ["sev", "eid", "bsv", "bcs", "bav", "ctx", "sid", "tid", "tfl", "ts", "tp", "kvi", "vec", "spn", "kvv"]
LEVELS = [1, 5, 9, 13, 17, 21]


def load_sigs():
    sigs = []
    path = os.path.join(ROOT, "harness", "c13_sigs.inc")
    for m in re.finditer(r'^SIG\((\d), "([^"]*)"', open(path).read(), re.M):
        sigs.append((tuple(k for k in m.group(2).split(",") if k), int(m.group(1))))
    return sigs


SIGS = load_sigs()
SIGS_E = [s for s, f in SIGS]
SIGS_R = [s for s, f in SIGS if f & 1]
SIGS_L = [s for s, f in SIGS if f & 2]

NAMES = [b"app", b"lib", b"db", b"a", b"app\x00x", b"\xff", b"App"]
KEYS = [b"k", b"k2", b"a", b"b", b"", b"k\x00", b"\xc3\xa9", b"key.long.name", b"K", b"aa", b"ab", b"\x80", b"\x7f"]
STRS = [b"", b"hello", b"x", b"a\x00b", b"\x00", b"\xff\xfe", b"message body", b"0123456789abcdef0123456789abcdef", b"caf\xc3\xa9", b"%s %d"]
I64 = [0, 1, -1, 2**63 - 1, -2**63, 42, 2**53 + 1, 12345678]
DBL = [0, 0x8000000000000000, 0x3ff0000000000000, 0x7ff0000000000000, 0xfff0000000000000, 0x7ff8000000000000, 0x0000000000000001,
       0x400921fb54442d18, 0x7fefffffffffffff]
ELEM = {"b": [0, 1], "i": [0, 1, -1, 2**31 - 1, -2**31, 7], "l": I64, "u": [0, 1, 2**32 - 1, 9], "d": DBL,
        "U": [0, 1, 2**64 - 1, 2**63], "y": [0, 1, 255, 0x41]}


class Gen:
    def __init__(self, rng, profile):
        self.r = rng
        self.profile = profile
        self.heap = []       # (tag, akind, content)
        self.ops = []

    # ---------------------------------------------------------------- heap
    def rnd_bytes(self):
        r = self.r
        k = r.below(6)
        if k < 3:
            return r.choice(STRS)
        if k == 3:
            return bytes(r.below(256) for _ in range(r.below(12)))
        if k == 4:
            return bytes(r.choice(b"ab\x00") for _ in range(1 + r.below(6)))
        return bytes(r.choice(b"abcdefghijklmnopqrstuvwxyz ") for _ in range(1 + r.below(20)))

    def make_heap(self):
        r = self.r
        nb = 2 + r.below(4)
        for _ in range(nb):
            self.heap.append(("hb" if r.chance(1, 2) else "hc", None, self.rnd_bytes()))
        self.heap.append(("hc", None, self.rnd_bytes()))
        self.heap.append(("hb", None, self.rnd_bytes()))
        for k in "biludUy":
            if r.chance(2, 3):
                n = r.choice([0, 1, 2, 3, 5])
                self.heap.append(("hz", k, [r.choice(ELEM[k]) for _ in range(n)]))
        for _ in range(1 + r.below(2)):
            n = r.choice([0, 1, 2, 3])
            self.heap.append(("hv", None, [self.rnd_view() for _ in range(n)]))

    def byte_bufs(self):
        return [i for i, b in enumerate(self.heap) if b[0] in ("hb", "hc")]

    def rnd_view(self):
        a = self.r.choice(self.byte_bufs())
        n = len(self.heap[a][2])
        ln = n if self.r.chance(2, 3) else self.r.below(n + 1)
        return (a, ln)

    def buf_toks(self, b):
        tag, k, c = b
        if tag in ("hb", "hc"):
            return "%s %s" % (tag, hx(c))
        if tag == "hz":
            return " ".join(["hz", k] + [str(z) for z in c])
        return " ".join(["hv"] + ["%d %d" % v for v in c])

    # ---------------------------------------------------------------- values
    def aval(self, kind=None):
        """returns (token string, [addresses referenced])"""
        r = self.r
        if kind is None:
            scalar_bias = {"scalar": 10, "mixed": 4, "refs": 1, "nobatch": 4, "burst": 5}[self.profile]
            kind = "scalar" if r.below(10) < scalar_bias else r.choice(["s", "s", "c", "A", "A", "S"])
        if kind == "scalar":
            k = r.choice("biludU")
            return "%s %d" % (k, r.choice(ELEM[k])), []
        if kind == "s":
            a, n = self.rnd_view()
            return "s %d %d" % (a, n), [a]
        if kind == "c":
            cs = [i for i, b in enumerate(self.heap) if b[0] == "hc"]
            a = r.choice(cs)
            return "c %d" % a, [a]
        if kind == "A":
            zs = [i for i, b in enumerate(self.heap) if b[0] == "hz"]
            if not zs:
                return self.aval("s")
            a = r.choice(zs)
            n = len(self.heap[a][2])
            ln = n if r.chance(2, 3) else r.below(n + 1)
            return "A %s %d %d" % (self.heap[a][1], a, ln), [a]
        vs = [i for i, b in enumerate(self.heap) if b[0] == "hv"]
        a = r.choice(vs)
        n = len(self.heap[a][2])
        ln = n if r.chance(2, 3) else r.below(n + 1)
        return "S %d %d" % (a, ln), [a] + [v[0] for v in self.heap[a][2][:ln]]

    def kvs(self):
        r = self.r
        n = r.choice([0, 1, 1, 2, 2, 3, 5])
        out, refs = [], []
        pool = [r.choice(KEYS) for _ in range(3)]
        for _ in range(n):
            k = r.choice(pool) if r.chance(2, 3) else r.choice(KEYS)
            v, rf = self.aval()
            out.append("%s %s" % (hx(k), v))
            refs += rf
        return " / ".join(out), refs

    def ident(self):
        r = self.r
        k = r.below(8)
        tid = bytes(16) if k == 0 else r.bytes(16)
        sid = bytes(8) if k == 1 else r.bytes(8)
        return tid, sid, r.choice([0, 1, 1, 2, 3, 0xff, r.below(256)])

    def arg(self, kind, allow_nameless):
        r = self.r
        refs = []
        if kind == "sev":
            s = "sev %d" % r.choice([0, 1, 5, 9, 13, 17, 21, 24, 25, 255, r.below(256)])
        elif kind == "eid":
            if allow_nameless and r.chance(1, 6):
                s = "eidn %d" % r.choice(I64)
            else:
                s = "eid %d %s" % (r.choice(I64), hx(r.choice([b"evt", b"", b"a\x00b", b"\x00", b"event.name", b"\xff"])))
        elif kind == "bsv":
            v, refs = self.aval("s"); s = "bsv " + v
        elif kind == "bcs":
            v, refs = self.aval("c"); s = "bcs " + v
        elif kind == "bav":
            v, refs = self.aval(); s = "bav " + v
        elif kind == "ctx":
            t, i, f = self.ident(); s = "ctx %s %s %d" % (hx(t), hx(i), f)
        elif kind == "sid":
            s = "sid " + hx(self.ident()[1])
        elif kind == "tid":
            s = "tid " + hx(self.ident()[0])
        elif kind == "tfl":
            s = "tfl %d" % self.ident()[2]
        elif kind in ("ts", "tp"):
            s = "%s %d" % (kind, r.choice([0, 1, -1, 1700000000000000000 % (2**40), 2**62, -2**63, 2**63 - 1, 999]))
        elif kind in ("kvi", "vec", "spn", "kvv"):
            v, refs = self.kvs(); s = (kind + " " + v).strip()
        elif kind == "obs":
            s = "obs %d" % r.choice([0, 5, -7, 2**40])
        elif kind == "eidraw":
            s = "eidraw %d %s" % (r.choice(I64), hx(r.choice([b"raw", b"", b"a\x00b"])))
        else:
            raise ValueError(kind)
        return s, refs

    def args_for(self, sig, allow_nameless):
        out, refs = [], []
        for k in sig:
            s, rf = self.arg(k, allow_nameless)
            out.append(s); refs += rf
        return " , ".join(out), refs


def scope_name(lg):
    return lg[1] if lg[1] else lg[0]


def gen_case(rng, profile, nameless=True, ill=False, force_nameless=False):
    g = Gen(rng, profile)
    r = rng
    g.make_heap()
    heap0 = list(g.heap)          # as the case starts (MU operations overwrite g.heap as they are generated)
    # configuration
    def_dis = 1 if r.chance(1, 8) else 0
    nlog = r.choice([1, 1, 2, 2, 3])
    loggers = []
    for _ in range(nlog):
        ln = r.choice(NAMES)
        lib = r.choice([b"", b"", r.choice(NAMES)])
        loggers.append((ln, lib, r.choice([b"", b"1.0", b"2"]), r.choice([b"", b"https://s/1"])))
    conds = []
    for _ in range(r.choice([0, 0, 1, 1, 2, 3])):
        conds.append((scope_name(r.choice(loggers)) if r.chance(3, 4) else r.choice(NAMES), 1 if r.chance(2, 3) else 0))

    def enabled(l):
        n = scope_name(loggers[l])
        for k, d in conds:
            if k == n:
                return not d
        return not def_dis

    spans = []
    for _ in range(r.choice([1, 2, 2, 3, 4])):
        kind = r.choice(["D", "D", "S", "S", "N"])
        tid, sid, fl = g.ident()
        if kind != "D":
            fl = r.below(2)
            if tid == bytes(16): tid = b"\x01" + tid[1:]
            if sid == bytes(8): sid = b"\x02" + sid[1:]
            if kind == "N" and fl == 1: kind = "S"
        spans.append((tid, sid, fl, kind))
    procs = [r.choice("IIKKKBP") for _ in range(r.choice([0, 1, 1, 2, 2, 2, 3, 3]))]
    if profile == "nobatch":
        procs = [("K" if p == "B" else p) for p in procs]
    bmax = 0
    if profile == "burst":
        # at least one batch processor with a SMALL max_export_batch_size in front of an exporter that only reads
        bmax = r.choice([1, 2, 2, 3, 3, 4, 4])
        procs = procs[:2] + ["Q%d" % bmax]
        if r.chance(1, 3):
            procs.append("Q%d" % (1 + r.below(bmax)))
        r.shuffle(procs)
    nprocs = len(procs)

    def burst(flush):
        # more than two batches' worth, so that some export cycle has to drain several batches whatever the worker's timing
        n = 2 * bmax + 1 + r.below(12 - 2 * bmax)
        sig = r.choice(SIGS_E) if r.chance(2, 3) else r.choice([s for s in SIGS_E if len(s) >= 3])
        a, rf = g.args_for(sig, nameless)
        l = pick_logger(None if r.chance(1, 6) else True)
        return ("BU %d %d %d %d %s" % (thread(), l, n, flush, a)).strip(), (rf if enabled(l) else [])

    slots = []          # 'null' | 'noop' | 'live'
    toks = []           # [thread, live]
    stacks = {0: [], 1: [], 2: []}
    referenced = []     # buffer addresses referenced by something that may be exported later
    ops = []
    multi_thread = r.chance(1, 3)

    def thread():
        return r.below(3) if multi_thread else 0

    def pick_logger(want_enabled=None):
        ls = list(range(nlog))
        if want_enabled is not None:
            c = [l for l in ls if enabled(l) == want_enabled]
            if c:
                return r.choice(c)
        return r.choice(ls)

    nops = r.choice([2, 3, 4, 5, 6, 8, 10, 14]) if profile != "burst" else r.choice([1, 2, 3, 4, 6])
    for step in range(nops):
        k = r.below(100)
        if profile == "burst" and r.chance(2, 5):
            o, rf = burst(1)
            ops.append(o); referenced += rf
            continue
        if k < 14:        # open a scope / attach
            t = thread()
            j = r.below(10)
            if j < 5:
                ops.append("SC %d S %d" % (t, r.below(len(spans))))
            elif j == 5:
                ops.append("SC %d C %d" % (t, r.below(len(spans))))
            elif j == 6:
                ops.append("SC %d %s 0" % (t, r.choice(["SN", "CN", "B"])))
            elif j == 7:
                ops.append("AO %d" % t)
            elif j == 8:
                ops.append("AB %d" % t)
            else:
                ops.append("SC %d S %d" % (t, r.below(len(spans))))
            toks.append([t, True]); stacks[t].append(len(toks) - 1)
        elif k < 20:      # close
            live = [i for i, tk in enumerate(toks) if tk[1]]
            if live:
                i = r.choice(live)
                if r.chance(4, 5) and stacks[toks[i][0]]:
                    i = stacks[toks[i][0]][-1]
                t = toks[i][0]
                # closing out of order unwinds everything above (C10); they stay 'live' handles whose close is a no-op
                pos = stacks[t].index(i) if i in stacks[t] else None
                if pos is not None:
                    stacks[t] = stacks[t][:pos]
                toks[i][1] = False
                ops.append("CL %d" % i)
        elif k < 30:      # create
            l = pick_logger(None if r.chance(1, 4) else True)
            ops.append("CR %d %d" % (thread(), l))
            slots.append("live" if enabled(l) else "noop")
        elif k < 42:      # apply a setter to a slot
            c = [i for i, s in enumerate(slots) if s != "null"]
            if c:
                i = r.choice(c)
                kind = r.choice(KINDS + ["obs", "eidraw", "bav", "kvi", "vec"])
                a, rf = g.arg(kind, nameless)
                ops.append("AP %d %s" % (i, a))
                if slots[i] == "live":
                    referenced += rf
        elif k < 52:      # emit a slot
            if slots:
                i = r.choice(list(range(len(slots))))
                l = pick_logger(None if r.chance(1, 4) else True)
                if slots[i] == "noop" and enabled(l):
                    l2 = [x for x in range(nlog) if not enabled(x)]
                    if not l2:
                        continue
                    l = r.choice(l2)
                ops.append("EM %d %d %d" % (thread(), l, i))
                if enabled(l) and slots[i] == "live":
                    slots[i] = "null"
        elif k < 54:
            ops.append("EN %d %d" % (thread(), pick_logger()))
        elif k < 72:      # variadic
            sig = r.choice(SIGS_E) if r.chance(2, 3) else r.choice([s for s in SIGS_E if len(s) >= 3])
            a, rf = g.args_for(sig, nameless)
            l = pick_logger(None if r.chance(1, 5) else True)
            ops.append(("EV %d %d %s" % (thread(), l, a)).strip())
            if enabled(l):
                referenced += rf
        elif k < 78:      # variadic on an existing record
            if slots:
                i = r.choice(list(range(len(slots))))
                l = pick_logger(None if r.chance(1, 4) else True)
                sig = r.choice(SIGS_R)
                a, rf = g.args_for(sig, nameless)
                if slots[i] == "noop" and enabled(l):
                    continue
                ops.append(("ER %d %d %d %s" % (thread(), l, i, a)).strip())
                if slots[i] == "live":
                    referenced += rf
                    if enabled(l):
                        slots[i] = "null"
        elif k < 86:      # Log() / Trace().. wrappers
            named = r.below(2)
            form = r.choice([0, 1, 2, 2] + ([3] if nameless else []))
            sev = r.choice(LEVELS) if named else r.choice([0, 1, 9, 17, 24, 200])
            m, rf = g.aval("s")
            kv, rf2 = g.kvs()
            l = pick_logger(None if r.chance(1, 5) else True)
            ops.append(("LG %d %d %d %d %d %d %s %s %s" % (thread(), l, named, form, sev, r.choice(I64), hx(r.choice([b"evt", b"", b"n\x00x"])), m[2:], kv)).strip())
            if enabled(l):
                referenced += rf + (rf2 if form >= 1 else [])
        elif k < 90:      # templated Trace(args...)
            sig = r.choice(SIGS_L)
            a, rf = g.args_for(sig, nameless)
            l = pick_logger(None if r.chance(1, 5) else True)
            ops.append(("LV %d %d %d %s" % (thread(), l, r.choice(LEVELS), a)).strip())
            if enabled(l):
                referenced += rf
        elif k < 94:      # mutate a buffer (possibly before the emit: "values given at emit time")
            ops.append(mutation(g, r, referenced))
        elif k < 97:
            if nprocs < 4:
                p = r.choice("IKP" if profile == "nobatch" else "IKBP")
                if profile == "burst" and r.chance(1, 2):
                    p = "Q%d" % (1 + r.below(bmax))
                ops.append("AD " + p); nprocs += 1
        else:
            ops.append("NM %d" % pick_logger())
    # the caller reuses its buffers after the last Emit
    if profile != "scalar" or r.chance(1, 2):
        for _ in range(r.choice([0, 1, 2, 3, 4])):
            ops.append(mutation(g, r, referenced))
    if force_nameless and r.chance(2, 3):      # EventId{id} through every entry point (F29, fixed)
        j = r.below(4)
        l = pick_logger()
        if j == 0:
            ops.insert(r.below(len(ops) + 1), "EV %d %d sev 9 , eidn %d" % (thread(), l, r.choice(I64)))
        elif j == 1:
            m, _ = g.aval("s")
            ops.insert(r.below(len(ops) + 1), "LG %d %d %d 3 %d %d x %s" % (thread(), l, r.below(2), r.choice(LEVELS), r.choice(I64), m[2:]))
        elif j == 2:
            ops.append("CR 0 %d | AP %d eidn 4" % (l, len(slots)))
        else:
            ops.insert(r.below(len(ops) + 1), "LV %d %d 9 eidn 1" % (thread(), l))
    if ill:
        j = r.below(4)
        if j == 0:
            ops.insert(r.below(len(ops) + 1), "AP %d sev 3" % (len(slots) + r.below(2)))
        elif j == 1:
            ops.insert(r.below(len(ops) + 1), "CL %d" % (len(toks) + 1))
        elif j == 2:
            ops.append("EV 0 0 bsv s %d 1" % (len(g.heap) + 3))
        else:
            ops.append("MU 0 hz i 1 2 3 4 5 6 7 8 9")
    ops = [o for o in ops if o]
    if profile == "burst" and not ill and r.chance(2, 5):
        # a last burst that is NOT flushed: delivered when the provider shuts down
        o, _ = burst(0)
        ops.append(o)
    head = "CFG %d%s ; LG %s ; SP %s ; RES %s ; PR%s ; HP %s ; OPS %s" % (
        def_dis, "".join(" %s %d" % (hx(k), d) for k, d in conds),
        " ".join("%s %s %s %s" % tuple(hx(x) for x in lg) for lg in loggers),
        " ".join("%s %s %d %s" % (hx(t), hx(s), f, k) for t, s, f, k in spans),
        hx(r.choice([b"res-1", b"", b"\x00r"])),
        "".join(" " + p for p in procs),
        " , ".join(g.buf_toks(b) for b in heap0),
        " | ".join(ops))
    return head


def mutation(g, r, referenced):
    """overwrite a buffer in place: same type, same extent"""
    cand = [a for a in referenced if a < len(g.heap)]
    a = r.choice(cand) if cand and r.chance(4, 5) else r.below(len(g.heap))
    tag, k, c = g.heap[a]
    if tag in ("hb", "hc"):
        j = r.below(4)
        if j == 0:
            new = bytes((x + 1) & 0xff for x in c)
        elif j == 1:
            new = bytes(len(c))            # all NUL: a C string shrinks to ""
        elif j == 2:
            new = bytes(r.below(256) for _ in c)
        else:
            new = bytes(r.choice(b"XYZ") for _ in c)
        g.heap[a] = (tag, k, new)
    elif tag == "hz":
        g.heap[a] = (tag, k, [r.choice(ELEM[k]) for _ in c])
    else:
        g.heap[a] = (tag, k, [g.rnd_view() for _ in c])
    return "MU %d %s" % (a, g.buf_toks(g.heap[a]))


def purity_cases(tier):
    # PURITY <0 simple / 1 two simple / 2 simple + batch> <threads> <rounds (fresh provider each)> <iterations of every shape>
    k = 1 if tier == "quick" else 6
    return ["PURITY 0 4 %d 3" % (40 * k), "PURITY 1 3 %d 3" % (40 * k), "PURITY 2 4 %d 3" % (40 * k), "PURITY 2 3 %d 6" % (20 * k)]


def gen(rng, tier):
    n = 1 if tier == "quick" else 12
    cases = purity_cases(tier)
    for _ in range(1100 * n):
        cases.append(gen_case(rng, "mixed"))
    for _ in range(500 * n):
        cases.append(gen_case(rng, "refs"))
    for _ in range(400 * n):
        cases.append(gen_case(rng, "scalar"))
    for _ in range(600 * n):
        cases.append(gen_case(rng, "nobatch"))
    for _ in range(120 * n):
        cases.append(gen_case(rng, "mixed", force_nameless=True))
    for _ in range(350 * n):
        cases.append(gen_case(rng, "burst"))
    for _ in range(40 * n):
        cases.append(gen_case(rng, "mixed", ill=True))
    return cases


def widen(rng, k):
    return [gen_case(rng, rng.choice(["mixed", "refs", "scalar", "nobatch", "burst"])) for _ in range(1500)]


def shrink(case):
    """the runner keeps the FIRST candidate that still fails: shortest prefixes of the program first,
    then the program with one operation dropped (last first)"""
    head, _, ops = case.partition(" ; OPS ")
    ol = [o for o in ops.split(" | ") if o.strip()]
    for n in range(1, len(ol)):
        yield head + " ; OPS " + " | ".join(ol[:n])
    for i in range(len(ol) - 1, -1, -1):
        yield head + " ; OPS " + " | ".join(ol[:i] + ol[i + 1:])


def neighbours(rng, cases):
    out = []
    for c in cases:
        out += list(shrink(c))[:20]
    return out


LEVEL_TEXT = ("Theorems in coq/Properties_C13.v about the Gallina model of the SDK log pipeline (argument pack folded left to right through the setter "
              "traits, CreateLogRecord taking the identity from C10's runtime context, ReadWriteLogRecord with non-owning string/array values, "
              "MultiRecordable/MultiLogRecordProcessor fan-out, scope configurator, Log()/Trace()..Fatal() wrappers): fields = last one supplied for "
              "every argument list, explicit identity wins per component, no active span => zero ids, null record ignored, disabled logger emits "
              "nothing over every operation sequence, each processor exactly once, independence of later caller writes proved for scalar values and "
              "refuted with a witness for strings/arrays (F15), model_meets_spec.  The model is tied to the C++ on every run: extracted model vs "
              "ASan/UBSan driver on the same generated programs, and the extracted SPEC checker on the implementation's observations.")
LEVEL_NOTE = ("The PURITY cases are a run-time ThreadSanitizer probe of the no-hidden-shared-state assumption, not a theorem. Trusted: Coq kernel, extraction, ocaml/driver.ml, harness/c13_driver.cc (exporters, probe recordable, thread hand-over), the generator, tools/extract_consts.py; the model is hand-written (tied by correspondence); the variadic pack "
              "expansion is exercised for the 351 argument-type sequences of harness/c13_sigs.inc only (the model theorem is for every list).")
