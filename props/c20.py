"""C20 - nostd vocabulary types behave like the std types they stand in for.  Case generator and configuration.

Case lines (see coq/C20/Glue.v):
  SV <a> <b> pos n pos2 n2 ch      string_view: compare/==/</find/substr/compare(pos,n,..)/C-string overloads/hash
  SVA <buf> o1 l1 o2 l2 pos n pos2 n2 ch   as SV, but a = buf[o1,o1+l1) and b = buf[o2,o2+l2) are views into ONE buffer
  SP <buf> off cnt idx val ext     span over buf[off, off+cnt): size/iteration/index/constructors/fixed extent/write through
  PT op ; op ; ...                 unique_ptr (slots 0..3), shared_ptr (4..7), raw pointers held by the caller (8..9)
  VR op ; op ; ...                 variant<monostate,bool,int64,string,Counted,Thrower> in 3 slots
  FR op ; op ; ...                 function_ref<long long(long long,long long)>
  CHU op ; ... / CHS op ; ...      chains of self-referential nodes (Node has a unique_ptr / shared_ptr<Node> next), roots head and aux
  CONV k                           converting construction, fixed table of instantiations
"""
from tools.vlib import hx

ID = "C20"
LEVEL = "proof"
DRIVER = {"srcs": ["harness/c20_driver.cc"], "sdk": False}
TRIVIAL_TAGS = {"pt_empty", "vr_empty", "fr_empty", "ch_empty"}
ASSUMPTIONS = [
    "string_view operands either live in separate exact-size heap blocks (SV) or are two slices of one block (SVA: same start address with different lengths, identical, nested, overlapping views); the model and the SPEC see byte contents only, so any dependence of the result on addresses shows up as a disagreement",
    "the std lane of the driver (std::string_view, std::unique_ptr, std::shared_ptr, std::variant, std::function over std::ref; an index-checked "
    "vector slice for span, std::span not existing in C++17) is libstdc++ of this image; the driver prints 'std 1' only when both lanes produced identical tokens",
    "hash values are compared with std::hash<std::string_view> on the same bytes and between equal keys at different addresses; the hash function itself is not modelled",
    "a moved-from std::string alternative is empty (libstdc++) and a moved-from Counted payload holds -1 (defined by the driver)",
    "span::operator[] beyond size() and fixed-extent mismatches are undefined for std::span; only the nostd choice (std::terminate on extent mismatch, observed in a forked child) is checked, out-of-range indexing is never executed",
    "memory safety (use after free, double free, leaks) of the real code is evidenced by ASan/LeakSanitizer on the generated sequences; the theorem is about the model's heap",
]
TRUSTED = ["model coq/C20/Model.v is hand-written; tied by this three-way correspondence run",
           "the P0608R3 selection rule in coq/C20/Spec.v (conv_select_std) is checked against libstdc++'s std::variant on the fixed table only"]

NPOS = (1 << 64) - 1
ALPHABETS = [b"ab", b"a\x00", b"\x00\x01", b"\x7f\x80\xff\x00a", b"az\x80", bytes(range(256)), b"a", b"\xff\xfe"]


def rnd_str(rng, alpha, maxlen=12):
    n = rng.choice([0, 0, 1, 1, 2, 3, 4, 5, 8, rng.below(maxlen + 1)])
    return bytes(rng.choice(alpha) for _ in range(n))


def rnd_pos(rng, ln):
    k = rng.below(12)
    if k < 2:
        return 0
    if k == 2:
        return ln
    if k == 3:
        return ln + 1
    if k == 4:
        return max(0, ln - 1)
    if k == 5:
        return rng.choice([NPOS, NPOS - 1, 1 << 63, (1 << 63) - 1, ln + 5, 1 << 32])
    return rng.below(ln + 2)


def rnd_n(rng, ln, pos):
    rest = max(0, ln - pos)
    k = rng.below(12)
    if k < 2:
        return NPOS
    if k == 2:
        return 0
    if k == 3:
        return rest
    if k == 4:
        return rest + 1
    if k == 5:
        return max(0, rest - 1)
    if k == 6:
        return rng.choice([NPOS - 1, (NPOS + 1 - pos) & NPOS, (NPOS - pos + 2) & NPOS, 1 << 63])
    return rng.below(ln + 2)


def sv_case(rng):
    alpha = rng.choice(ALPHABETS)
    a = rnd_str(rng, alpha)
    k = rng.below(10)
    if k == 0:
        b = a
    elif k == 1:
        b = a[:rng.below(len(a) + 1)]
    elif k == 2:
        b = a + rnd_str(rng, alpha, 3)
    elif k == 3 and a:
        i = rng.below(len(a))
        b = a[:i] + bytes([rng.choice([0, 1, 0x7f, 0x80, 0xff, a[i] ^ 0x80, (a[i] + 1) & 255])]) + a[i + 1:]
    elif k == 4 and a:
        i = rng.below(len(a))
        b = a[:i] + b"\x00" + a[i:]
    elif k == 5:
        b = a + b"\x00"
    else:
        b = rnd_str(rng, alpha)
    if rng.chance(1, 8):
        a, b = b, a
    pos = rnd_pos(rng, len(a))
    n = rnd_n(rng, len(a), pos)
    pos2 = rnd_pos(rng, len(b))
    n2 = rnd_n(rng, len(b), pos2)
    ch = rng.choice(list(a) + list(alpha) + [0, 0x80, 0xff]) if rng.chance(7, 8) else rng.below(256)
    return "SV %s %s %d %d %d %d %d" % (hx(a), hx(b), pos, n, pos2, n2, ch)


def sva_case(rng):
    """both operands alias one buffer: same start with different lengths, identical, nested, overlapping, empty at every offset"""
    alpha = rng.choice(ALPHABETS[:5] + [b"a", b"ab"])
    ln = rng.choice([1, 2, 3, 4, 6, 9, rng.below(11)])
    buf = bytes(rng.choice(alpha) for _ in range(ln))
    k = rng.below(10)
    o1 = rng.below(ln + 1)
    l1 = rng.below(ln - o1 + 1)
    if k < 3:                      # same data() pointer, (mostly) different lengths
        o2, l2 = o1, rng.below(ln - o1 + 1)
    elif k == 3:                   # identical views
        o2, l2 = o1, l1
    elif k == 4:                   # empty slice at an offset vs a non-empty one at the same offset
        o2, l2 = o1, 0
        l1 = ln - o1
    elif k == 5:                   # nested
        o2 = o1 + rng.below(l1 + 1)
        l2 = rng.below(o1 + l1 - o2 + 1)
    elif k == 6:                   # whole buffer vs prefix
        o1, l1, o2, l2 = 0, ln, 0, rng.below(ln + 1)
    else:                          # arbitrary (overlapping or disjoint) slices
        o2 = rng.below(ln + 1)
        l2 = rng.below(ln - o2 + 1)
    if rng.chance(1, 2):
        o1, l1, o2, l2 = o2, l2, o1, l1
    pos = rnd_pos(rng, l1)
    n = rnd_n(rng, l1, pos)
    pos2 = rnd_pos(rng, l2)
    n2 = rnd_n(rng, l2, pos2)
    ch = rng.choice(list(buf) + [0, 0x80]) if buf else 0
    return "SVA %s %d %d %d %d %d %d %d %d %d" % (hx(buf), o1, l1, o2, l2, pos, n, pos2, n2, ch)


def sp_case(rng):
    ln = rng.choice([0, 1, 3, 4, 5, 8, rng.below(11)])
    buf = rng.bytes(ln)
    ext = rng.choice([0, 4, 4])
    k = rng.below(6)
    if k == 0 and ln >= ext:
        cnt = ext
    elif k == 1:
        cnt = ln
    elif k == 2:
        cnt = 0
    elif k == 3 and ln >= 1:
        cnt = max(0, min(ln, ext + rng.choice([-1, 1])))
    else:
        cnt = rng.below(ln + 1)
    off = rng.choice([0, ln - cnt, rng.below(ln - cnt + 1)])
    idx = rng.choice([0, max(0, cnt - 1), cnt, cnt + 1, rng.below(cnt + 2)])
    return "SP %s %d %d %d %d %d" % (hx(buf), off, cnt, idx, rng.below(256), ext)


U1 = ["unull", "uan", "urst", "udel", "uval", "ustd"]
U2V = ["unew", "urstn", "usetv"]
U2S = ["umc", "uma", "uswap", "ueq"]
S1 = ["snull", "san", "sdel", "sval"]
S2V = ["snew", "ssetv", "sfromstd"]
S2S = ["scc", "smc", "sca", "sma", "sswap", "seq"]


def pt_case(rng):
    nops = rng.choice([3, 8, 15, 30, 60]) if rng.chance(3, 4) else 1 + rng.below(80)
    # few handles so that aliasing, self-assignment and swap-with-self are frequent
    us = [rng.below(4) for _ in range(rng.choice([1, 2, 2, 3]))]
    ss = [4 + rng.below(4) for _ in range(rng.choice([1, 2, 2, 3]))]
    rs = [8 + rng.below(2) for _ in range(rng.choice([1, 2]))]
    mode = rng.below(4)          # 0 mixed, 1 unique only, 2 shared only, 3 mixed with sloppy slot numbers
    ops = []
    val = 0
    for i in range(nops):
        val += 1
        if mode == 3 and rng.chance(1, 10):
            ops.append("%s %d %d" % (rng.choice(U2S + S2S + ["urel", "uadopt", "sfromu"]), rng.below(11), rng.below(11)))
            continue
        side = rng.below(2) if mode in (0, 3) else mode - 1
        if side == 0:
            k = rng.below(20)
            d, s = rng.choice(us), rng.choice(us)
            if k < 4 or i < 2:
                ops.append("unew %d %d" % (d, val))
            elif k < 9:
                ops.append("%s %d %d" % (rng.choice(U2S), d, s))
            elif k < 11:
                ops.append("uma %d %d" % (d, s))
            elif k < 13:
                ops.append("%s %d %d" % (rng.choice(["urel", "uadopt"]), d, rng.choice(rs)))
            elif k < 15:
                ops.append("%s %d %d" % (rng.choice(U2V), d, val))
            else:
                ops.append("%s %d" % (rng.choice(U1), d))
        else:
            k = rng.below(20)
            d, s = rng.choice(ss), rng.choice(ss)
            if k < 4 or i < 2:
                ops.append("%s %d %d" % (rng.choice(["snew", "snew", "sfromstd"]), d, val))
            elif k < 11:
                ops.append("%s %d %d" % (rng.choice(S2S), d, s))
            elif k < 13:
                ops.append("%s %d %d" % (rng.choice(["sca", "sma", "sswap"]), d, d))
            elif k < 15 and mode != 2:
                ops.append("sfromu %d %d" % (d, rng.choice(us)))
            elif k < 16:
                ops.append("%s %d %d" % (rng.choice(S2V), d, val))
            else:
                ops.append("%s %d" % (rng.choice(S1), d))
    return "PT " + " ; ".join(ops)


def v_value(rng):
    i = rng.below(5)
    if i == 0:
        return "0 0"
    if i == 1:
        return "1 %d" % rng.below(2)
    if i == 2:
        return "2 %d" % rng.choice([0, 1, -1, 7, -(1 << 63), (1 << 63) - 1, rng.below(100)])
    if i == 3:
        return "3 %s" % hx(rnd_str(rng, rng.choice(ALPHABETS[:5]), 6) if rng.chance(7, 8) else rng.bytes(40))
    return "4 %d" % rng.choice([0, 1, 5, rng.below(50)])


def vr_case(rng):
    nops = rng.choice([2, 6, 12, 25, 40])
    ops = []
    for i in range(nops):
        k = rng.below(24)
        d, s = rng.below(3), rng.below(3)
        if k < 6 or i < 2:
            ops.append("%s %d %s" % (rng.choice(["vset", "vemp"]), d, v_value(rng)))
        elif k == 6:
            ops.append("%s %d" % (rng.choice(["vempthrow", "vself", "vself"]), d))
        elif k < 12:
            ops.append("%s %d %d" % (rng.choice(["vcp", "vmv", "vswap", "vcc", "vmc"]), d, s))
        elif k < 16:
            ops.append("%s %d %d" % (rng.choice(["vholds", "vget", "vgetif"]), d, rng.below(6)))
        elif k < 18:
            ops.append("%s %d" % (rng.choice(["vidx", "vvis"]), d))
        elif k < 21:
            ops.append("vcmp %d %d" % (d, s))
        else:
            ops.append("vvis2 %d %d" % (d, s))
    return "VR " + " ; ".join(ops)


def fr_case(rng):
    nops = rng.choice([2, 5, 10, 30])
    ops = []
    for i in range(nops):
        k = rng.below(16)
        if k < 3 or i == 0:
            ops.append("bind %d" % rng.choice([0, 1, 2, 3, 4, 0, 2, 3]))
        elif k < 8:
            ops.append("%s %d %d" % (rng.choice(["call", "call", "ccall"]), rng.below(2001) - 1000, rng.below(2001) - 1000))
        elif k < 10:
            ops.append("copy %d" % rng.choice([0, 0, 1, 2]))      # from a named non-const lvalue / const lvalue / rvalue
        elif k < 13:
            ops.append("callc %d %d" % (rng.below(2001) - 1000, rng.below(2001) - 1000))
        elif k == 13:
            ops.append("boolc")
        elif k == 14:
            ops.append("drop")
        else:
            ops.append("bool")
    return "FR " + " ; ".join(ops)


CH_COMMON = ["pop", "pop", "pop2", "cuttail", "split", "join", "swapaux", "swaptail", "movehead", "selfnext", "clear", "clearaux"]


def ch_case(rng):
    """chains of length 2..6 are built over several steps, then handles that are members of a pointee are moved / reset / swapped"""
    shared = rng.chance(1, 2)
    ops = []
    ln = 0
    for _ in range(rng.choice([4, 8, 16, 30])):
        k = rng.below(10)
        if ln < 2 or k < 3:
            ops.append(rng.choice(["push", "append", "push", "append", "pushaux"]))
            ln += 1
        else:
            op = rng.choice(CH_COMMON + (["popc", "popc"] if shared else ["popr", "detach", "popr"]))
            ops.append(op)
            if op in ("pop", "popr", "popc", "detach"):
                ln -= 1
            elif op == "pop2":
                ln = max(0, ln - 2)
            elif op in ("cuttail", "split"):
                ln = min(ln, 1)
            elif op in ("clear", "movehead", "swapaux", "join", "swaptail"):
                ln = 0 if op == "clear" else 2      # unknown: let the model decide validity
    return ("CHS " if shared else "CHU ") + " ; ".join(ops)


FIXED = [
    # the repaired F18 and its neighbours: self copy/move assignment and self swap of the only owner
    "PT snew 4 1 ; sca 4 4 ; sval 4 ; sma 4 4 ; sval 4 ; sswap 4 4 ; sval 4",
    "PT snew 4 1 ; scc 5 4 ; sca 4 5 ; sca 5 5 ; sdel 4 ; sval 5 ; sdel 5",
    "PT unew 0 1 ; uma 0 0 ; uval 0 ; uswap 0 0 ; uval 0 ; ustd 0 ; uval 0",
    "PT unew 0 1 ; urel 0 8 ; unew 0 2 ; urel 0 8 ; uadopt 0 8 ; uadopt 0 8",
    "PT unew 0 1 ; sfromu 4 0 ; scc 5 4 ; sdel 4 ; sval 5 ; uval 0",
    "PT unull 0 ; sfromu 4 0 ; sval 4 ; snull 5 ; sswap 4 5 ; sma 4 5 ; sca 5 4",
    "PT",
    "VR", "FR", "CHU", "CHS",
    # the source of a move is a member of the target's pointee: exactly one node goes (seeded C20_e)
    "CHU push ; push ; push ; pop ; pop2",
    "CHU append ; append ; append ; append ; popr ; pop2 ; detach ; swaptail ; join ; split ; cuttail",
    "CHS push ; push ; push ; popc ; pop ; append ; append ; pop2 ; split ; join ; swaptail",
    # a copy made from a named non-const function_ref refers to the callable, not to the source object (seeded C20_f)
    "FR bind 3 ; copy 0 ; boolc", "FR bind 1 ; copy 0 ; bind 0 ; callc 1 2 ; drop ; callc 3 4",
    "FR bind 0 ; copy 1 ; bind 1 ; callc 1 1 ; copy 2 ; bind 2 ; callc 1 1 ; boolc ; bind 4 ; copy 0 ; boolc",
    "VR vset 0 4 5 ; vcp 1 0 ; vset 0 3 x6162 ; vset 1 0 0 ; vempthrow 2 ; vcp 0 2 ; vcmp 0 2 ; vcmp 0 1 ; vswap 1 2 ; vvis 1 ; vget 1 0",
    "SV x x 0 0 0 0 0", "SV x x00 0 18446744073709551615 1 0 0", "SV xff x7f 0 1 0 1 255", "SV x61 x6100 1 18446744073709551615 2 0 97",
    "SV x6162 x6162 3 0 3 0 98", "SV x616200 x6162 2 18446744073709551615 0 2 0",
]


def gen(rng, tier):
    m = 1 if tier == "quick" else 15
    cases = list(FIXED)
    cases += ["CONV %d" % k for k in range(12)]
    for _ in range(2500 * m):
        cases.append(sv_case(rng))
    # every (offset, length) pair of a short buffer against every other one: all aliasing shapes exhaustively
    for buf in (b"key", b"aa\x00a", b"\xff\x7f"):
        sl = [(o, l) for o in range(len(buf) + 1) for l in range(len(buf) - o + 1)]
        for (o1, l1) in sl:
            for (o2, l2) in sl:
                cases.append("SVA %s %d %d %d %d 0 %d 0 %d %d" % (hx(buf), o1, l1, o2, l2, NPOS, NPOS, buf[0]))
    for _ in range(1200 * m):
        cases.append(sva_case(rng))
    for _ in range(250 * m):
        cases.append(sp_case(rng))
    for _ in range(1200 * m):
        cases.append(pt_case(rng))
    for _ in range(500 * m):
        cases.append(vr_case(rng))
    for _ in range(300 * m):
        cases.append(fr_case(rng))
    for _ in range(500 * m):
        cases.append(ch_case(rng))
    return cases


def neighbours(rng, cases):
    out = []
    for c in cases:
        t = c.split()
        if t[0] == "SV":
            for _ in range(40):
                u = list(t)
                j = rng.choice([3, 4, 5, 6, 7])
                u[j] = str(rng.choice([0, 1, 2, 3, NPOS, NPOS - 1, rng.below(20)]) if j != 7 else rng.below(256))
                out.append(" ".join(u))
        elif t[0] == "SVA":
            ln = (len(t[1]) - 1) // 2
            for _ in range(40):
                u = list(t)
                o1 = rng.below(ln + 1); o2 = rng.choice([o1, rng.below(ln + 1)])
                u[2], u[3], u[4], u[5] = str(o1), str(rng.below(ln - o1 + 1)), str(o2), str(rng.below(ln - o2 + 1))
                out.append(" ".join(u))
        elif t[0] in ("PT", "VR", "FR", "CHU", "CHS"):
            ops = c[len(t[0]) + 1:].split(" ; ")
            for _ in range(20):
                if len(ops) > 1:
                    i = rng.below(len(ops))
                    out.append(t[0] + " " + " ; ".join(ops[:i] + ops[i + 1:]))
    return out


def shrink(case):
    t = case.split()
    if t[0] in ("PT", "VR", "FR", "CHU", "CHS") and len(case) > len(t[0]) + 1:
        ops = case[len(t[0]) + 1:].split(" ; ")
        # shortest failing prefix first, then single deletions
        for k in range(1, len(ops)):
            yield t[0] + " " + " ; ".join(ops[:k])
        for i in range(len(ops)):
            yield t[0] + " " + " ; ".join(ops[:i] + ops[i + 1:])


LEVEL_TEXT = ("Theorems in coq/Properties_C20.v about the Gallina model of the nostd vocabulary types: string_view::compare is a total order "
              "(unsigned lexicographic, consistent with ==), find returns the least matching index >= pos or npos, substr is the clamped slice or the "
              "out-of-range failure, span is the index-checked slice, for EVERY sequence of unique_ptr/shared_ptr operations (incl. self-assignment, "
              "self-swap, release/adopt, unique->shared) each created object is destroyed exactly once and exactly when its last owner goes, the live "
              "count is the number of owned objects and no destroyed object is touched, variant get/holds/visit agree with the held alternative, "
              "function_ref is application; model_meets_spec for every case.  The model is tied to the C++ on every run by a three-way run: nostd "
              "type, std counterpart (same driver, ASan+UBSan+LeakSanitizer) and extracted model on the same generated operation sequences, and by "
              "running the extracted SPEC on the implementation's observations.")
LEVEL_NOTE = ("Trusted: Coq kernel, extraction, ocaml/driver.ml, the C++ driver (incl. its std lane), the generator; the model is hand-written (tied by "
              "correspondence, not verified against C++ semantics); memory safety of the real code is evidenced by sanitizers, not proved; variant "
              "converting-constructor overload resolution is compile time and only checked on a fixed table of instantiations.")
