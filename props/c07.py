"""C07 - histogram points are exact summaries of the recorded values.  Case generator and configuration.

Case format: coq/C07/Glue.v.  Doubles travel as the integer holding their IEEE-754 bit pattern."""
import math, struct

ID = "C07"
LEVEL = "proof"
DRIVER = {"srcs": ["harness/c07_driver.cc"], "sdk": True}

INF = float("inf")
DBL_MAX = 1.7976931348623157e308
DBL_MIN = 2.2250738585072014e-308
DENORM_MIN = 5e-324
I64_MAX = (1 << 63) - 1
I64_MIN = -(1 << 63)
OTEL_DEFAULT = [0, 5, 10, 25, 50, 75, 100, 250, 500, 750, 1000, 2500, 5000, 7500, 10000]


def bits(d):
    return struct.unpack("<Q", struct.pack("<d", d))[0]


def dbl(b):
    return struct.unpack("<d", struct.pack("<Q", b & ((1 << 64) - 1)))[0]


def finite(b):
    return (b >> 52) & 0x7FF != 0x7FF


def up(x):
    return math.nextafter(x, INF)


def down(x):
    return math.nextafter(x, -INF)


# ------------------------------------------------------------------ boundary lists (always sorted, finite)
def gen_bounds(rng, long_kind):
    """returns None (no config: default boundaries) or a sorted list of floats"""
    k = rng.below(16)
    if k <= 2:
        return None
    if k == 3:
        return []
    if k == 4:
        return [rng.choice([0.0, 1.0, 0.5, -3.0, 1e308, DENORM_MIN, 100.0, float(1 << 53), 0.1])]
    if k == 5:
        return [10.0, 20.0, 30.0, 40.0]
    if k == 6:   # fractional, not dyadic
        return sorted({round(rng.below(100000) / 1000.0 + 0.0001 * rng.below(10), 4) for _ in range(1 + rng.below(8))})
    if k == 7:   # dyadic fractions
        return sorted({rng.below(1 << 14) / 1024.0 for _ in range(1 + rng.below(10))})
    if k == 8:   # huge
        return sorted(set(rng.choice([[1e300, 1e305, 1.7e308], [-1e308, 0.0, 1e308], [1e308, DBL_MAX], [-DBL_MAX, DBL_MAX],
                                      [1e-300, 1.0, 1e300]])))
    if k == 9:   # negative and around zero
        return sorted({float(rng.below(2001) - 1000) / rng.choice([1, 2, 8]) for _ in range(1 + rng.below(8))})
    if k == 10:  # subnormal boundaries
        return sorted(set([DENORM_MIN * rng.choice([1, 2, 3, 1000]), down(DBL_MIN), DBL_MIN, up(DBL_MIN)][: 1 + rng.below(4)]))
    if k == 11:  # many
        n = 20 + rng.below(45)
        return sorted({float(rng.below(100000)) / rng.choice([1, 4, 1000]) for _ in range(n)})
    if k == 12:  # around 2^53 and the int64 limits (where int64 -> double rounds)
        p = float(1 << 53)
        return sorted(set(rng.choice([[p], [p, p + 2, p + 4], [float(1 << 62), float(1 << 63)], [-float(1 << 63), 0.0, float(1 << 63)],
                                      [p - 1, p], [-p - 2, -p, p, p + 2], [float(1 << 60)]])))
    if k == 13:  # the OTel defaults given explicitly through a config
        return [float(x) for x in OTEL_DEFAULT]
    if k == 14:  # adjacent doubles
        b = rng.choice([1.0, 0.1, 1e10, 1e-5, 3.0])
        return [down(b), b, up(b)]
    # sorted with a duplicate (sorted, not strictly): lower_bound still well defined
    base = sorted({float(rng.below(50)) for _ in range(2 + rng.below(5))})
    i = rng.below(len(base))
    return base[: i + 1] + base[i:]


def eff_bounds(bs):
    return [float(x) for x in OTEL_DEFAULT] if bs is None else bs


def cfg_tokens(rng, bs, rmm):
    if bs is None:
        return "DEF"
    return " ".join(["B", "1" if rmm else "0"] + [str(bits(b)) for b in bs])


# ------------------------------------------------------------------ values
def gen_double(rng, bs, mode, nonneg):
    """mode 'exact': k/1024 with |k| < 2^30 (every sum of < 2^23 of them is exact); 'any': everything finite"""
    if mode == "exact":
        k = rng.below(12)
        if k < 4 and bs:
            b = rng.choice(bs)
            q = round(b * 1024) if abs(b) < 1e6 else (1 << 40)
            if abs(q) < (1 << 30) and q / 1024.0 == b:
                return b if (b >= 0 or not nonneg) else 0.0
        if k < 6:
            v = rng.below(1 << 30) / 1024.0
        elif k < 9:
            v = rng.below(20000) / 1024.0
        elif k < 10:
            v = 0.0
        else:
            v = float(rng.below(11000))
        if not nonneg and rng.chance(1, 4):
            v = -v
        return v
    k = rng.below(20)
    e = eff_bounds(bs)
    if k < 6 and e:       # on a boundary and its two neighbours
        b = rng.choice(e)
        v = rng.choice([b, b, up(b), down(b)])
    elif k < 8 and e:     # strictly between two boundaries / beyond the ends
        i = rng.below(len(e) + 1)
        lo = e[i - 1] if i > 0 else (e[0] - abs(e[0]) - 1)
        hi = e[i] if i < len(e) else (e[-1] + abs(e[-1]) + 1)
        lo, hi = max(lo, -DBL_MAX), min(hi, DBL_MAX)
        v = lo / 2 + hi / 2
    elif k < 10:
        v = rng.choice([0.0, -0.0, DENORM_MIN, DENORM_MIN * 3, down(DBL_MIN), DBL_MIN, up(DBL_MIN), 1e-310, 1e-300])
    elif k < 12:
        v = rng.choice([1e308, DBL_MAX, down(DBL_MAX), 1e300, 8.98846567431158e307, float(1 << 53), float((1 << 53) + 2), 1e15 + 0.3])
    elif k < 14:
        v = rng.choice([0.1, 0.2, 0.3, 1.0 / 3, 2.0 / 3, 1e-3, 123.456, 1e6, 7500.0, 10000.0, 10000.000000000002])
    elif k < 17:
        v = rng.below(1 << 20) / 64.0
    else:                 # any finite bit pattern
        b = rng.next() & ((1 << 63) - 1)
        v = dbl(b) if finite(b) else 1.0
    if v != v or v in (INF, -INF):
        v = 0.0
    if not nonneg and rng.chance(1, 5):
        v = -v
    if nonneg and v < 0:
        v = -v if rng.chance(2, 3) else v     # a few negative ones stay: the instrument must drop them
    return v


def gen_long(rng, bs, budget, signed):
    """an int64 (signed=True: AGG) or uint64 (RDR) value whose magnitude stays within budget"""
    k = rng.below(16)
    e = eff_bounds(bs)
    if k < 5 and e:
        b = rng.choice(e)
        if abs(b) < 9.3e18:
            c = int(math.floor(b))
            v = c + rng.choice([0, 0, 1, -1, 2])
        else:
            v = 0
    elif k < 8:
        v = rng.below(11000)
    elif k < 9:
        v = 0
    elif k < 11:
        v = (1 << 53) + rng.choice([-2, -1, 0, 1, 2, 3, 4, 5])
    elif k < 12:
        v = rng.choice([I64_MAX, I64_MAX - 1, 1 << 62, (1 << 62) + 1, (1 << 54) + 2, (1 << 54) + 3, (1 << 63) - 513, (1 << 63) - 511])
    elif k < 14:
        v = rng.below(1 << rng.choice([8, 16, 33, 54, 60]))
    else:
        v = rng.below(1 << 20)
    if signed and rng.chance(1, 4):
        v = -v
    if signed and rng.chance(1, 60):
        v = I64_MIN
    if not signed:
        v = abs(v)
    if abs(v) > budget:
        v = min(max(budget, 0), rng.below(1000))
    return v


class Vals:
    """value source for one case; keeps the int64 sum of everything ever handed out inside the int64 range"""

    def __init__(self, rng, long_kind, bs, nonneg, signed=True):
        self.rng, self.long_kind, self.bs, self.nonneg, self.signed = rng, long_kind, bs, nonneg, signed
        self.mode = "exact" if rng.chance(1, 2) else "any"
        self.budget = I64_MAX

    def next(self, weight=1):
        if self.long_kind:
            v = gen_long(self.rng, self.bs, self.budget // max(1, weight), self.signed)
            self.budget -= abs(v) * weight
            return str(v)
        return str(bits(gen_double(self.rng, self.bs, self.mode, self.nonneg)))


# ------------------------------------------------------------------ AGG cases
def agg_case(rng, tier):
    long_kind = rng.chance(2, 5)
    bs = gen_bounds(rng, long_kind)
    rmm = not rng.chance(1, 6)
    vs = Vals(rng, long_kind, bs, nonneg=rng.chance(1, 3))
    ops = []
    # multiplicity with which a register's content may be counted in a later merge (to bound int64 sums)
    t = rng.below(10)
    nmax = 60 if tier == "quick" else 150
    if t == 0:      # one aggregation, print
        n = rng.choice([0, 1, 2, 3, 8, 20, rng.below(nmax)])
        ops += ["A 0 " + vs.next() for _ in range(n)]
        ops.append("P 0")
    elif t <= 4:    # arbitrary split over k parts, merged in some order; the same values into one histogram
        k = 2 + rng.below(4)
        n = rng.choice([0, 1, 2, 5, 12, rng.below(nmax)])
        vals = [vs.next(3) for _ in range(n)]
        for v in vals:
            ops.append("A %d %s" % (rng.below(k), v))
            if rng.chance(1, 15):
                ops.append("X %d %s" % (rng.below(k), v))
        order = list(range(k))
        rng.shuffle(order)
        if rng.chance(1, 2):   # left fold
            ops.append("M 6 %d %d" % (order[0], order[1]))
            for r in order[2:]:
                ops.append("M 6 6 %d" % r if rng.chance(1, 2) else "M 6 %d 6" % r)
        else:                  # right nested / tree
            ops.append("M 6 %d %d" % (order[-2], order[-1]))
            for r in reversed(order[:-2]):
                ops.append("M 6 %d 6" % r)
        ops.append("P 6")
        ops += ["A 7 " + v for v in vals]
        ops.append("P 7")
        if rng.chance(1, 3):   # keep recording into the merged aggregation
            ops += ["A 6 " + vs.next() for _ in range(1 + rng.below(4))]
            ops.append("P 6")
        if rng.chance(1, 4):
            ops.append("P %d" % rng.below(k))
    elif t == 5:    # merge with empty / with itself
        n = rng.below(12)
        ops += ["A 0 " + vs.next(4) for _ in range(n)]
        ops += rng.choice([["M 1 0 2", "P 1"], ["M 1 2 0", "P 1"], ["M 1 0 0", "P 1"], ["M 0 0 0", "P 0"], ["M 1 2 3", "P 1"],
                           ["M 1 0 0", "M 1 1 0", "P 1"]])
    elif t <= 7:    # diff of a merge gives the delta back
        n, m = rng.below(15), rng.below(15)
        xs = [vs.next(2) for _ in range(n)]
        ys = [vs.next(2) for _ in range(m)]
        ops += ["A 0 " + v for v in xs]
        if rng.chance(1, 2):
            ops += ["A 1 " + v for v in ys] + ["M 2 0 1"]
        else:
            ops += ["A 2 " + v for v in xs + ys]
        ops += ["D 3 0 2", "P 3"]
        if rng.chance(1, 3):
            ops += ["A 3 " + vs.next(), "P 3"]
        if rng.chance(1, 3):
            ops += ["M 4 0 3", "P 4"]
        if rng.chance(1, 5):   # the wrong way round: unsigned wrap
            ops += ["D 5 2 0", "P 5"]
    else:           # op soup
        mult = [1] * 8
        for _ in range(rng.choice([3, 10, 30, nmax])):
            c = rng.below(10)
            r, a, b = rng.below(8), rng.below(8), rng.below(8)
            if c < 5:
                ops.append("A %d %s" % (r, vs.next(64)))
            elif c == 5 and mult[a] + mult[b] <= 64:
                ops.append("M %d %d %d" % (r, a, b)); mult[r] = mult[a] + mult[b]
            elif c == 6:
                ops.append("D %d %d %d" % (r, a, b)); mult[r] = 1
            elif c == 7:
                ops.append("N %d" % r); mult[r] = 1
            elif c == 8:
                ops.append("X %d %s" % (r, vs.next(0)))
            else:
                ops.append("P %d" % r)
        ops.append("P %d" % rng.below(8))
    return " | ".join(["AGG %s %s" % ("L" if long_kind else "D", cfg_tokens(rng, bs, rmm))] + ops)


# ------------------------------------------------------------------ RDR cases
def rdr_case(rng, tier):
    long_kind = rng.chance(2, 5)
    bs = gen_bounds(rng, long_kind)
    rmm = not rng.chance(1, 6)
    temps = rng.choice([[0], [0], [1], [1], [0, 1], [1, 0], [0, 0], [1, 1], [0, 1, 0], [1, 0, 1, 0]])
    vs = Vals(rng, long_kind, bs, nonneg=True, signed=False)
    ops = []
    nattr = rng.choice([1, 1, 1, 2, 3])
    wrapped = False
    for _ in range(rng.choice([2, 5, 12, 30, 60 if tier == "quick" else 200])):
        if rng.chance(1, 4):
            ops.append("C %d" % rng.below(len(temps)))
            if rng.chance(1, 6):
                ops.append("C %d" % rng.below(len(temps)))
        else:
            a = rng.below(nattr)
            if long_kind and not wrapped and rng.chance(1, 150):
                # the API takes uint64_t, the SDK stores int64_t: one value >= 2^63 per case (sum stays in range)
                wrapped = True
                ops.append("R %d %d" % (a, (1 << 64) - 1 - rng.below(1 << rng.choice([1, 20, 62]))))
                continue
            ops.append("R %d %s" % (a, vs.next(1)))
    for r in range(len(temps)):
        if rng.chance(2, 3):
            ops.append("C %d" % r)
    return " | ".join(["RDR %s %d %s %s" % ("L" if long_kind else "D", len(temps), " ".join(map(str, temps)), cfg_tokens(rng, bs, rmm))] + ops)


def fixed_cases():
    """deterministic cases aimed at every boundary of the model"""
    out = []
    d = lambda x: str(bits(x))
    # every default boundary, its neighbours, through both kinds and both paths
    vals_d = []
    for b in OTEL_DEFAULT:
        vals_d += [float(b), up(float(b)), down(float(b))]
    out.append("AGG D DEF | " + " | ".join("A 0 " + d(v) for v in vals_d) + " | P 0")
    out.append("RDR D 1 0 DEF | " + " | ".join("R 0 " + d(v) for v in vals_d) + " | C 0")
    out.append("RDR D 1 1 DEF | " + " | ".join("R 0 " + d(v) for v in vals_d) + " | C 0 | C 0")
    vals_l = []
    for b in OTEL_DEFAULT:
        vals_l += [b, b + 1, b - 1]
    out.append("AGG L DEF | " + " | ".join("A 0 %d" % v for v in vals_l) + " | P 0")
    out.append("RDR L 2 0 1 DEF | " + " | ".join("R 0 %d" % v for v in vals_l if v >= 0) + " | C 0 | C 1")
    # empty aggregations, all zeros (F8 regression: max of all-zero values), empty boundary list with min/max
    out.append("AGG D DEF | P 0")
    out.append("AGG L DEF | P 0")
    out.append("AGG D DEF | A 0 0 | A 0 0 | A 0 %s | P 0" % d(-0.0))
    out.append("AGG D B 1 | A 0 %s | A 0 %s | P 0" % (d(3.5), d(DENORM_MIN)))
    out.append("AGG D B 1 | P 0 | M 1 0 0 | P 1")
    out.append("AGG L B 1 | A 0 -5 | A 0 7 | P 0")
    out.append("AGG D B 0 %s | A 0 %s | P 0 | M 1 0 0 | P 1" % (d(1.0), d(1.0)))
    out.append("RDR D 1 0 DEF | R 0 0 | R 0 0 | C 0")
    out.append("RDR D 1 1 DEF | R 0 %s | C 0 | C 0" % d(DENORM_MIN))
    out.append("RDR D 1 0 DEF | R 0 %s | R 0 %s | R 0 %s | C 0" % (d(-1.0), d(-DENORM_MIN), d(-0.0)))
    out.append("RDR D 2 0 1 B 1 %s | C 0 | R 0 %s | C 1 | C 1 | R 1 %s | C 0 | C 1 | C 0" % (d(0.5), d(0.5), d(0.75)))
    # sums that round, overflow to +inf, and inf + -inf
    out.append("AGG D DEF | A 0 %s | A 0 %s | A 0 %s | P 0" % (d(0.1), d(0.2), d(0.3)))
    out.append("AGG D DEF | A 0 %s | A 0 %s | P 0 | A 1 %s | A 1 %s | P 1 | M 2 0 1 | P 2" % (d(1e308), d(1e308), d(-1e308), d(-1e308)))
    out.append("AGG D DEF | A 0 %s | A 0 %s | P 0" % (d(DBL_MAX), d(down(DBL_MAX) - DBL_MAX + 1e292)))
    out.append("AGG D DEF | A 0 %s | A 0 1 | P 0" % d(float(1 << 53)))
    out.append("AGG D DEF | A 0 %s | A 0 %s | P 0" % (d(float(1 << 53)), d(3.0)))
    # F8b (fixed): an int64 above 2^53 must be compared exactly, not after rounding to double
    out.append("AGG L B 1 %s | A 0 %d | P 0" % (d(float(1 << 53)), (1 << 53) + 1))
    out.append("AGG L B 1 %s | A 0 %d | A 0 %d | P 0" % (d(float(1 << 53)), (1 << 53), (1 << 53) + 2))
    out.append("RDR L 1 0 B 1 %s | R 0 %d | C 0" % (d(float(1 << 53)), (1 << 53) + 1))
    out.append("AGG L B 1 %s | A 0 %d | P 0 | A 1 %d | P 1" % (d(-float(1 << 63)), I64_MIN, I64_MIN + 1))
    out.append("AGG L B 1 %s | A 0 %d | P 0" % (d(float(1 << 63)), I64_MAX))
    # Diff
    out.append("AGG L DEF | A 0 3 | A 1 3 | A 1 8 | D 2 0 1 | P 2")
    out.append("AGG D DEF | A 0 %s | A 1 %s | A 1 %s | D 2 0 1 | P 2" % (d(3.0), d(3.0), d(8.0)))
    out.append("AGG L DEF | A 0 3 | D 2 0 1 | P 2")
    # the uint64 API type
    out.append("RDR L 1 0 DEF | R 0 18446744073709551615 | R 0 5 | C 0")
    return out


def gen(rng, tier):
    n = 1 if tier == "quick" else 5
    cases = fixed_cases()
    for _ in range(1300 * n):
        cases.append(agg_case(rng, tier))
    for _ in range(900 * n):
        cases.append(rdr_case(rng, tier))
    return cases


def neighbours(rng, cases):
    """same shape, other values: replace each recorded value by a value around it"""
    out = []
    for c in cases:
        ch = c.split(" | ")
        long_kind = ch[0].split()[1] == "L"
        for _ in range(30):
            new = [ch[0]]
            for op in ch[1:]:
                t = op.split()
                if t[0] in ("A", "R") and rng.chance(1, 2):
                    if long_kind:
                        v = int(t[2]) + rng.choice([-1, 1, 0])
                        if t[0] == "R":
                            v = max(0, v)
                        t[2] = str(max(I64_MIN + 1, min(I64_MAX - 1, v)) if t[0] == "A" else v)
                    else:
                        x = dbl(int(t[2]))
                        x = rng.choice([up(x), down(x), x])
                        if x == x and x not in (INF, -INF):
                            t[2] = str(bits(x))
                new.append(" ".join(t))
            out.append(" | ".join(new))
    return out


def shrink(case):
    """shortest prefixes ending in an observation first"""
    ch = case.split(" | ")
    for i in range(1, len(ch)):
        if ch[i].split()[0] in ("P", "C"):
            yield " | ".join(ch[: i + 1])


def _trivial():
    s = {"BADCASE"}
    for k in "LD":
        for c in ("def", "nobounds", "onebound", "cfg", "cfg_nomm"):
            for m in ("plain", "merge", "diff"):
                s.add("agg_%s_%s_%s_empty" % (k, c, m))
            for m in ("fastdelta", "onecumulative", "multi"):
                s.add("rdr_%s_%s_%s_empty" % (k, c, m))
    return s


TRIVIAL_TAGS = _trivial()
ASSUMPTIONS = [
    "values and boundaries are finite doubles / int64 (the property quantifies over non-negative values and sorted boundary lists); NaN and infinities are not generated "
    "and the case parser of the model rejects them; boundary lists are sorted (a config is never validated by the SDK)",
    "a finite double is modelled exactly as an integer multiple of 2^-s (s <= 1074 chosen per case); double addition is modelled as exact integer addition followed by "
    "round-to-nearest-even to 53 bits with overflow to infinity (IEEE-754 binary64, no excess precision: x86-64 SSE2); tied bit for bit by the correspondence run",
    "the sign of a zero and the payload of a NaN are not observed (the driver prints +0 and the canonical quiet NaN)",
    "int64 sums do not overflow (signed overflow is undefined behaviour in C++; the generator keeps every sum inside the int64 range, UBSan would stop the driver otherwise)",
    "Histogram<uint64_t>::Record hands its uint64_t to RecordLong(int64_t): values >= 2^63 arrive as negative numbers; the model and the SPEC take the converted value as the recorded one",
    "`sum is the sum of the values` is decided for a double instrument only when the multiset makes every sub-sum exactly representable "
    "(all values multiples of 2^q, sum of absolute values < 2^(q+53)); otherwise only the model/implementation equality of the rounded sum is checked",
    "without a view the SPEC checks a point against the boundaries the OpenTelemetry specification fixes (0, 5, 10, 25, 50, 75, 100, 250, 500, 750, 1000, 2500, 5000, 7500, 10000) "
    "with min/max recorded; theorem default_config_spec re-checks on every run that the defaults read from histogram_aggregation.cc are these",
    "Diff is exercised through the Aggregation objects only (it is reached in the SDK by observable instruments, which are C17's subject)",
    "one histogram instrument per MeterProvider, at most 3 attribute sets, readers registered before the first measurement; the reader model is per attribute set "
    "(projection of the history onto that set): independence of series is C08's subject",
]
TRUSTED = ["model coq/C07/Model.v is hand-written (bucket search, Aggregate, HistogramMerge, HistogramDiff, the per-reader bookkeeping of TemporalMetricStorage); tied by this correspondence run",
           "tools/c07_consts.py (default boundaries and min/max sentinels read from histogram_aggregation.cc)"]
LEVEL_TEXT = ("Theorems in coq/Properties_C07.v about the Gallina model of the explicit-bucket histogram aggregation (bucket search = the unique bucket with "
              "b[i-1] < v <= b[i] for every sorted boundary list, counts add up to count, sum, min/max, Merge is a homomorphism from list concatenation, Diff inverts Merge on the counts, "
              "delta and cumulative readers report the exact summary of their interval for every history); the model is tied to the C++ on every run by running the extracted "
              "model and the rebuilt ASan/UBSan driver (Aggregation objects directly, and MeterProvider + instrument + readers) on the same generated cases and by running the "
              "extracted SPEC on the implementation's points.")
LEVEL_NOTE = ("Trusted: Coq kernel, extraction, ocaml/driver.ml, the C++ driver, the generator, tools/extract_consts.py + tools/c07_consts.py; the model is hand-written "
              "(tied by correspondence, not verified against C++ semantics); rounded double sums are compared bit for bit but not characterised by a theorem beyond the exact case.")
