"""C01 - batch processors hand every accepted span/log to the exporter exactly once (E-sched, acceptor model)."""
from props.batch_common import *          # noqa: F401,F403  (build_driver, TRACE_MODE, DRIVER, shrink, ...)
from props import batch_common as bc

ID = "C01"
LEVEL = "proof"
ENGINE = "E-coq+E-sched"
TRIVIAL_TAGS = {"t", "rejected"}
ASSUMPTIONS = bc.ASSUMPTIONS_COMMON + [
    "distinct processor objects share no hidden state: not a theorem - probed at run time by harness/batch_purity.cc (real threads, each driving its own batch/simple span/log processor, under ThreadSanitizer; result compared with the single-threaded reference)",
    "'dropped' records are those the queue refused (buf add .. 0) or whose OnEnd found the processor shut down; records accepted by the queue after the worker's final drain (an OnEnd racing with Shutdown) are neither exported nor counted as loss: they were not 'ended before the processor was shut down'",
]
TRUSTED = bc.TRUSTED_COMMON


def build_driver():
    """the scheduler-shim driver + the ThreadSanitizer independence probe (harness/batch_purity.cc: real threads, each driving its
    OWN batch / simple span / log processor); PURITY lines go to the probe (tools/purity.py)"""
    import os
    from tools import purity, vlib
    main = bc.build_driver()
    dirs = ("/sdk/src/trace/", "/sdk/src/logs/", "/sdk/src/common/", "/sdk/src/resource/", "/sdk/src/version/")
    sdk_rel = [os.path.relpath(f, vlib.REPO) for f in vlib.sdk_sources() if any(d in f for d in dirs)]
    probe = purity.build_probe("batch_purity", ["harness/batch_purity.cc"], sdk_srcs=sdk_rel)
    return purity.make_dispatcher("c01_dispatch", main, probe)


def gen(rng, tier):
    k = 1 if tier == "quick" else 4
    # PURITY <burst size> <threads> <rounds> <iters>: every operation builds its own processor + exporter
    probes = ["PURITY 3 4 %d 1" % (6 * k), "PURITY 5 3 %d 2" % (4 * k), "PURITY 1 2 %d 3" % (4 * k)]
    return bc.gen_with(rng, tier, 7, 2, 1) + probes


LEVEL_TEXT = ("Theorems in coq/Properties_C01.v about an acceptor LTS of the batch span/log processors (any number of threads, any queue/batch size, "
              "any interleaving): what reaches the exporter is a duplicate-free prefix of what the queue accepted, in queue order (hence per-producer order); "
              "a record is refused only when the queue holds max_queue_size records, in particular never when at most max_queue_size records are produced after "
              "a completed flush; producer steps are always enabled. The LTS is tied to the C++ on every run by accepting the event traces of the real "
              "processors run under a deterministic scheduler shim (systematic + random schedules), and the history checkers are run on those traces.")
LEVEL_NOTE = ("Trusted: Coq kernel, extraction, ocaml/driver.ml, the scheduler shim and token table, the drivers and generators; the model is hand-written and "
              "tied by trace acceptance (not verified against C++ semantics); SC memory; the ring buffer is abstracted to an atomic bounded FIFO (C11).")
TECHNIQUE = "machine-checked proof in Coq 8.16 (inductive invariant of an interleaving transition system), tied to the C++ by accepting the implementation's event traces produced under a deterministic scheduler shim"
