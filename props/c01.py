"""C01 - batch processors hand every accepted span/log to the exporter exactly once (E-sched, acceptor model)."""
from props.batch_common import *          # noqa: F401,F403  (build_driver, TRACE_MODE, DRIVER, shrink, ...)
from props import batch_common as bc

ID = "C01"
LEVEL = "proof"
ENGINE = "E-coq+E-sched"
TRIVIAL_TAGS = {"t", "rejected"}
ASSUMPTIONS = bc.ASSUMPTIONS_COMMON + [
    "'dropped' records are those the queue refused (buf add .. 0) or whose OnEnd found the processor shut down; records accepted by the queue after the worker's final drain (an OnEnd racing with Shutdown) are neither exported nor counted as loss: they were not 'ended before the processor was shut down'",
]
TRUSTED = bc.TRUSTED_COMMON


def gen(rng, tier):
    return bc.gen_with(rng, tier, 7, 2, 1)


LEVEL_TEXT = ("Theorems in coq/Properties_C01.v about an acceptor LTS of the batch span/log processors (any number of threads, any queue/batch size, "
              "any interleaving): what reaches the exporter is a duplicate-free prefix of what the queue accepted, in queue order (hence per-producer order); "
              "a record is refused only when the queue holds max_queue_size records, in particular never when at most max_queue_size records are produced after "
              "a completed flush; producer steps are always enabled. The LTS is tied to the C++ on every run by accepting the event traces of the real "
              "processors run under a deterministic scheduler shim (systematic + random schedules), and the history checkers are run on those traces.")
LEVEL_NOTE = ("Trusted: Coq kernel, extraction, ocaml/driver.ml, the scheduler shim and token table, the drivers and generators; the model is hand-written and "
              "tied by trace acceptance (not verified against C++ semantics); SC memory; the ring buffer is abstracted to an atomic bounded FIFO (C11).")
TECHNIQUE = "machine-checked proof in Coq 8.16 (inductive invariant of an interleaving transition system), tied to the C++ by accepting the implementation's event traces produced under a deterministic scheduler shim"
