"""C18 - resources merge with documented precedence; environment settings parse totally.
Case generator and configuration."""
from fractions import Fraction
from tools.vlib import hx

ID = "C18"
LEVEL = "proof"
DRIVER = {"srcs": ["harness/c18_driver.cc"], "sdk": True}
TRIVIAL_TAGS = {"bool_unset", "uint_unset", "dur_unset", "flt_unset", "str", "det_none", "res_new"}
ASSUMPTIONS = [
    "libc: strtoull(.,.,10), strtof, strcasecmp, isspace, isdigit behave as ISO C specifies for the \"C\" locale (glibc); they are modelled "
    "explicitly in coq/C18/Model.v (grammar, end pointer, ERANGE, correct rounding to binary32) and that model is tied to glibc by this run",
    "std::chrono::system_clock::duration is a signed 64-bit count of nanoseconds (libstdc++); the unit factors are derived from the "
    "std::chrono type names in GetTimeoutFromString under that assumption (tools/c18_consts.py)",
    "environment values contain no NUL byte (getenv cannot return one); each Resource::Create case runs in a fresh forked process because "
    "Create caches the detected environment resource in a function-local static",
    "metric batches are observed at MetricReader::Collect callbacks of a cumulative and a delta reader per provider, for every invocation "
    "including batches without data (a null resource_ is reported as its own token and never dereferenced); whether a batch has data is "
    "modelled as 'the provider's counter was ever incremented'",
    "attribute values exercised are std::string, int64_t and bool; std::unordered_map iteration order is not observed (listings are sorted)",
    "'no undefined behaviour or crash' is additionally evidenced by the ASan/UBSan build on the generated stream; for the duration reader "
    "absence of signed overflow is also a theorem about the model (duration_no_ub)",
    "exact values of decimal floats: the model rounds exact rationals correctly and is compared bit-for-bit with strtof on every generated "
    "text, but the theorems cover the float reader's acceptance grammar and default-on-junk only (partial)",
]
TRUSTED = ["model coq/C18/Model.v is hand-written (incl. the libc functions); tied by this correspondence run",
           "tools/c18_consts.py (literal / unit-table / default-attribute extraction)"]

WS = [b" ", b"\t", b"\n", b"\v", b"\f", b"\r"]
I64 = 2 ** 63 - 1
UNITS = [(b"ns", 1), (b"us", 10 ** 3), (b"ms", 10 ** 6), (b"s", 10 ** 9), (b"m", 60 * 10 ** 9), (b"h", 3600 * 10 ** 9), (b"", 10 ** 9)]


def env(b):
    return "NONE" if b is None else hx(b)


def clean(b):
    """environment values cannot hold NUL"""
    return bytes(c for c in b if c != 0)


def rnd_ws(rng, maxn=3):
    return b"".join(rng.choice(WS) for _ in range(rng.below(maxn + 1)))


def rnd_from(rng, alphabet, maxlen):
    return bytes(rng.choice(alphabet) for _ in range(rng.below(maxlen + 1)))


def mutate(rng, s):
    k = rng.below(5)
    junk = rng.choice([b" ", b"\t", b"x", b"-", b"+", b".", b"0", b"9", b"\x80", b"\xa0", b"\xff", b",", b"=", b"e", b"s", b"m", b"\x01", b"A", b"a"])
    if not s or k == 0:
        pos = rng.below(len(s) + 1)
        return s[:pos] + junk + s[pos:]
    pos = rng.below(len(s))
    if k == 1:
        return s[:pos] + s[pos + 1:]
    if k == 2:
        return s[:pos] + junk + s[pos + 1:]
    if k == 3:
        return s[:pos] + bytes([s[pos] ^ (1 << rng.below(8))]) + s[pos + 1:]
    return s + junk


# ---------------------------------------------------------------- booleans
def gen_bool(rng, n):
    out = [None, b""]
    for word in (b"true", b"false"):
        for mask in range(1 << len(word)):
            out.append(bytes((c - 32 if mask >> i & 1 else c) for i, c in enumerate(word)))
    out += [b"tru", b"truee", b"true ", b" true", b"\ttrue", b"true\n", b"1", b"0", b"yes", b"no", b"on", b"t", b"f", b"fals", b"False0",
            b"TRUE\x00".rstrip(b"\x00") + b"\x01", b"tr\xfce", b"\xd4RUE", b"\xf4rue", b"4rue", b"Trve", b"t\x52ue", b"truefalse", b"false,true",
            b"TrUe", b"fALSe", b"[RUE", b"T2UE", b"true\xff", b"\x74\x72\x75\x45", b"FALSE ", b"fal\x73\x65", b"fa\x0cse", b"FA\x4c\x53\x65"]
    for _ in range(60 * n):
        base = rng.choice([b"true", b"false", b"TRUE", b"False"])
        out.append(mutate(rng, base))
    for _ in range(20 * n):
        out.append(rnd_from(rng, b"trueTRUEfalsFALS \x00\x80", 6))
    return [("BOOL %s" % env(None if b is None else clean(b))) for b in out]


# ---------------------------------------------------------------- unsigned integers
def gen_uint(rng, n):
    vals = [0, 1, 7, 42, 2 ** 31 - 1, 2 ** 31, 2 ** 32 - 2, 2 ** 32 - 1, 2 ** 32, 2 ** 32 + 1, 2 ** 33, 2 ** 63 - 1, 2 ** 63, 2 ** 64 - 2, 2 ** 64 - 1, 2 ** 64,
            2 ** 64 + 1, 2 ** 64 + 2 ** 32 - 1, 2 ** 65, 10 ** 19, 10 ** 20, 10 ** 25, 2 ** 64 * 10 + 5, 2 ** 96 + 7, 4294967295 * 10, 42949672950, 429496729, 4294967294,
            18446744073709551615 - 4294967295, 18446744073709551616 - 42, 18446744069414584321]
    texts = [None, b"", b" ", b"\t\n", b"+", b"-", b" +", b" -", b"+-1", b"-+1", b"++1", b"--1", b"+ 1", b"- 1", b" + 1", b"0x10", b"0X1f", b"010", b"1e3", b"1.0", b"1.", b".1",
             b"1,000", b"1_000", b"12 34", b"12\t", b"12\n", b"12 ", b"12x", b"x12", b"\xa012", b"12\xa0", b"\x8512", b"4-2", b"42-", b"4+2", b"-0", b"+0", b"-00", b"00", b"0",
             b"\x0b\x0c\r 7", b"\x1c7", b"\x1f7", b"\x007".lstrip(b"\x00"), b"\xef\xbb\xbf7", b"\xd9\xa3", b"\xef\xbc\x91", b"1\xef\xbc\x91", b"nan", b"inf", b"true"]
    for v in vals:
        d = str(v).encode()
        texts += [d, b"+" + d, b"-" + d, b" " + d, b"\t+" + d, b"000" + d, b"0" * 30 + d, d + b" ", d + b"0", d + b"x", b" \n-" + d]
    for _ in range(150 * n):
        k = rng.below(6)
        if k == 0:
            d = str(rng.choice(vals) + rng.below(5) - 2 if rng.chance(1, 2) else rng.below(2 ** 34)).encode()
        elif k == 1:
            d = str(rng.below(10 ** rng.choice([1, 5, 9, 10, 11, 19, 20, 21, 40]))).encode()
        elif k == 2:
            d = rnd_from(rng, b"0123456789", 25)
        else:
            d = str(rng.choice(vals)).encode()
        t = rnd_ws(rng) + rng.choice([b"", b"", b"+", b"-", b"+", b"+-", b" "]) + (b"0" * rng.below(4) if rng.chance(1, 4) else b"") + d
        if rng.chance(1, 3):
            t = mutate(rng, t)
        if rng.chance(1, 6):
            t += rnd_ws(rng, 1)
        texts.append(t)
    for _ in range(40 * n):
        texts.append(rnd_from(rng, b"0123456789+- \tx", 8))
    out = []
    for i, t in enumerate(texts):
        tt = None if t is None else clean(t)
        out.append("UINT %s %d" % (env(tt), 1 if (i % 3 == 0) else 0))
    # the stale-errno regression on plainly valid texts
    for t in (b"42", b"0", b"4294967295", b" +7"):
        out.append("UINT %s 1" % env(t))
    return out


# ---------------------------------------------------------------- durations
def gen_dur(rng, n):
    texts = [None, b"", b" ", b"\t \n", b"0", b"00", b"000000000000000000000000", b"0s", b"00ms", b"0ns", b"0h", b" 0", b"ms", b"s", b"h", b" s", b"+5s", b"-5s", b"+5", b"-5", b"- 5s",
             b"1.5s", b"1e3s", b"1e3", b"0x10", b"0x10s", b"5 s", b"5s ", b"5 ", b"5\t", b"5\n", b" 5", b"\t\n\v\f\r 5ms", b"\xa05s", b"5\xa0s", b"5S", b"5MS", b"5Ms", b"5mS", b"5NS",
             b"5US", b"5M", b"5H", b"5d", b"5w", b"5y", b"5sec", b"5min", b"5mss", b"5sm", b"5ss", b"5nss", b"5n", b"5u", b"5\xc2\xb5s", b"5\xce\xbcs", b"5hs", b"5mh", b"5h5m", b"5m5",
             b"5s5", b"55", b"5,5s", b"5_000", b"0005s", b"0000000000000000000000000005s", b"05", b"1", b"1s", b"1m", b"1h", b"1ms", b"1us", b"1ns", b"60s", b"10", b"30000ms",
             b"9223372036854775807", b"9223372036854775807ns", b"9223372036854775808ns", b"9223372036854775806ns", b"9223372036854775810ns", b"9223372036854775799ns",
             b"92233720368547758070ns", b"92233720368547758ns", b"922337203685477580ns", b"922337203685477581ns", b"00009223372036854775807ns", b"00009223372036854775808ns",
             b"18446744073709551616ns", b"18446744073709551617s", b"18446744073709551615", b"99999999999999999999999999999999ns", b"1" + b"0" * 40, b"1" + b"0" * 40 + b"h",
             b"\xef\xbc\x95s", b"5\x01s", b"5s\x01", b"\x015s"]
    for u, f in UNITS:
        lim = I64 // f
        for v in (1, 2, 9, 10, 59, 60, 61, 999, 1000, 1001, 3599, 3600, 86400, lim - 1, lim, lim + 1, lim + 2, lim * 10, lim * 10 + 9, lim // 10, I64, I64 + 1, I64 - 1, 2 ** 64 - 1,
                  2 ** 64, 2 ** 64 + lim, 10 ** 18, 10 ** 19, 10 ** 20):
            texts.append(str(v).encode() + u)
        texts += [b" " + str(lim).encode() + u, b"000" + str(lim + 1).encode() + u, str(lim).encode() + u + b" ", str(lim).encode() + b" " + u]
    for _ in range(200 * n):
        u, f = rng.choice(UNITS)
        lim = I64 // f
        k = rng.below(7)
        if k == 0:
            v = lim + rng.below(7) - 3
        elif k == 1:
            v = rng.below(10 ** rng.choice([1, 3, 6, 9, 12, 15, 18, 19, 20, 24]))
        elif k == 2:
            v = rng.choice([I64, 2 ** 64, 2 ** 63, 10 ** 19]) + rng.below(5) - 2
        elif k == 3:
            v = lim * rng.choice([2, 10, 100]) + rng.below(10)
        else:
            v = 1 + rng.below(100000)
        t = rnd_ws(rng) + (b"0" * rng.below(5) if rng.chance(1, 4) else b"") + str(v).encode() + u
        if rng.chance(1, 3):
            t = mutate(rng, t)
        texts.append(t)
    for _ in range(60 * n):
        texts.append(rnd_from(rng, b"0123456789nsumh \t+-", 8))
    return ["DUR %s" % env(None if t is None else clean(t)) for t in texts]


# ---------------------------------------------------------------- floats
def gen_flt(rng, n):
    texts = [None, b"", b" ", b"0", b"-0", b"+0", b"0.0", b".0", b"0.", b".", b"+.", b"-.", b"e1", b".e1", b"1", b"1.", b"1.5", b"-1.5", b"+1.5", b" 1.5", b"\t\n1.5", b"1.5 ", b"1.5f", b"1,5",
             b"1.5.2", b"1..5", b"1e", b"1e+", b"1e-", b"1e5", b"1E5", b"1e+5", b"1e-5", b"1e05", b"1e5e6", b"1e5.5", b"1.e1", b".5e1", b"+.5", b"-.5e-1", b"++1", b"+-1", b"- 1", b"1_0",
             b"0.1", b"0.5", b"0.25", b"0.75", b"0.125", b"0.3", b"2.5", b"100", b"16777215", b"16777216", b"16777217", b"16777218", b"16777219", b"33554431", b"33554433", b"4294967296",
             b"1e10", b"1e38", b"1e39", b"3.4028234e38", b"3.4028235e38", b"3.4028236e38", b"3.40282346638528859811704183484516925440e38",
             b"340282346638528859811704183484516925440", b"340282356779733661637539395458142568447", b"340282356779733661637539395458142568448", b"340282356779733661637539395458142568449",
             b"340282366920938463463374607431768211456", b"3.402823567797336616e38", b"1e-37", b"1e-38", b"1e-39", b"1e-44", b"1e-45", b"1.4e-45", b"1.5e-45", b"7e-46", b"7.1e-46", b"1e-46", b"1e-50",
             b"1e-400", b"1e400", b"1.17549435e-38", b"1.1754942e-38", b"1.1754943e-38", b"1.1754944e-38", b"1.17549428e-38", b"1.17549431e-38", b"1.17549433e-38", b"1.175494351e-38",
             b"1.17549435082228750796873653722224568e-38", b"1.1754943508222875e-38", b"1.1754943508222874e-38",
             b"1e999999999999999999999", b"1e-999999999999999999999", b"0e999999999999999999999", b"0.0e-999999999999999999999", b"-0e5", b"0x0p99999999999", b"0x1p99999999999",
             b"0x1p-99999999999", b"1e2000", b"1e-2000", b"1e2001", b"1e-2100", b"0." + b"0" * 100 + b"1e101", b"0." + b"0" * 100 + b"1e140", b"1" + b"0" * 100 + b"e-100", b"1" + b"0" * 60 + b"e-99",
             b"0x", b"0X", b"0x.", b"0xp1", b"0x.p1", b"0x1", b"0X1", b"0x1.", b"0x.8", b"0x1.8", b"0x1.8p1", b"0x1.8P+1", b"0x1p", b"0x1p+", b"0x1p-1", b"0x1e5", b"0x1e5p1", b"0xg", b"0x1g",
             b"0x1p1p1", b"0x1.8.1", b"-0x1p0", b"+0x1p0", b" 0x10", b"0x1p-126", b"0x1p-127", b"0x1p-149", b"0x1p-150", b"0x1.8p-150", b"0x1.000002p-150", b"0x3p-150", b"0x1p-151",
             b"0x1.fffffep-127", b"0x1.ffffffp-127", b"0x1.fffffcp-127", b"0x1.fffffdp-127", b"0x1.fffffe8p-127", b"0x1.fffffefp-127", b"0x0.fffffep-126", b"0x0.ffffffp-126", b"0x0.ffffff8p-126",
             b"0x1.fffffep127", b"0x1.ffffffp127", b"0x1.fffffefp127", b"0x1p128", b"0x1.0p127", b"0x1.000001p0", b"0x1.000003p0", b"0x1.0000010001p0", b"0x1.000002p0", b"0x10000001", b"0x10000003",
             b"inf", b"INF", b"Inf", b"-inf", b"+inf", b"infinity", b"INFINITY", b"-Infinity", b"infinit", b"infinityx", b"in", b"i", b"infi", b"inf ", b" inf", b"nan", b"NaN", b"NAN", b"-nan", b"+nan",
             b"nan()", b"nan(", b"nan)", b"nan(abc)", b"nan(abc_1)", b"NaN(ABC)", b"nan(a b)", b"nan(a-b)", b"nan(abc", b"nan(abc)x", b"nan(1)", b"nan(0x1f)", b"nan(017)", b"nan(08)", b"nan(123456789)",
             b"nan(4194304)", b"nan(4194303)", b"nan(0xffffffffffffffffffff)", b"nan(0x)", b"nan(0)", b"nan(00)", b"nan(1a)", b"-nan(5)", b"nanx", b"na", b"n", b"nan ", b"1inf", b"1nan", b"1e1f",
             b"\xa01", b"1\xa0", b"\xef\xbc\x91", b"1e\xef\xbc\x91", b"1d5", b"1E", b"1p5", b"0b1", b"1'000", b"1 000"]
    # exactly representable values written in several ways
    for _ in range(80 * n):
        m = rng.below(1 << rng.choice([1, 4, 10, 20, 24, 25, 30]))
        k = rng.below(12)
        q = Fraction(m, 1 << k)
        kk = 0
        d = q.denominator
        while d > 1:
            d //= 2
            kk += 1
        s = str(q.numerator * 5 ** kk)
        if kk:
            s = s.rjust(kk + 1, "0")
            s = s[:-kk] + "." + s[-kk:]
        t = s.encode()
        if rng.chance(1, 3):
            e = rng.below(9) - 4
            t += b"e%d" % e
        texts.append(rng.choice([b"", b"", b"-", b"+", b" "]) + t)
    # random decimals, incl. around the range limits
    for _ in range(160 * n):
        digs = bytes(rng.choice(b"0123456789") for _ in range(1 + rng.below(rng.choice([3, 9, 12, 25, 45]))))
        if rng.chance(2, 3):
            p = rng.below(len(digs) + 1)
            digs = digs[:p] + b"." + digs[p:]
        e = rng.choice([0, 0, rng.below(12) - 6, 38 - rng.below(3), 39, -(37 + rng.below(10)), -45, -46, rng.below(100) - 50])
        t = digs + (b"" if e == 0 and rng.chance(1, 2) else rng.choice([b"e", b"E"]) + (b"+" if e >= 0 and rng.chance(1, 3) else b"") + str(e).encode())
        texts.append(rng.choice([b"", b"", b"-", b"+", b" \t"]) + t)
    # random hex floats around the subnormal / overflow limits
    for _ in range(120 * n):
        hd = bytes(rng.choice(b"0123456789abcdefABCDEF") for _ in range(1 + rng.below(rng.choice([2, 6, 7, 8, 12]))))
        if rng.chance(2, 3):
            p = rng.below(len(hd) + 1)
            hd = hd[:p] + b"." + hd[p:]
        e = rng.choice([0, rng.below(20) - 10, 127 - rng.below(30), 128, -126 - rng.below(30), -149, -150, -151, -160, rng.below(400) - 200])
        t = rng.choice([b"0x", b"0X"]) + hd + (b"" if rng.chance(1, 4) else rng.choice([b"p", b"P"]) + str(e).encode())
        texts.append(rng.choice([b"", b"", b"-", b"+"]) + t)
    base = [t for t in texts if t]
    for _ in range(150 * n):
        texts.append(mutate(rng, rng.choice(base)))
    for _ in range(80 * n):
        texts.append(rnd_from(rng, b"0123456789.eE+-xXpPinfatyNA()_ \t", 10))
    out = []
    for i, t in enumerate(texts):
        out.append("FLT %s %d" % (env(None if t is None else clean(t)), 1 if i % 4 == 0 else 0))
    for t in (b"42", b"0.5", b"1e10"):
        out.append("FLT %s 1" % env(t))
    return out


# ---------------------------------------------------------------- detector / resources
KEYS = [b"a", b"b", b"k", b"service.name", b"process.executable.name", b"telemetry.sdk.language", b"telemetry.sdk.name", b"telemetry.sdk.version",
        b"service.namespace", b"A", b" a", b"a ", b"", b"k.1", b"\xc3\xa9", b"service.name ", b"Service.Name", b"a%3Db"]
VALS = [b"1", b"v", b"", b"x y", b" v ", b"a=b", b"=", b"%20x", b"\xff", b"cpp", b"opentelemetry", b"svc", b"exe", b"unknown_service", b"0", b"true", b"\"q\""]


def rnd_attr_list(rng):
    k = rng.below(12)
    if k == 0:
        return rng.choice([b"", b",", b",,", b"=", b"==", b"=,=", b",=", b"=,", b"a", b"a,b", b"a=", b"=a", b"a=,", b",a=1", b"a=1,", b"a=1,,b=2", b" a=1", b"a =1", b"a= 1", b"a=1 ",
                           b"a=1, b=2", b"a=1;b=2", b"a=1,a=2", b"a=2,a=1", b"a=1,b=2,a=3", b"a=1,a", b"a=1,a=", b"service.name=x", b"service.name=", b"service.name",
                           b"a=b=c", b"a==b", b"a=b,=c", b"%61=1", b"a=%2C", b"a=1%2Cb=2", b"a=\"1,2\"", b"a='1,2'", b"a=1\\,b=2", b"process.executable.name=prog",
                           b"telemetry.sdk.language=java", b"telemetry.sdk.version=9", b"k=" + b"v" * 300, b"k" * 300 + b"=v"])
    items = []
    for _ in range(rng.below(7)):
        j = rng.below(10)
        key = rng.choice(KEYS) if rng.chance(3, 4) else rnd_from(rng, b"ab.= ,k", 4)
        val = rng.choice(VALS) if rng.chance(3, 4) else rnd_from(rng, b"ab=, %1\x80", 5)
        if j == 0:
            items.append(key)
        elif j == 1:
            items.append(b"")
        elif j == 2:
            items.append(key + b"=" + val + b"=" + rng.choice(VALS))
        else:
            items.append(key + b"=" + val)
    s = rng.choice([b",", b",", b",", b", ", b",,"]).join(items)
    if rng.chance(1, 6):
        s = mutate(rng, s)
    return s


def rnd_service_name(rng):
    return rng.choice([None, None, None, b"", b"svc", b"my service", b"a=b,c=d", b",", b"\xff", b"unknown_service", b" ", b"x" * 200])


def fmt_val(v):
    if isinstance(v, bool):
        return "b %d" % (1 if v else 0)
    if isinstance(v, int):
        return "i %d" % v
    return "s %s" % hx(v)


def rnd_val(rng):
    k = rng.below(8)
    if k == 0:
        return rng.choice([0, 1, -1, 5, 2 ** 63 - 1, -2 ** 63, 42])
    if k == 1:
        return rng.chance(1, 2)
    return rng.choice(VALS)


def rnd_attrs(rng, maxn=5, unique=False):
    out = []
    seen = set()
    for _ in range(rng.below(maxn + 1)):
        k = rng.choice(KEYS)
        if unique and k in seen:
            continue
        seen.add(k)
        out.append((k, rnd_val(rng)))
    return out


def fmt_attrs(a):
    return " ".join("%s %s" % (hx(k), fmt_val(v)) for k, v in a)


def rnd_schema(rng):
    return rng.choice([b"", b"", b"https://opentelemetry.io/schemas/1.2.0", b"s", b" ", b"\xff"])


def res_case(ra, sn, ops):
    return ("RES %s %s ; " % (env(ra), env(sn))) + " ; ".join(ops)


def gen_res(rng, n_merge, n_create):
    out = []
    for _ in range(n_merge):
        ops = []
        size = 0
        for _ in range(2 + rng.below(3)):
            ops.append(("N %s %s" % (hx(rnd_schema(rng)), fmt_attrs(rnd_attrs(rng, 5, rng.chance(3, 4))))).strip())
            size += 1
        for _ in range(1 + rng.below(5)):
            ops.append("M %d %d" % (rng.below(size), rng.below(size)))
            size += 1
        out.append(res_case(None, None, ops))
    for i in range(n_create):
        ra = clean(rnd_attr_list(rng)) if rng.chance(3, 4) else rng.choice([None, b""])
        sn = rnd_service_name(rng)
        if sn is not None:
            sn = clean(sn)
        ops = []
        size = 0
        for _ in range(rng.below(3)):
            ops.append(("N %s %s" % (hx(rnd_schema(rng)), fmt_attrs(rnd_attrs(rng, 4)))).strip())
            size += 1
        for _ in range(1 + rng.below(2)):
            attrs = rnd_attrs(rng, 4)
            if rng.chance(1, 6):
                attrs.append((b"process.executable.name", rng.choice([b"prog", b"", 7, True, b"a:b"])))
            if rng.chance(1, 5):
                attrs.append((b"service.name", rng.choice([b"mine", b"", 3, False])))
            ops.append(("C %s %s" % (hx(rnd_schema(rng)), fmt_attrs(attrs))).strip())
            size += 1
            if rng.chance(1, 3):
                ops.append("M %d %d" % (rng.below(size), rng.below(size)))
                size += 1
        out.append(res_case(ra, sn, ops))
    return out


def gen_det(rng, n):
    out = ["DET NONE NONE", "DET x NONE", "DET NONE x", "DET x x", "DET NONE %s" % hx(b"svc"), "DET %s NONE" % hx(b"service.name=a"),
           "DET %s %s" % (hx(b"service.name=a"), hx(b"b")), "DET %s x" % hx(b"service.name=a"), "DET %s %s" % (hx(b"a=1,service.name=a,service.name=c"), hx(b"b"))]
    for _ in range(n):
        ra = rnd_attr_list(rng)
        sn = rnd_service_name(rng)
        out.append("DET %s %s" % (env(clean(ra)) if rng.chance(9, 10) else "NONE", env(None if sn is None else clean(sn))))
    return out


def gen_prov(rng, n):
    """providers with different resources, interleaved emissions and collections; collections also when there is
    nothing to report: no meter at all, a meter without instruments, an instrument without measurements, the
    delta reader twice in a row"""
    def prov(nres, ops):
        return "PROV ; " + " ; ".join(nres + ops)
    r0 = "N x %s" % fmt_attrs([(b"a", b"1")])
    r1 = "N %s %s" % (hx(b"https://opentelemetry.io/schemas/1.2.0"), fmt_attrs([(b"b", 2), (b"service.name", b"svc")]))
    out = [prov([r0], ["K 0"]), prov([r0], ["D 0"]), prov([r0], ["K 0", "D 0", "K 0", "D 0"]),
           prov([r0], ["G 0", "K 0", "D 0"]), prov([r0], ["I 0", "K 0", "D 0", "D 0"]),
           prov([r0], ["A 0", "D 0", "D 0", "K 0", "D 0"]), prov([r0], ["K 0", "A 0", "K 0"]),
           prov([r0, r1], ["K 0", "K 1", "D 1", "D 0"]), prov([r0, r1], ["A 0", "K 1", "D 1", "K 0", "D 0", "D 1", "D 0"]),
           prov([r0, r1], ["E m 1", "K 0", "D 0", "K 1", "D 1", "E s 0", "E l 1", "K 0"]),
           prov([r0, r1], ["G 0", "I 1", "K 0", "K 1", "D 0", "D 1", "E m 0", "D 1", "K 1"]),
           prov(["N x"], ["K 0", "E s 0", "E l 0", "D 0"])]
    for _ in range(n):
        np_ = 1 + rng.below(3)
        nres = [("N %s %s" % (hx(rnd_schema(rng)), fmt_attrs(rnd_attrs(rng, 3)))).strip() for _ in range(np_)]
        ops = []
        for _ in range(1 + rng.below(8)):
            k = rng.below(12)
            i = rng.below(np_)
            if k < 3:
                ops.append("E %s %d" % (rng.choice("slm"), i))
            elif k < 6:
                ops.append("K %d" % i)
            elif k < 9:
                ops.append("D %d" % i)
            else:
                ops.append("%s %d" % (rng.choice("GIA"), i))
        out.append(prov(nres, ops))
    return out


def gen(rng, tier):
    n = 1 if tier == "quick" else 10
    cases = []
    cases += gen_bool(rng, n)
    cases += gen_uint(rng, n)
    cases += gen_dur(rng, n)
    cases += gen_flt(rng, n)
    for t in (None, b"", b"x", b" ", b"a=b", b"\xff"):
        cases.append("STR %s" % env(t))
    for t in [None, b"", b"true", b"TRUE", b"True", b"tRuE", b"false", b"FALSE", b"1", b"0", b"yes", b"true ", b" true", b"truee", b"t", b"\xd4rue"]:
        cases.append("DIS %s" % env(t))
    for _ in range(10 * n):
        cases.append("DIS %s" % env(clean(mutate(rng, rng.choice([b"true", b"TRUE", b"false"])))))
    cases += gen_det(rng, 250 * n)
    cases += gen_res(rng, 150 * n, 350 * n)
    cases += gen_prov(rng, 80 * n)
    return cases


def neighbours(rng, cases):
    out = []
    for c in cases:
        t = c.split()
        if t[0] in ("BOOL", "UINT", "DUR", "FLT", "DIS") and t[1].startswith("x"):
            b = bytes.fromhex(t[1][1:])
            for _ in range(40):
                m = clean(mutate(rng, b))
                out.append(" ".join([t[0], hx(m)] + t[2:]))
        elif t[0] == "DET" and t[1].startswith("x"):
            b = bytes.fromhex(t[1][1:])
            for _ in range(20):
                out.append("DET %s %s" % (hx(clean(mutate(rng, b))), t[2]))
    return out


def shrink(case):
    t = case.split()
    if t[0] in ("BOOL", "UINT", "DUR", "FLT", "DIS", "DET") and len(t) > 1 and t[1].startswith("x"):
        b = bytes.fromhex(t[1][1:])
        for i in range(len(b)):
            yield " ".join([t[0], hx(b[:i] + b[i + 1:])] + t[2:])
    elif t[0] == "RES":
        parts = case.split(" ; ")
        # drop trailing operations
        for k in range(len(parts) - 1, 1, -1):
            yield " ; ".join(parts[:k])


LEVEL_TEXT = ("Theorems in coq/Properties_C18.v about the Gallina model of the environment readers (with explicit models of strtoull/strtof/strcasecmp "
              "for the C locale), OTELResourceDetector, Resource::Merge and Resource::Create, for every byte string / attribute map; the model is tied to "
              "the C++ on every run by running the extracted model and the rebuilt ASan/UBSan driver on the same generated settings (each Resource::Create "
              "case in a fresh process) and by running the extracted SPEC on the implementation's outputs.")
LEVEL_NOTE = ("Trusted: Coq kernel, extraction, ocaml/driver.ml, the C++ driver, the generator, tools/extract_consts.py + tools/c18_consts.py; the model is "
              "hand-written (tied by correspondence, not verified against C++/libc semantics); float values: acceptance grammar and defaults are theorems, "
              "the rounded value is only cross-checked (partial); memory safety is evidenced by sanitizers, not proved.")
