"""C02 - ForceFlush and Shutdown are complete, final and always return (E-sched, acceptor model)."""
from props.batch_common import *          # noqa: F401,F403  (build_driver, TRACE_MODE, DRIVER, shrink, ...)
from props import batch_common as bc

ID = "C02"
LEVEL = "proof"
ENGINE = "E-coq+E-sched"
TRIVIAL_TAGS = {"t", "rejected"}
ASSUMPTIONS = bc.ASSUMPTIONS_COMMON + [
    "'dropped' records are those the queue refused (buf add .. 0) or whose OnEnd found the processor shut down; records accepted by the queue after the worker's final drain (an OnEnd racing with Shutdown) are neither exported nor counted as loss: they were not 'ended before the processor was shut down'",
]
TRUSTED = bc.TRUSTED_COMMON


def compose_cases(rng, n):
    out = []
    for _ in range(n):
        kind = rng.choice(["trace", "logs", "metrics"])
        nc = rng.choice([0, 1, 1, 2, 3, 4])
        ch = []
        for _ in range(nc):
            m = [65535, 65535, 65535, 0, rng.below(65536), 65535 ^ (1 << rng.below(4))]
            ch.append("c %d %d" % (rng.choice(m), rng.choice(m)))
        ops = " ".join(rng.choice(["f", "f", "h", "ft", "ft", "ht"]) for _ in range(rng.below(6)))
        out.append("COMPOSE %s | %s | o %s" % (kind, " | ".join(ch), ops) if ch else "COMPOSE %s | o %s" % (kind, ops))
    return out


def gen(rng, tier):
    return bc.gen_with(rng, tier, 4, 4, 2) + compose_cases(rng, 300 if tier == "quick" else 2000) + bc.periodic_cases(rng, 300 if tier == "quick" else 2500)


LEVEL_TEXT = ("Theorems in coq/Properties_C02.v about the acceptor LTS of the batch processors: a ForceFlush that returns true implies every record queued "
              "before its ticket was taken has been exported and the exporter's ForceFlush called afterwards; after any Shutdown returns the worker has exited, every record "
              "queued before the shutdown latch has been exported, the exporter was shut down exactly once and is never called again; later calls are inert. "
              "Termination (batch processors): coq/Batch/Fair.v proves, for every continuation trace with the application threads running, that a ForceFlush caller's "
              "exit condition holds after 16+6Q worker steps and that after shutdown the worker exits within a bound computed from the state (only assumption: the worker keeps "
              "being scheduled; exporter calls return); likewise for the periodic reader's ForceFlush (coq/Batch/PeriodicFair.v: 34 steps of worker + collect thread plus 16 per timed-out cycle) and "
              "the periodic reader's Shutdown (coq/Batch/PeriodicShut.v: once the latch is stored the worker has left its loop - the state in which the caller's join returns - after 23 steps of worker + collect thread, "
              "and every remaining step of the Shutdown caller is then enabled whatever the exporter answers; the acceptor requires the worker to re-read the latch between cycles); the callers' own timed wait loops "
              "and the providers are covered by deadlock/step-limit detection only. Every trace the batch / periodic acceptors accept passes the history checkers that are run "
              "on the implementation's traces (coq/Batch/TraceSpec2.v, PeriodicTrace2.v; destructor calls must not overlap a Shutdown). "
              "Tied to the C++ by trace acceptance under the scheduler shim; history checkers run on the implementation's traces.")
LEVEL_NOTE = ("Trusted: Coq kernel, extraction, ocaml/driver.ml, the scheduler shim and token table, the drivers and generators; the model is hand-written and "
              "tied by trace acceptance (not verified against C++ semantics); SC memory; the ring buffer is abstracted to an atomic bounded FIFO (C11).")
TECHNIQUE = "machine-checked proof in Coq 8.16 (inductive invariant of an interleaving transition system), tied to the C++ by accepting the implementation's event traces produced under a deterministic scheduler shim"
