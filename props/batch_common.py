"""Shared by C01/C02/C03: the batch-processor driver under the scheduler shim (E-sched) and the generator of
scripts + schedules.  Case format: see harness/batch_driver.cc."""
from tools import vlib, shimcopy

FILES = ["sdk/include/opentelemetry/sdk/trace/batch_span_processor.h", "sdk/src/trace/batch_span_processor.cc",
         "sdk/include/opentelemetry/sdk/logs/batch_log_record_processor.h", "sdk/src/logs/batch_log_record_processor.cc",
         "api/include/opentelemetry/common/spin_lock_mutex.h", "sdk/include/opentelemetry/sdk/trace/simple_processor.h",
         "sdk/include/opentelemetry/sdk/logs/simple_log_record_processor.h", "sdk/src/logs/simple_log_record_processor.cc",
         "sdk/include/opentelemetry/sdk/metrics/export/periodic_exporting_metric_reader.h",
         "sdk/src/metrics/export/periodic_exporting_metric_reader.cc",
         "sdk/include/opentelemetry/sdk/metrics/metric_reader.h", "sdk/src/metrics/metric_reader.cc"]
EXCLUDE = ["/trace/batch_span_processor.cc", "/logs/batch_log_record_processor.cc", "/logs/simple_log_record_processor.cc",
           "/metrics/export/periodic_exporting_metric_reader.cc", "/metrics/metric_reader.cc", "/metrics/export/periodic_exporting_metric_reader_factory.cc",
           "/trace/batch_span_processor_factory.cc", "/logs/batch_log_record_processor_factory.cc"]
DRIVER = {"srcs": ["harness/batch_driver.cc", "harness/sched/sched.h", "harness/sched/bufproxy.h", "tools/shimcopy.py"], "sdk": True}
TRACE_MODE = True
IMPL_TIMEOUT = 7200      # thorough tier: ~15k forked cases; generous because the machine may be shared


def build_driver():
    # every buffer_ call of both processors must go through the proxy (12 at the pinned commit; at least the 8 that matter)
    inc, srcs, counts = shimcopy.shim_copy("batch", FILES, extra_rules=[(r"\bbuffer_\.", "verif::bufproxy(buffer_).", 8)])
    return vlib.build_driver("batch_driver", ["harness/batch_driver.cc"], sdk=True, pre_flags=["-I" + inc], extra_srcs=srcs,
                             extra_flags=["-DNDEBUG", "-include", "sched/bufproxy.h"], sdk_exclude=EXCLUDE)


def script(rng, n_ops, w_e, w_f, w_h, allow_h=True):
    ops = []
    for _ in range(n_ops):
        r = rng.below(w_e + w_f + (w_h if allow_h else 0))
        if r < w_e:
            ops.append("e")
        elif r < w_e + w_f:
            ops.append("f %d" % rng.choice([0, 0, 0, 1, 50, 2000, 7000000]))
        else:
            ops.append("h %d" % rng.choice([0, 0, 1, 1000]))
    return " ".join(ops)


def rand_schedule(rng, nthreads, length, p_timeout=8, bias=None):
    out = []
    for _ in range(length):
        t = rng.below(nthreads) if bias is None or rng.chance(1, 2) else bias
        f = 1 if rng.chance(1, p_timeout) else 0
        out.append("%d %d" % (t, f))
    return " ".join(out)


def seg_schedule(segs):
    return " ".join("%d %d" % (t, f) for (t, n, f) in segs for _ in range(n))


def one_case(rng, w_e=6, w_f=2, w_h=1, big=False):
    kind = rng.choice(["span", "log"])
    q = rng.choice([1, 1, 2, 2, 3, 4, 8] if not big else [2, 4, 8, 16])
    b = rng.choice([1, 1, 2, 3, q, q + 2])
    delay = rng.choice([1, 100, 5000])
    lat = rng.choice([0, 0, 1, 2])
    mask = rng.choice([0, 0, 0, 0, 1, 5, 1 << 20, (1 << 21) | 2])
    nt = rng.choice([1, 2, 2, 3, 3, 4])
    secs = []
    for t in range(nt):
        secs.append("t " + script(rng, rng.choice([1, 2, 3, 4, 6, 10] if not big else [8, 16, 30]), w_e, w_f, w_h))
    nthreads = nt + 2
    k = rng.below(4)
    if k == 0:
        sched = ""
    elif k == 1:
        sched = rand_schedule(rng, nthreads, rng.choice([10, 40, 120, 300]))
    elif k == 2:   # starve the worker for a while, then random
        sched = rand_schedule(rng, nthreads - 1, rng.choice([5, 20, 60])).replace("0 ", "1 ", 0)
        sched = " ".join("%d %d" % (1 + rng.below(nt), 0) for _ in range(rng.choice([5, 20, 60]))) + " " + rand_schedule(rng, nthreads, 80)
    else:          # segments with few preemptions
        segs = [(rng.below(nthreads), 1 + rng.below(25), 1 if rng.chance(1, 6) else 0) for _ in range(1 + rng.below(5))]
        sched = seg_schedule(segs)
    return "BATCH %s %d %d %d %d %d | %s | s %s" % (kind, q, b, delay, lat, mask, " | ".join(secs), sched)


def systematic(rng, tier):
    """preemption-bounded enumeration on tiny configurations: schedules made of <= 2 (quick: sampled) / 3 segments"""
    cases = []
    tiny = [
        ("span", 1, 1, ["t e e", "t f 0"]),
        ("log", 2, 1, ["t e e e", "t f 0 e"]),
        ("span", 2, 2, ["t e f 0 e", "t e h 0"]),
        ("log", 1, 1, ["t e h 0 e f 0", "t e"]),
        ("span", 2, 1, ["t f 0 e e e", "t f 50"]),
        ("span", 3, 2, ["t e e e e", "t h 0", "t h 0"]),
    ]
    lens = [1, 2, 3, 5, 8, 13, 21]
    for kind, q, b, secs in tiny:
        n = len(secs) + 2
        head = "BATCH %s %d %d 100 %d 0 | %s | s " % (kind, q, b, 1, " | ".join(secs))
        allsegs = [(t, l) for t in range(n) for l in lens]
        pairs = [(a, c) for a in allsegs for c in allsegs if a[0] != c[0]]
        if tier == "quick":
            rng.shuffle(pairs)
            pairs = pairs[:40]
        for a, c in pairs:
            cases.append(head + seg_schedule([(a[0], a[1], 0), (c[0], c[1], 0)]))
        if tier == "thorough":
            trip = [(a, c, d) for a in allsegs[::2] for c in allsegs[::3] for d in allsegs[::2] if a[0] != c[0] and c[0] != d[0]]
            rng.shuffle(trip)
            for a, c, d in trip[:1500]:
                cases.append(head + seg_schedule([(a[0], a[1], 0), (c[0], c[1], 0), (d[0], d[1], 1)]))
    # one thread stalled a steps into its call while another thread's Shutdown (and the worker's exit) runs to completion, then
    # resumed: windows between a call's entry test and its effect (ticket taken / record queued after the worker has gone)
    stall = [
        ("span", 2, 1, ["t f 0", "t h 0"]), ("log", 2, 1, ["t f 0", "t h 0"]),
        ("span", 2, 2, ["t e f 0", "t h 0"]), ("log", 1, 1, ["t e e", "t e h 0"]),
        ("log", 2, 1, ["t f 0 f 0", "t e h 0"]), ("span", 1, 1, ["t h 0", "t h 0"]),
    ]
    for kind, q, b, secs in stall:
        head = "BATCH %s %d %d 100 %d 0 | %s | s " % (kind, q, b, rng.choice([0, 1]), " | ".join(secs))
        for a in (range(1, 13) if tier == "thorough" else [1, 2, 3, 4, 5, 6, 8, 11]):
            cases.append(head + seg_schedule([(1, a, 0), (2, 12, 0), (0, 40, 0), (2, 12, 0), (0, 40, 0), (2, 12, 0)]))
            cases.append(head + seg_schedule([(1, a, 0), (0, 6, 0), (2, 20, 0), (0, 60, 0), (2, 20, 0)]))
    return cases


def gen_with(rng, tier, w_e, w_f, w_h):
    n = 500 if tier == "quick" else 4000
    cases = systematic(rng, tier)
    for i in range(n):
        cases.append(one_case(rng, w_e, w_f, w_h, big=(i % 10 == 9)))
    return cases


def periodic_cases(rng, n):
    out = []
    for _ in range(n):
        interval = rng.choice([1000, 1000, 50, 60000])
        timeout = rng.choice([500, 10, 1, 30000])
        if timeout >= interval:
            timeout = interval // 2
        clat = rng.choice([0, 0, 1, 3, 6])
        elat = rng.choice([0, 1, 2])
        mask = rng.choice([0, 0, 0, 1, 1 << 20, 1 << 21])
        nt = rng.choice([1, 2, 2, 3])
        secs = []
        for _t in range(nt):
            ops = []
            for _o in range(1 + rng.below(5)):
                r = rng.below(10)
                ops.append("r" if r < 5 else ("f %d" % rng.choice([0, 0, 0, 1, 5000, 3000000]) if r < 9 else "h"))
            secs.append("t " + " ".join(ops))
        nthreads = nt + 2 + 6          # worker, apps, closer, some collect threads
        k = rng.below(5)
        if k == 4:
            # structured: an application thread gets going, the worker starts a cycle, the cycle's collect thread (ids follow the
            # application threads and the closer) is stopped c steps in - before, inside or after its Export -, the worker's wait
            # times out (flag 1) or not, then the worker, an application thread (Shutdown / ForceFlush / record racing the cycle)
            # and the NEXT cycle's collect thread run: windows between "collection in flight" and the next cycle / the caller
            elat = rng.choice([1, 2, 4])
            c0 = nt + 2
            a = 1 + rng.below(nt)
            segs = [(a, 4 + rng.below(10), 0), (0, 2 + rng.below(8), 0), (c0, 1 + rng.below(9), 0),
                    (0, 1 + rng.below(4), 1 if rng.chance(1, 2) else 0), (1 + rng.below(nt), rng.below(8), 0),
                    (0, 2 + rng.below(14), 0), (c0 + 1, 1 + rng.below(9), 0), (a, rng.below(8), 0),
                    (c0, rng.below(8), 0), (0, rng.below(14), 0)]
            sched = seg_schedule(segs)
            out.append("PERIODIC %d %d %d %d %d | %s | s %s" % (interval, timeout, clat, elat, mask, " | ".join(secs), sched))
            continue
        if k == 0:
            sched = ""
        elif k == 1:
            sched = rand_schedule(rng, nthreads, rng.choice([20, 60, 200]), p_timeout=5)
        elif k == 2:    # starve the collect threads so that the export time-out fires
            sched = " ".join("%d %d" % (rng.choice([0] + list(range(1, nt + 2))), 1 if rng.chance(1, 3) else 0) for _ in range(rng.choice([10, 30, 80])))
        else:
            sched = seg_schedule([(rng.below(nthreads), 1 + rng.below(15), 1 if rng.chance(1, 4) else 0) for _ in range(1 + rng.below(6))])
        out.append("PERIODIC %d %d %d %d %d | %s | s %s" % (interval, timeout, clat, elat, mask, " | ".join(secs), sched))
    return out


def widen(rng, k):
    """extra search when a proof or the correspondence broke: more random scripts/schedules, flush-heavy"""
    return [one_case(rng, 5, 3, 1, big=(i % 7 == 6)) for i in range(1200)]


def shrink(case):
    """drop operations, then shorten the schedule"""
    head, _, sched = case.rpartition("| s")
    secs = head.split(" | ")
    toks = sched.split()
    for cut in (len(toks) // 2, len(toks) // 4):
        cut -= cut % 2
        if 0 < cut < len(toks):
            yield head + "| s " + " ".join(toks[:cut])
    for i in range(1, len(secs)):
        ops = secs[i].split()
        if len(ops) > 2:
            yield " | ".join(secs[:i] + [" ".join(ops[:-1] if not ops[-1].isdigit() else ops[:-2])] + secs[i + 1:]) + " | s" + sched


ASSUMPTIONS_COMMON = [
    "sequentially consistent interleaving of the shared accesses (memory_order arguments are ignored by the shim and the model)",
    "the bounded queue is used as an atomic FIFO (one scheduling point per buffer_ call); its linearizability under concurrent producers is property C11",
    "condition variables, cv_m / force_flush_cv_m, the wake-up flag and clock reads only delay threads (every wait is timed) and are filtered before acceptance; time is virtual in the implementation runs",
    "exporter calls return; thread 0 is the worker started by the constructor",
]
TRUSTED_COMMON = ["harness/sched/sched.h (scheduler shim), harness/sched/bufproxy.h, tools/shimcopy.py (token table), harness/batch_driver.cc",
                  "acceptor model coq/Batch/Model.v is hand-written; tied by acceptance of the implementation's event traces on every run"]
