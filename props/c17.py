"""C17 - gauges report the latest value; observables are read once per collection.  Case generator and configuration.

Case / observation format: coq/C17/Glue.v.  All observed values are integers (double instruments receive integral doubles).

The driver is linked against a scratch copy of sdk/src/metrics/aggregation/lastvalue_aggregation.cc in which the two
`std::chrono::system_clock::now()` calls are rewritten to the clock shim harness/c17_clock.h (the number of rewrites is
asserted): RC cases run on the real clock, SC cases on a clock scripted by the case (ties and backward steps included)."""
import os, re
from tools import vlib
from tools.vlib import TieBroken

ID = "C17"
LEVEL = "proof"
DRIVER = {"srcs": ["harness/c17_driver.cc", "harness/c17_clock.h"], "sdk": True}

LV_SRC = "sdk/src/metrics/aggregation/lastvalue_aggregation.cc"
CLOCK_CALL = r"std\s*::\s*chrono\s*::\s*system_clock\s*::\s*now\s*\(\s*\)"


def build_driver():
    src = os.path.join(vlib.REPO, LV_SRC)
    try:
        text = open(src, encoding="utf-8", errors="surrogateescape").read()
    except OSError:
        raise TieBroken("clock shim: cannot read " + LV_SRC)
    text, n = re.subn(CLOCK_CALL, "verif_c17::clock_now()", text)
    left = re.findall(r"_clock\s*::\s*now\s*\(", re.sub(r"//[^\n]*|/\*.*?\*/", " ", text, flags=re.S))
    if n != 2 or left:
        raise TieBroken("clock shim: expected exactly 2 system_clock::now() calls in %s (LongLastValueAggregation::Aggregate and "
                        "DoubleLastValueAggregation::Aggregate), rewrote %d, %d clock reads left: the tie of the sample time stamps "
                        "to the scripted clock is incomplete" % (LV_SRC, n, len(left)))
    dest = os.path.join(vlib.BUILD, "shim", "c17", "src")
    os.makedirs(dest, exist_ok=True)
    out = os.path.join(dest, "lastvalue_aggregation.cc")
    text = '#include "c17_clock.h"\n' + text
    old = None
    try:
        old = open(out, encoding="utf-8", errors="surrogateescape").read()
    except OSError:
        pass
    if old != text:
        with open(out, "w", encoding="utf-8", errors="surrogateescape") as f:
            f.write(text)
    return vlib.build_driver("c17_driver", ["harness/c17_driver.cc"], sdk=True, extra_srcs=[out],
                             sdk_exclude=("/aggregation/lastvalue_aggregation.cc",))


VMAX = 1 << 40
READERS = [[0], [0], [1], [1], [0, 1], [1, 0], [0, 0], [1, 1], [0, 1, 0], [1, 0, 1, 0], [0, 1, 1], [0, 0, 1, 1]]
# in clean cases a callback state s only ever observes attribute sets of OWN[s]; states 0/2 and 1/3 overlap
OWN = {0: [0, 1], 1: [2, 3], 2: [0, 1], 3: [2, 3]}


def compatible(s, t):
    return not (set(OWN[s]) & set(OWN[t]))


class ObsGen:
    def __init__(self, rng, tier, dirty, scripted, temps=None, kinds=None):
        self.rng, self.dirty, self.scripted = rng, dirty, scripted
        self.temps = temps if temps is not None else rng.choice(READERS)
        if kinds is None:
            m = rng.choice([1, 1, 2, 2, 3, 4])
            kinds = [rng.choice([0, 0, 1, 1, 2, 2, 3, 4, 5, 6, 6, 7]) for _ in range(m)]
        self.kinds = kinds
        self.m = len(kinds)
        self.alive = [True] * self.m
        self.regs = [[] for _ in range(self.m)]      # live (f, s) per instrument
        self.world = {}                               # (s, a) -> v
        self.ops = []
        self.negative_ok = rng.chance(1, 25)
        self.nonmono = rng.chance(1, 2)

    # ---- values
    def next_value(self, s, a):
        rng = self.rng
        cur = self.world.get((s, a))
        k = rng.below(20)
        if cur is None:
            v = rng.choice([0, 1, 5, 10, 100, rng.below(1000), rng.below(1 << 30), VMAX - rng.below(3)])
        elif k < 11:
            v = cur + rng.choice([0, 1, 1, 2, 7, rng.below(100), rng.below(1 << 20)])
        elif k < 13:
            v = cur
        elif k < 17 and self.nonmono:
            v = cur - rng.choice([1, 1, 3, rng.below(50), cur])      # totals that go down (never below zero unless allowed)
            if v < 0 and not self.negative_ok:
                v = 0
        elif k < 18:
            v = rng.choice([0, 1, VMAX, VMAX - 1])
        else:
            v = cur + 1
        if self.negative_ok and rng.chance(1, 6):
            v = -rng.choice([1, 2, 100, VMAX])
        return max(-VMAX, min(VMAX, v))

    def async_instrs(self):
        return [i for i in range(self.m) if self.kinds[i] < 6 and self.alive[i]]

    def sync_instrs(self):
        return [i for i in range(self.m) if self.kinds[i] >= 6 and self.alive[i]]

    # ---- operations
    def op_add(self):
        rng = self.rng
        cand = self.async_instrs() if not rng.chance(1, 30) else list(range(self.m))
        if not cand:
            return
        i = rng.choice(cand)
        f, s = rng.below(2), rng.below(4)
        if not self.dirty and i in self.async_instrs():
            ok = [t for t in range(4) if all(compatible(t, u) for (_, u) in self.regs[i])]
            if not ok:
                return
            s = rng.choice(ok)
        self.ops.append("A %d %d %d" % (i, f, s))
        if self.kinds[i] < 6 and self.alive[i]:
            self.regs[i].append((f, s))

    def op_remove(self):
        rng = self.rng
        i = rng.below(self.m)
        if self.regs[i] and rng.chance(4, 5):
            f, s = rng.choice(self.regs[i])
            if rng.chance(1, 8):
                f = 1 - f                 # the other function with the same state: must not remove anything
        else:
            f, s = rng.below(2), rng.below(4)
        self.ops.append("R %d %d %d" % (i, f, s))
        if self.kinds[i] < 6 and self.alive[i]:
            self.regs[i] = [k for k in self.regs[i] if k != (f, s)]

    def op_destroy(self):
        i = self.rng.below(self.m)
        self.ops.append("X %d" % i)
        self.alive[i] = False
        self.regs[i] = []

    def op_world(self):
        rng = self.rng
        used = sorted({s for r in self.regs for (_, s) in r}) or [0, 1, 2, 3]
        s = rng.choice(used) if rng.chance(5, 6) else rng.below(4)
        a = rng.below(4) if self.dirty else rng.choice(OWN[s])
        if (s, a) in self.world and rng.chance(1, 6):
            self.ops.append("U %d %d" % (s, a))
            del self.world[(s, a)]
        else:
            v = self.next_value(s, a)
            self.ops.append("S %d %d %d" % (s, a, v))
            self.world[(s, a)] = v

    def op_record(self):
        rng = self.rng
        cand = self.sync_instrs()
        if not cand or rng.chance(1, 25):
            cand = list(range(self.m))
        i = rng.choice(cand)
        v = rng.choice([0, 1, -1, 5, rng.below(1000), -rng.below(1000), VMAX, -VMAX, rng.below(1 << 30)])
        self.ops.append("G %d %d %d" % (i, rng.below(4) if rng.chance(2, 3) else 0, v))

    def op_collect(self, r=None):
        self.ops.append("C %d" % (self.rng.below(len(self.temps)) if r is None else r))

    def op_step(self, allow_bad):
        d = self.rng.choice([1, 1, 2, 5, 1000] + ([0, 0, -1, -3, -1000] if allow_bad else []))
        self.ops.append("T %d" % d)

    def case(self):
        mode = "SC" if self.scripted else "RC"
        return " | ".join(["OBS %s %d %s %d %s" % (mode, len(self.temps), " ".join(map(str, self.temps)), self.m,
                                                  " ".join(map(str, self.kinds)))] + self.ops)


def obs_case(rng, tier, dirty=None, scripted=None, bad_clock=None):
    dirty = rng.chance(1, 6) if dirty is None else dirty
    scripted = rng.chance(2, 3) if scripted is None else scripted
    bad_clock = (scripted and rng.chance(1, 5)) if bad_clock is None else bad_clock
    g = ObsGen(rng, tier, dirty, scripted)
    # start: a few registrations and an initial world
    for _ in range(rng.choice([0, 1, 1, 2, 3])):
        g.op_add()
    for _ in range(rng.choice([0, 1, 2, 4])):
        g.op_world()
    n = rng.choice([2, 5, 10, 20, 40, 70 if tier == "quick" else 200])
    has_sync = any(k >= 6 for k in g.kinds)
    for _ in range(n):
        k = rng.below(100)
        if k < 30:
            g.op_world()
        elif k < 55:
            g.op_collect()
            if rng.chance(1, 6):
                g.op_collect()
        elif k < 67:
            g.op_add()
        elif k < 75:
            g.op_remove()
        elif k < 77:
            g.op_destroy()
        elif k < 90 and has_sync:
            g.op_record()
        elif k < 93 and scripted:
            g.op_step(bad_clock)
        else:
            g.op_world()
    for r in range(len(g.temps)):
        if rng.chance(2, 3):
            g.op_collect(r)
    return g.case()


def lv_case(rng, tier):
    scripted = rng.chance(2, 3)
    bad = scripted and rng.chance(1, 3)
    ops = []
    for _ in range(rng.choice([1, 3, 8, 20, 40 if tier == "quick" else 120])):
        k = rng.below(20)
        r, a, b = rng.below(8), rng.below(8), rng.below(8)
        if k < 7:
            ops.append("A %d %d" % (r, rng.choice([0, 1, -1, rng.below(1000), -rng.below(1000), VMAX, -VMAX])))
        elif k < 11:
            ops.append("M %d %d %d" % (r, a, b))
        elif k < 14:
            ops.append("D %d %d %d" % (r, a, b))
        elif k < 18:
            ops.append("P %d" % r)
        elif k < 19:
            ops.append("N %d" % r)
        elif scripted:
            ops.append("T %d" % rng.choice([1, 2, 1000] + ([0, 0, -1, -5] if bad else [])))
    ops.append("P %d" % rng.below(8))
    return " | ".join(["LV %s" % ("SC" if scripted else "RC")] + ops)


def fixed_cases():
    out = []
    for md in ("RC", "SC"):
        # one callback, running totals, each reader configuration
        for temps in ("1 0", "1 1", "2 0 1", "2 1 0", "3 0 0 1"):
            n = int(temps.split()[0])
            cs = " | ".join("C %d" % r for r in range(n))
            out.append("OBS %s %s 1 0 | A 0 0 0 | S 0 0 10 | %s | S 0 0 15 | %s | %s | S 0 0 12 | %s" % (md, temps, cs, cs, cs, cs))
            out.append("OBS %s %s 2 1 2 | A 0 0 0 | A 1 1 1 | S 0 1 10 | S 1 2 -4 | %s | U 0 1 | S 1 3 9 | %s | %s | S 0 1 12 | %s"
                       % (md, temps, cs, cs, cs, cs))
        # attribute sets that appear and disappear, interleaved readers
        out.append("OBS %s 2 0 1 1 0 | A 0 0 0 | S 0 1 10 | C 0 | C 1 | U 0 1 | C 0 | C 1 | C 0 | S 0 1 12 | C 0 | C 1" % md)
        # observable gauge + synchronous last-value instrument, remove, destroy
        out.append("OBS %s 2 0 1 2 2 6 | A 0 0 0 | S 0 1 10 | G 1 0 5 | G 1 0 6 | C 0 | C 1 | U 0 1 | C 0 | C 1 | G 1 0 7 | C 1 | C 0 | "
                   "R 0 0 0 | C 0 | X 0 | C 1 | C 0 | G 1 2 -3 | X 1 | G 1 2 9 | C 0 | C 1" % md)
        # remove with the other function / other state / other instrument must not remove
        out.append("OBS %s 1 1 2 0 1 | A 0 0 0 | A 1 0 0 | S 0 0 3 | C 0 | R 0 1 0 | C 0 | R 0 0 1 | C 0 | R 1 0 0 | S 0 0 4 | C 0 | R 0 0 0 | S 0 0 9 | C 0" % md)
        # the same (function, state) registered on two instruments; destroying one leaves the other registered
        out.append("OBS %s 2 1 0 2 0 2 | A 0 1 2 | A 1 1 2 | S 2 0 5 | C 0 | C 1 | X 0 | S 2 0 6 | C 0 | C 1 | A 0 1 2 | C 0" % md)
        # a negative total on a monotonic counter is dropped by the sum aggregation (outside the property's domain)
        out.append("OBS %s 1 1 1 0 | A 0 0 0 | S 0 0 -5 | C 0 | S 0 0 15 | C 0 | S 0 0 3 | C 0" % md)
        # F27 (fixed 93457c3) regression: a callback registered twice / two callbacks reporting the same attribute set
        out.append("OBS %s 1 1 1 0 | A 0 0 0 | A 0 0 0 | S 0 0 10 | C 0 | S 0 0 15 | C 0 | C 0" % md)
        out.append("OBS %s 2 0 1 1 1 | A 0 0 0 | A 0 1 2 | S 0 0 10 | S 2 0 10 | C 0 | C 1 | S 0 0 15 | S 2 0 15 | C 0 | C 1" % md)
        out.append("OBS %s 1 1 1 2 | A 0 0 0 | A 0 0 0 | A 0 1 2 | S 0 0 10 | S 2 0 11 | C 0 | R 0 0 0 | C 0" % md)
        out.append("LV %s | P 0 | A 0 5 | A 1 6 | M 2 0 1 | P 2 | M 3 1 0 | P 3 | D 4 0 1 | P 4 | D 5 1 0 | P 5 | M 6 0 0 | P 6 | "
                   "M 7 6 7 | P 7 | N 7 | M 7 7 6 | P 7 | M 7 7 7 | P 7" % md)
    # clock ties and a clock that steps backwards (what the code does then is the model's [gauge_tie] theorems)
    out.append("OBS SC 1 1 1 2 | A 0 0 0 | S 0 0 1 | C 0 | T 0 | S 0 0 2 | C 0 | C 0 | T 1 | C 0")
    out.append("OBS SC 2 0 1 1 2 | A 0 0 0 | S 0 0 1 | C 0 | C 1 | T 0 | S 0 0 2 | C 0 | C 1 | T -1 | S 0 0 3 | C 1 | C 0 | T 5 | C 0 | C 1")
    out.append("OBS SC 2 1 1 1 6 | G 0 0 1 | C 0 | T 0 | G 0 0 2 | C 0 | C 1 | T -2 | G 0 0 3 | C 0 | C 1")
    out.append("LV SC | A 0 5 | T 0 | A 1 6 | M 2 0 1 | P 2 | M 3 1 0 | P 3 | D 4 0 1 | P 4 | D 5 1 0 | P 5 | T -1 | A 6 7 | M 7 6 0 | P 7 | D 7 6 0 | P 7")
    return out


def gen(rng, tier):
    n = 1 if tier == "quick" else 15
    cases = fixed_cases()
    for _ in range(5000 * n):
        cases.append(obs_case(rng, tier))
    for _ in range(1000 * n):
        cases.append(lv_case(rng, tier))
    return cases


def neighbours(rng, cases):
    """same shape, the collecting readers permuted / one operation dropped"""
    out = []
    for c in cases:
        ch = c.split(" | ")
        hd = ch[0].split()
        if hd[0] != "OBS":
            continue
        n = int(hd[2])
        for _ in range(20):
            new = [ch[0]]
            for op in ch[1:]:
                t = op.split()
                if t[0] == "C" and rng.chance(1, 3):
                    t[1] = str(rng.below(n))
                if rng.chance(1, 15):
                    continue
                new.append(" ".join(t))
            out.append(" | ".join(new))
    return out


def shrink(case):
    """shortest prefixes ending in an observation first"""
    ch = case.split(" | ")
    for i in range(1, len(ch)):
        if ch[i].split()[0] in ("C", "P"):
            yield " | ".join(ch[: i + 1])


TRIVIAL_TAGS = {"BADCASE", "obs_sc_nocollect_clean", "obs_rc_nocollect_clean", "lv_sc_noprint", "lv_rc_noprint",
                "obs_sc_nocollect_multi_observation", "obs_rc_nocollect_multi_observation",
                "obs_sc_nocollect_negative_total", "obs_rc_nocollect_negative_total", "obs_sc_nocollect_clock_not_increasing"}
ASSUMPTIONS = [
    "sample time stamps: in RC cases the real system clock is read and assumed strictly increasing in call order (no tie was seen in 10^6 consecutive reads here); "
    "in SC cases the two system_clock::now() calls of lastvalue_aggregation.cc read the clock shim, which the driver advances by the scripted step before every "
    "callback invocation / synchronous Record / direct Aggregate. `gauge reports the latest value` is decided under the hypothesis that the clock strictly increases "
    "in call order (stated in gauge_reports_latest); what happens on a tie or a backward step is characterised by gauge_tie and tied to the code by the SC cases. "
    "Time stamps are never printed or compared by the harness",
    "the synchronous Gauge instrument exists only under OPENTELEMETRY_ABI_VERSION_NO >= 2 and is not part of this ABI-v1 build; its storage path (SyncMetricStorage + "
    "last-value aggregation + temporal storage) is driven through a synchronous up-down counter with a kLastValue view",
    "observed and recorded values are integers of magnitude <= 2^40 (double instruments receive integral doubles): no rounding, no int64 overflow of any sum or difference",
    "one meter; 1..4 readers registered before the first operation; 1..4 instruments with distinct names and the default view (C06/C19 cover views and duplicate "
    "instruments); at most 4 attribute sets per instrument, far below the cardinality limit (C08)",
    "a negative total reported for a monotonic observable counter is outside the property's domain (the sum aggregation drops it): the model mirrors the code, the SPEC skips the instrument",
    "an AttributesHashMap is modelled by its specification (a finite map); iteration order is not observed (points are sorted by attribute set in both drivers)",
    "single-threaded histories: callbacks, Record and Collect do not overlap (concurrent collection is C06's subject)",
]
TRUSTED = ["model coq/C17/Model.v is hand-written (registry vector, AsyncMetricStorage::Record, sum/last-value Merge and Diff, TemporalMetricStorage::buildMetrics); "
           "tied by this correspondence run",
           "harness/c17_clock.h and the two-call rewrite of lastvalue_aggregation.cc in props/c17.py (asserted count)"]
LEVEL_TEXT = ("Theorems in coq/Properties_C17.v about the Gallina model of the observable registry, the asynchronous/synchronous metric storages, the temporal storage and the "
              "sum/last-value aggregations (every registration invoked exactly once per collection and never after removal/destruction; a cumulative reader is given the "
              "reported total and a delta reader the difference from what it was last given, for every history; gauges report the latest value under a strictly increasing "
              "clock, with the tie behaviour characterised); the model is tied to the C++ on every run by running the extracted model and the rebuilt ASan/UBSan driver "
              "(real MeterProvider, readers of mixed temporality, scripted callbacks, real and scripted clock) on the same generated histories and by running the extracted SPEC "
              "on the implementation's points.")
LEVEL_NOTE = ("Trusted: Coq kernel, extraction, ocaml/driver.ml, the C++ driver and clock shim, the generator; the model is hand-written (tied by correspondence, not verified "
              "against C++ semantics).")
