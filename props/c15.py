"""C15 - Baggage header round trip, Set/Delete, extraction limits, composite propagators.
Case generator and configuration (formats: coq/C15/Glue.v)."""
from tools.vlib import hx

ID = "C15"
LEVEL = "proof"
DRIVER = {"srcs": ["harness/c15_driver.cc", "harness/c15_purity.cc"], "sdk": False}


def build_driver():
    """the ASan/UBSan case driver + the ThreadSanitizer purity probe (clang++), behind one dispatcher that behaves
    like a single case driver: PURITY lines go to the probe, everything else to the case driver"""
    from tools import vlib, purity
    main = vlib.build_driver("c15_driver", ["harness/c15_driver.cc"], sdk=False)
    probe = purity.build_probe("c15_purity", ["harness/c15_purity.cc"])
    return purity.make_dispatcher("c15_dispatch", main, probe)


TRIVIAL_TAGS = {"ops_empty", "hdr_nothing_valid", "hdr_too_long", "inj_empty_composite", "ext_empty_composite", "inj_nothing"}
ASSUMPTIONS = [
    "round trip hypotheses (theorem baggage_roundtrip, checker rt_ok): keys non-empty printable, values printable, the part of a value "
    "after its first ';' contains no ',' and does not end in white space (W3C OWS belongs to the separator), at most 180 entries, "
    "encoded key + encoded value (+ metadata) at most 4096 bytes per member, header at most 8192 bytes",
    "the 4096-byte member limit is, as in the code, on key.size() + value.size() of the member (the '=' is not counted, white space "
    "around key and value inside the member is)",
    "metadata (from the first ';' of a member's value on) is appended to the decoded value verbatim and is not validated; the stored "
    "value is a C string, so it ends at the first NUL of the metadata (modelled; not part of the property text)",
    "'never crashes or reads out of bounds' is evidenced by the ASan/UBSan build on the generated malformed stream (all views handed to "
    "FromHeader/Set/Delete and all carrier values live in exact-size heap blocks without a terminating NUL), not by a theorem",
    "the composite clauses are checked on the implementation against the same parts applied one after the other by hand (fresh propagator "
    "objects); B3/Jaeger parts are modelled concretely in coq/C15/Model.v only so that the correspondence covers whole composites (their "
    "own properties belong to C16)",
    "the model treats Baggage operations and the propagators as pure functions of immutable values; that is an ASSUMPTION about the C++, "
    "not a theorem: it is probed at run time on every check by harness/c15_purity.cc (clang ThreadSanitizer build, 3-4 real threads released by "
    "a barrier; GetValue/Set/Delete/ToHeader/GetAllEntries on one SHARED Baggage, FromHeader on a shared header string, BaggagePropagator and "
    "CompositePropagator Inject of one shared Context into per-thread carriers and Extract from a shared carrier into the shared Context, on "
    "FRESH shared objects with 0/1/8/64 entries incl. metadata and percent-encoded values every round; clauses purity:data_race, "
    "purity:result_differs); a race the probe's schedules do not execute is not excluded",
    "isspace/isalnum/isdigit/toupper behave as modelled in the C locale (bytes >= 0x80 in no class)",
]
TRUSTED = ["model coq/C15/Model.v (+ C14/Model.v tokenizer abstraction, C09/Model.v) is hand-written; tied by this correspondence run"]

PRINTABLE = bytes(range(0x20, 0x7f))
SPECIAL = b" =,%+;"
TOKEN = b"abcxyzABZ019-_.~"
KEYS = [b"a", b"b", b"c", b"k1", b"k 1", b"x=y", b"p%q", b"c,d", b"s;t", b"+", b"%", b"~._-", b" ", b" lead", b"trail ", b"=", b",", b";",
        b"%41", b"a+b", b'"q"', b"{}", b"ab", b"abc", b"long-key", b"long-key2", b"a.much.longer.key_0123456789", b"user id;v=1", b"K" * 70]
BADKEYS = [b"", b"\x00", b"a\x00b", b"\x7f", b"\x80", b"k\xff", b"\x1f", b"\t", b"a\nb"]


def rnd_str(rng, n, alphabet=None):
    if alphabet is None:
        alphabet = rng.choice([PRINTABLE, SPECIAL + TOKEN, SPECIAL, TOKEN, SPECIAL + b"ab"])
    return bytes(rng.choice(alphabet) for _ in range(n))


def rnd_value(rng):
    k = rng.below(16)
    if k == 0:
        return b""
    if k == 1:    # metadata, clean
        return rnd_str(rng, rng.below(5), TOKEN + b" %=+") + b";" + rnd_str(rng, 1 + rng.below(6), TOKEN + b"=;%+")
    if k == 2:    # metadata ending in / containing white space
        return rnd_str(rng, rng.below(4)) .replace(b";", b"") + b";" + rnd_str(rng, rng.below(5), TOKEN + b" =") + rng.choice([b" ", b"  ", b"x", b" x"])
    if k == 3:    # metadata with a member separator in it
        return rnd_str(rng, rng.below(4), TOKEN) + b";" + rnd_str(rng, rng.below(3), TOKEN) + b"," + rnd_str(rng, rng.below(3), TOKEN + b"=")
    if k == 4:
        return rng.choice(BADKEYS[1:])
    if k == 5:
        return rnd_str(rng, 1 + rng.below(4)) + rng.choice([b" ", b"\t"[:0] + b" "])
    return rnd_str(rng, rng.below(9))


def rnd_key(rng):
    k = rng.below(12)
    if k == 0:
        return rng.choice(BADKEYS)
    if k < 9:
        return rng.choice(KEYS)
    return rnd_str(rng, 1 + rng.below(6))


def ops_case(rng, nops, init=None):
    parts = ["OPS " + ("NEW" if init is None else hx(init))]
    used = []
    for j in range(nops):
        n = j + 1  # objects so far
        # mostly continue from the newest object so that baggages grow; sometimes from an older one
        idx = n - 1 if rng.chance(3, 4) else rng.below(n)
        k = rng.below(10)
        # half of the time aim at a key that an earlier Set of this case used
        key = rng.choice(used) if used and rng.chance(1, 2) else rnd_key(rng)
        if k < 6:
            used.append(key)
            parts.append("S %d %s %s" % (idx, hx(key), hx(rnd_value(rng))))
        elif k < 9:
            parts.append("D %d %s" % (idx, hx(key)))
        else:
            parts.append("F %s" % hx(rnd_header(rng)))
    return " ; ".join(parts)


PCT = [b"%", b"%4", b"%G1", b"%1G", b"%41", b"%3b", b"%3B", b"%2C", b"%3D", b"%25", b"%20", b"%00", b"%1F", b"%7F", b"%80", b"%FF", b"%7e", b"%e2%82%ac",
       b"%%41", b"%4%31", b"+", b"%+1", b"% 41"]
RAWBAD = [b" ", b'"', b"=", b"\x00", b"\x7f", b"\x80", b"\xff", b"\t", b"(", b"/", b":", b"@", b"\\"]
OWS = [b"", b"", b" ", b"\t", b"  ", b"\n", b"\r", b"\x0b", b"\x0c", b"\xa0", b"\x00"]
META = [b"", b"", b";m", b";m=1;n=2", b"; m", b";", b";;", b";m ", b";%", b";\x00x", b";\x80", b";a=b", b";m\t", b";x y"]


PCT_OK = [b"%41", b"%3b", b"%3B", b"%2C", b"%3D", b"%25", b"%20", b"%7e", b"+", b"%2c%3d", b"%7E"]
OWS_OK = [b"", b"", b"", b" ", b"\t", b"  "]


def rnd_pct(rng):
    """%XX of a printable character, each hex digit in random case"""
    c = 0x20 + rng.below(0x5f)
    d = "%02x" % c
    return b"%" + "".join(ch.upper() if rng.chance(1, 2) else ch for ch in d).encode()


def enc_piece(rng, good):
    k = rng.below(10)
    if k < 5:
        return rnd_str(rng, 1 + rng.below(4), TOKEN)
    if good:
        return rng.choice(PCT_OK) if k < 7 else rnd_pct(rng)
    if k < 8:
        return rng.choice(PCT)
    if k == 8:
        return rng.choice(RAWBAD)
    return b""


def rnd_member(rng):
    good = rng.chance(3, 4)
    k = rng.below(20) if not good else 19
    if k == 0:
        return rng.choice(OWS)                                     # empty member
    if k == 1:
        return rnd_str(rng, 1 + rng.below(4), TOKEN)               # no '='
    if k == 2:
        return b"=" + rnd_str(rng, rng.below(3), TOKEN)            # empty key
    key = b"".join(enc_piece(rng, good) for _ in range(1 + rng.below(2))) or b"k"
    val = b"".join(enc_piece(rng, good) for _ in range(rng.below(3)))
    if k == 3:
        key = rng.choice([b"%20", b"+", b"%", b"a%", b"a%4", b"%41"])
    if k == 4:
        val = rng.choice([b"%", b"a%", b"a%4", b"a%41", b"%4G", b"%g4", b"%aF", b"%Af"])
    ows = OWS_OK if good else OWS
    return rng.choice(ows) + key + rng.choice(ows) + b"=" + rng.choice(ows) + val + rng.choice(ows) + rng.choice(META) + rng.choice(ows)


def rnd_header(rng):
    n = rng.choice([0, 1, 1, 2, 3, 4, 6])
    sep = rng.choice([b",", b",", b" , ", b",,", b", "])
    h = sep.join(rnd_member(rng) for _ in range(n))
    if rng.chance(1, 8):
        h = h + b","
    if rng.chance(1, 8):
        h = b"," + h
    return h


def simple_member(i, vlen=1):
    return b"k%d=" % i + b"v" * vlen


def sized_member(rng, total_kv, style):
    """a member whose key.size()+value.size() (as the tokenizer returns them) is exactly total_kv"""
    if style == 0:      # all in the value
        return b"k=" + b"a" * (total_kv - 1)
    if style == 1:      # all in the key
        return b"a" * (total_kv - 1) + b"=v"
    if style == 2:      # white space inside the member counts
        return b"k" + b" " * (total_kv - 2) + b"=v"
    if style == 3:      # metadata counts
        return b"k=v;" + b"m" * (total_kv - 3)
    if style == 4:      # escapes count three bytes each
        n = (total_kv - 1) // 3
        return b"k=" + b"%3D" * n + b"a" * (total_kv - 1 - 3 * n)
    return b"k=" + b"a" * (total_kv - 1)


def hdr(h, init=None):
    return "HDR %s %s" % ("NONE" if h is None else hx(h), "NOBAG" if init is None else "BAG " + hx(init))


def limit_headers(rng, reps):
    out = []
    for _ in range(reps):
        # member counts around 180
        for n in (179, 180, 181, 182, 200):
            out.append(b",".join(simple_member(i) for i in range(n)))
        # invalid members among the first 180: later ones move up
        for n in (180, 181, 185):
            ms = [simple_member(i) for i in range(n)]
            for _ in range(1 + rng.below(4)):
                ms[rng.below(n)] = rng.choice([b"bad", b"k=%", b"", b" ", b"=v", b"k=\x80"])
            out.append(b",".join(ms))
        # empty members inflate NumTokens but not the entries
        out.append(b",".join(simple_member(i) for i in range(100)) + b"," * 100 + b",".join(simple_member(i + 100) for i in range(85)))
        out.append(b"," * 185 + b"a=1")
        out.append(b",".join([b"x"] * 181 + [b"a=1"]))
        # member sizes around 4096 (key + value, '=' not counted)
        for kv in (4095, 4096, 4097):
            for style in range(5):
                m = sized_member(rng, kv, style)
                out.append(m)
                out.append(b"a=1," + m + b",b=2")
                out.append(b" " + m + b" ")
        # header sizes around 8192
        for total in (8191, 8192, 8193):
            base = b"a=1,b=2,"
            fill = total - len(base)
            # split the filler into members of at most 4000 bytes
            ms = []
            i = 0
            while fill > 0:
                l = min(fill, 4000)
                if fill - l == 1:      # avoid a 1-byte rest that cannot hold ",x"
                    l -= 2
                m = (b"f%d=" % i)
                m = m + b"z" * (l - len(m) - (1 if fill - l > 0 else 0))
                ms.append(m)
                fill -= len(m) + (1 if fill - l > 0 else 0)
                i += 1
            h = base + b",".join(ms)
            if len(h) != total:
                h = (h + b" " * total)[:total]
            out.append(h)
            out.append(b" " * (total - 3) + b"a=1")
            out.append(b"a=1" + b"," * (total - 3))
    return out


NAMES = ["W3C", "BAG", "B3", "B3M", "JAEGER"]


def ordered_subsets(items, maxlen):
    out = [[]]
    frontier = [[]]
    for _ in range(maxlen):
        nxt = []
        for s in frontier:
            for x in items:
                if x not in s:
                    nxt.append(s + [x])
        out += nxt
        frontier = nxt
    return out


def rnd_tid(rng, n):
    k = rng.below(12)
    if k == 0:
        return bytes(n)
    return rng.bytes(n)


def rnd_ts(rng):
    return rng.choice([b"", b"", b"a=1", b"a=1,b=2", b"vendor@t=x y", b"bad"])


def ctx_spec(rng):
    if rng.chance(1, 5):
        sp = "NOSPAN"
    else:
        sp = "SPAN %s %s %d %s" % (hx(rnd_tid(rng, 16)), hx(rnd_tid(rng, 8)), rng.choice([0, 1, 1, 2, 3, 255, rng.below(256)]), hx(rnd_ts(rng)))
    if rng.chance(1, 3):
        bg = "NOBAG"
    else:
        bg = "BAG " + hx(rng.choice([b"", b"s=1", b"a=1,b=2;m", b"k+1=v%2C", b"bad", rnd_header(rng)]))
    return sp + " " + bg


def hexs(rng, n):
    return bytes(rng.choice(b"0123456789abcdef") for _ in range(n))


def rnd_carrier(rng):
    car = []
    if rng.chance(2, 3):
        tp = b"00-" + hexs(rng, 32) + b"-" + hexs(rng, 16) + b"-" + hexs(rng, 2)
        if rng.chance(1, 6):
            tp = rng.choice([tp[:-1], b"ff" + tp[2:], tp + b"-x", b"", b"00-" + b"0" * 32 + tp[35:]])
        car.append((b"traceparent", tp))
        if rng.chance(1, 2):
            car.append((b"tracestate", rnd_ts(rng)))
    if rng.chance(1, 2):
        b3 = hexs(rng, rng.choice([32, 32, 16])) + b"-" + hexs(rng, 16) + rng.choice([b"", b"-1", b"-0", b"-d", b"-1-" + hexs(rng, 16)])
        if rng.chance(1, 6):
            b3 = rng.choice([b"0", b"x-y", hexs(rng, 32), b"-", hexs(rng, 33) + b"-" + hexs(rng, 16)])
        car.append((b"b3", b3))
    if rng.chance(1, 2):
        car.append((b"X-B3-TraceId", hexs(rng, rng.choice([32, 16, 33, 0]))))
        car.append((b"X-B3-SpanId", hexs(rng, rng.choice([16, 16, 17, 1]))))
        if rng.chance(2, 3):
            car.append((b"X-B3-Sampled", rng.choice([b"1", b"0", b"d", b"true", b""])))
    if rng.chance(1, 2):
        j = hexs(rng, rng.choice([32, 32, 16, 1])) + b":" + hexs(rng, 16) + b":0:" + rng.choice([b"01", b"00", b"1", b"3", b"ff", b"100", b"x"])
        if rng.chance(1, 6):
            j = rng.choice([b"", b"a:b", b"1:2:3", b"0:0:0:0", hexs(rng, 33) + b":1:0:1"])
        car.append((b"uber-trace-id", j))
    if rng.chance(2, 3):
        car.append((b"baggage", rng.choice([b"a=1", b"k+1=v%2C,b=2;m", b"", b"bad", b"k=%", rnd_header(rng)])))
    return car


def comp_inj(names, rng):
    return "COMP %s ; INJ %s" % (" ".join(names), ctx_spec(rng))


def comp_ext(names, rng):
    car = rnd_carrier(rng)
    return "COMP %s ; EXT %s ; %s" % (" ".join(names), ctx_spec(rng), " ".join("%s %s" % (hx(k), hx(v)) for k, v in car))


def purity_cases(tier):
    # PURITY <baggage entries> <threads> <rounds (fresh shared objects each)> <iterations of every operation per round>
    k = 1 if tier == "quick" else 6
    return ["PURITY 0 4 %d 4" % (300 * k), "PURITY 1 4 %d 4" % (300 * k), "PURITY 8 4 %d 3" % (200 * k), "PURITY 64 3 %d 2" % (60 * k)]


def gen(rng, tier):
    n = 1 if tier == "quick" else 12
    cases = purity_cases(tier)
    # ---- Set/Delete sequences (small key alphabet: hits on existing keys are frequent)
    for _ in range(600 * n):
        cases.append(ops_case(rng, rng.choice([1, 2, 3, 5, 8, 12, 20, 30])))
    for _ in range(60 * n):
        cases.append(ops_case(rng, rng.choice([1, 2, 4, 8]), init=rnd_header(rng)))
    # every printable character as key and in a value, once each
    for c in range(0x20, 0x7f):
        cases.append("OPS NEW ; S 0 %s %s ; S 1 %s %s" % (hx(bytes([c])), hx(bytes([c]) * 2), hx(b"k" + bytes([c])), hx(b"v" + bytes([c]) + b"w")))
    # every byte value as (possibly invalid) key / value of a Set on a non-empty baggage
    for c in list(range(0, 0x20)) + list(range(0x7f, 0x100, 1 if tier == "thorough" else 8)):
        cases.append("OPS x613d31 ; S 0 %s x76 ; S 0 x6b %s ; D 0 %s" % (hx(bytes([c])), hx(bytes([c])), hx(bytes([c]))))
    # limits met through Set: count, member size, header size
    for nmem in (179, 180, 181):
        h = b",".join(simple_member(i) for i in range(nmem - 1))
        cases.append("OPS %s ; S 0 x6e6577 x76 ; S 1 x6e657732 x76" % hx(h))
    for enc_len, ch in ((4094, b"a"), (4095, b"a"), (4096, b"a"), (1364, b"="), (1365, b"="), (1366, b"=")):
        cases.append("OPS NEW ; S 0 x6b %s" % hx(ch * enc_len))
        cases.append("OPS NEW ; S 0 %s x76" % hx(ch * enc_len))
        cases.append("OPS NEW ; S 0 x6b %s" % hx(b"v;" + ch * (enc_len - 2)))
    for total in (8191, 8192, 8193):
        # two members: "a=" + x  and  "b=" + y ,  len = 2+|x| + 1 + 2+|y|
        x = 4000
        y = total - 5 - x
        cases.append("OPS NEW ; S 0 x61 %s ; S 1 x62 %s" % (hx(b"p" * x), hx(b"q" * y)))
    # ---- extraction from headers
    for _ in range(2500 * n):
        cases.append(hdr(rnd_header(rng), rng.choice([None, None, b"s=1"])))
    for p in PCT + RAWBAD:
        for init in (None, b"s=1"):
            cases.append(hdr(b"k=" + p, init)); cases.append(hdr(p + b"=v", init)); cases.append(hdr(b"a=1,k=x" + p + b"y,b=2", init))
            cases.append(hdr(b"k=v;" + p, init))
    for c in range(0x20, 0x7f):
        cases.append(hdr(b"k%%%02x=v%%%02X" % (c, c)))
        cases.append(hdr(b"k=%%%02x;m" % c if c % 2 else b"%%%02X=" % c, b"s=1"))
    for m in META:
        cases.append(hdr(b"k=v" + m)); cases.append(hdr(b"k=v " + m + b" ,b=2")); cases.append(hdr(b"k=" + m))
    for w in OWS:
        cases.append(hdr(w)); cases.append(hdr(w + b"k" + w + b"=" + w + b"v" + w)); cases.append(hdr(b"a=1" + w + b"," + w + b"b=2"))
    for h in limit_headers(rng, 1 if tier == "quick" else 3):
        cases.append(hdr(h, rng.choice([None, b"s=1"])))
    cases.append(hdr(None)); cases.append(hdr(None, b"s=1")); cases.append(hdr(b"")); cases.append(hdr(b"", b"s=1"))
    # arbitrary bytes
    for _ in range(300 * n):
        l = rng.choice([1, 2, 3, 8, 20, 60, rng.below(300)])
        alphabet = rng.choice([b"k=v,;% +", b"a=,", bytes(range(256)), b"%0Ag=,", b"=;\x00\x80a, "])
        cases.append(hdr(bytes(rng.choice(alphabet) for _ in range(l)), rng.choice([None, b"s=1"])))
    # ---- composites: every ordered subset of the five built-in propagators, inject and extract
    subsets = ordered_subsets(NAMES, 5 if tier == "thorough" else 3)
    for s in subsets:
        cases.append(comp_inj(s, rng))
        cases.append(comp_ext(s, rng))
    for _ in range(250 * n):
        k = rng.below(6)
        s = [rng.choice(NAMES) for _ in range(k)] if rng.chance(1, 3) else rng.choice(ordered_subsets(NAMES, 5))
        cases.append(comp_inj(s, rng) if rng.chance(1, 3) else comp_ext(s, rng))
    return cases


def neighbours(rng, cases):
    out = []
    for c in cases:
        t = c.split()
        if t[0] == "HDR" and t[1].startswith("x"):
            b = bytes.fromhex(t[1][1:])
            rest = " ".join(t[2:])
            for _ in range(60):
                if not b:
                    break
                pos = rng.below(len(b))
                k = rng.below(3)
                m = rng.choice([b",", b"=", b";", b"%", b" ", b"+", b"a", b"\x00", b"\x80"])
                nb = b[:pos] + m + b[pos + 1:] if k == 0 else (b[:pos] + m + b[pos:] if k == 1 else b[:pos] + b[pos + 1:])
                out.append("HDR %s %s" % (hx(nb), rest))
        elif t[0] == "OPS":
            out.append(c)
    return out


def shrink(case):
    t = case.split(" ; ")
    if case.startswith("OPS"):
        for i in range(len(t) - 1, 0, -1):
            yield " ; ".join(t[:i] + t[i + 1:])
        for i in range(len(t) - 1, 0, -1):
            yield " ; ".join(t[:i + 1])
    elif case.startswith("HDR"):
        w = case.split()
        if w[1].startswith("x"):
            b = bytes.fromhex(w[1][1:])
            ms = b.split(b",")
            rest = " ".join(w[2:])
            for i in range(len(ms)):
                yield "HDR %s %s" % (hx(b",".join(ms[:i] + ms[i + 1:])), rest)
            for i in range(len(ms)):
                yield "HDR %s %s" % (hx(ms[i]), rest)
            yield "HDR %s %s" % (hx(b[:len(b) // 2]), rest)
            yield "HDR %s %s" % (hx(b[len(b) // 2:]), rest)
    elif case.startswith("COMP"):
        names = t[0].split()[1:]
        for i in range(len(names)):
            yield " ; ".join(["COMP " + " ".join(names[:i] + names[i + 1:])] + t[1:])


LEVEL_TEXT = ("Theorems in coq/Properties_C15.v about the Gallina model of Baggage (Set/Delete/FromHeader/ToHeader with the fixed-capacity "
              "C-string KeyValueProperties, UrlEncode/UrlDecode), BaggagePropagator and CompositePropagator: percent-decoding inverts percent-encoding "
              "for every byte string, the header round trip for every entry list under explicitly stated hypotheses, Set/Delete against the abstract "
              "ordered map for every store history, extraction = the declarative member grammar with the 180/4096/8192 limits for every byte string, "
              "composite = fold of the parts for every list of propagators; the model is tied to the C++ on every run by running the extracted model "
              "and the rebuilt ASan/UBSan driver on the same generated cases and by running the extracted SPEC on the implementation's outputs; the model's purity assumption (operations are functions of "
              "immutable values) is probed on every run by a ThreadSanitizer build in which several threads use shared Baggage/Context/propagator objects "
              "(a run-time probe, not a theorem).")
LEVEL_NOTE = ("Trusted: Coq kernel, extraction, ocaml/driver.ml, the C++ driver, the generator, tools/extract_consts.py; the model is hand-written "
              "(tied by correspondence, not verified against C++ semantics); the tokenizer abstraction (members/num_tokens) is C14's; memory safety is "
              "evidenced by sanitizers, not proved.")
