"""C10 - Contexts are immutable values; the runtime context is a per-thread stack.  Case generator and configuration.

A case is a program (see coq/C10/Glue.v): segments separated by '|' (main program, then one segment per real
thread), operations separated by ';'.  The generator keeps a small shadow of the abstract machine so that it can aim
at the case splits of the model and of the proofs: stack depths at and around every reallocation (1,3,7,15,31,63,127),
detaching the top / a buried / the bottom / an already detached / a foreign token, one context attached several
times, tokens detached twice (explicitly and then by their destructor), scopes released in and out of order, keys
that are prefixes of each other / contain NULs / are empty, batches with duplicate keys, the empty batch (F20, repaired)."""
import os, stat
from tools import vlib
from tools.vlib import hx

ID = "C10"
LEVEL = "proof"
DRIVER = {"srcs": ["harness/c10_driver.cc", "harness/c10_purity.cc"], "sdk": False}

# Two builds of the same driver.  Everything runs on the ASan/UBSan build - except the cases written with ATP
# (Attach of a temporary Context, stale-token histories): under ASan freed memory is quarantined, so a freed DataList
# node is never handed out again and an identity that is only COMPARED (never dereferenced) after its object died can
# not be observed.  Those cases run on the build WITHOUT sanitizers, where glibc's allocator reuses the address at once.
# The same histories written with ATT run on the ASan build as well.
WRAPPER = r"""#!/usr/bin/env python3
import os, subprocess, sys, tempfile
SAN, PLAIN = %r, %r
lines = open(sys.argv[1]).read().split("\n")
if lines and lines[-1] == "":
    lines.pop()
out = [None] * len(lines)
tails, rcs = [], []


def run(exe, idx):
    if not idx:
        return
    fd, path = tempfile.mkstemp(prefix="c10_", suffix=".cases")
    with os.fdopen(fd, "w") as f:
        for i in idx:
            f.write(lines[i] + "\n")
    r = subprocess.run([exe, path], stdout=subprocess.PIPE, stderr=subprocess.STDOUT, text=True, errors="replace")
    os.unlink(path)
    got = r.stdout.split("\n")
    if got and got[-1] == "":
        got.pop()
    if r.returncode == 0 and len(got) == len(idx):
        for i, g in zip(idx, got):
            out[i] = g
        return
    good = []
    for g in got:
        if g.startswith("=====") or "ERROR: " in g or "runtime error" in g or g.startswith("    #"):
            break
        good.append(g)
    good = good[:len(idx)]
    for i, g in zip(idx, good):
        out[i] = g
    tails.append("\n".join(got[len(good):len(good) + 60]))
    rcs.append(r.returncode or 1)


plain = [i for i, l in enumerate(lines) if "ATP " in l]
pset = set(plain)
run(SAN, [i for i in range(len(lines)) if i not in pset])
run(PLAIN, plain)
for g in out:
    if g is None:
        break
    print(g)
if rcs:
    print("\n".join(tails))
    sys.exit(rcs[0])
"""


def build_driver():
    from tools import purity
    srcs = ["harness/c10_driver.cc"]
    san = vlib.build_driver("c10_driver", srcs, sdk=False)
    plain = vlib.build_driver("c10_driver_plain", srcs, sdk=False, variant="plain")
    w = san + "_dispatch_%s.py" % os.path.basename(plain)[-8:]
    text = WRAPPER % (san, plain)
    if not os.path.exists(w) or open(w).read() != text:
        with open(w, "w") as f:
            f.write(text)
        os.chmod(w, os.stat(w).st_mode | stat.S_IXUSR | stat.S_IXGRP | stat.S_IXOTH)
    # PURITY lines go to the ThreadSanitizer probe (clang++, one process per line), everything else to the wrapper above
    probe = purity.build_probe("c10_purity", ["harness/c10_purity.cc"])
    return purity.make_dispatcher("c10_dispatch", w, probe)


def purity_cases(tier):
    # PURITY <bindings of the shared parent context> <threads> <rounds (fresh shared objects each)> <iterations of every op per round>
    k = 1 if tier == "quick" else 6
    return ["PURITY 0 4 %d 3" % (150 * k), "PURITY 1 4 %d 3" % (150 * k), "PURITY 7 4 %d 3" % (150 * k), "PURITY 23 3 %d 2" % (100 * k)]


TRIVIAL_TAGS = {"empty"}
IMPL_TIMEOUT = 300     # a broken unwinding loop in Detach never terminates: report it instead of waiting half an hour
ASSUMPTIONS = [
    "immutability of shared Context values across threads and the per-thread nature of the runtime stack are NOT theorems about the C++: they are "
    "probed at run time on every check by harness/c10_purity.cc (clang ThreadSanitizer build; 3-4 real threads released by a barrier run GetValue/HasKey "
    "on present/shadowed/absent keys, SetValue/SetValues children of one SHARED parent, copies/destruction, GetSpan/SetSpan, and each its own "
    "attach / nested Scope / out-of-order detach program - checking after every step that GetCurrent is what its OWN program says - plus tokens of "
    "other threads handed to Detach and destroyed; clauses purity:data_race, purity:result_differs)",
    "thread_local gives every thread its own Stack object (language guarantee): the model keeps one world per thread; "
    "isolation is a theorem about that model and is evidenced on the implementation by 2-4 real concurrent threads per "
    "threaded case, each compared against its own model instance",
    "values of pointer type (Span, SpanContext, Baggage) are compared by pointer identity against a fixed table of objects",
    "Context identity is head-pointer identity (Context::operator==); the driver names the current context by the first "
    "named context it compares equal to",
    "in-batch duplicates of SetValues: the documented structure (new list in iteration order, then the existing list) makes "
    "the first one in iteration order win; the SPEC pins that",
    "memory safety of the stack reallocation is evidenced by the ASan/UBSan build, not proved",
]
TRUSTED = ["model coq/C10/Model.v is hand-written; tied by this correspondence run",
           "the generated dispatch wrapper (ATP cases -> driver built without sanitizers, everything else -> ASan/UBSan build)",
           "the stack contents are revealed through the public interface only (Attach(GetCurrent()); Detach; ~Token)"]

SPAN_KEY = b"active_span"
KEY_FAMILIES = [
    [b"a", b"ab", b"abc", b"abcd", b"b"],
    [b"", b"\x00", b"\x00\x00", b"a\x00", b"a\x00b", b"a"],
    [SPAN_KEY, SPAN_KEY[:-1], SPAN_KEY + b"\x00", SPAN_KEY + b"s", b"is_root_span", b"Active_span"],
    [b"k", b"K", b"k ", b" k", b"\xffk", b"k\xff", b"\x80"],
    [b"x" * 300, b"x" * 299, b"x" * 299 + b"y", b"x" * 301],
    [b"key1", b"key2", b"key10", b"key", b"ke"],
]
I64 = [0, 1, -1, 2 ** 63 - 1, -2 ** 63, 42, -42]
U64 = [0, 1, 2 ** 64 - 1, 2 ** 63, 42]
DBL = [0, 1 << 63, 0x3ff0000000000000, 0x7ff0000000000000, 0x7ff8000000000000, 0x7ff0000000000001, 1, 0xfff8000000000000]
BOUNDARY_DEPTHS = [1, 2, 3, 4, 6, 7, 8, 14, 15, 16, 30, 31, 32, 62, 63, 64, 126, 127, 128, 200]


def rnd_value(rng, allow_none=True):
    k = rng.below(9 if allow_none else 8)
    if k == 0:
        return "b %d" % rng.below(2)
    if k == 1:
        return "i %d" % (rng.choice(I64) if rng.chance(1, 2) else rng.below(1000) - 500)
    if k == 2:
        return "u %d" % (rng.choice(U64) if rng.chance(1, 2) else rng.below(1000))
    if k == 3:
        return "d %d" % (rng.choice(DBL) if rng.chance(1, 2) else rng.next())
    if k in (4, 5):
        return "s %d" % rng.below(16)
    if k == 6:
        return "c %d" % rng.below(4)
    if k == 7:
        return "g %d" % rng.below(4)
    return "m 0"


class Sim:
    """shadow of the abstract machine, only as much as the generator needs to aim"""

    def __init__(self, rng, keys, pool=1, toks=None, allow_empty_batch=False):
        self.rng = rng
        self.keys = keys
        self.pool = pool              # number of named contexts
        self.stack = []               # context names, top LAST
        self.toks = list(toks or [])  # (state, ctx)  state in live/borrowed/scope/dead
        self.ops = []
        self.allow_empty_batch = allow_empty_batch
        self.has_empty_key_risk = False

    # ---- helpers
    def key(self):
        return self.rng.choice(self.keys)

    def ctx(self):
        r = self.rng
        if self.pool > 1 and r.chance(1, 2):
            return self.pool - 1 - r.below(min(self.pool, 4))     # recent ones
        return r.below(self.pool)

    def emit(self, s):
        self.ops.append(s)

    def _detach(self, c):
        if c in self.stack:
            i = len(self.stack) - 1 - self.stack[::-1].index(c)
            del self.stack[i:]

    # ---- context operations
    def op_set(self):
        r = self.rng
        k = r.below(10)
        key, v = self.key(), rnd_value(r)
        if k < 5:
            self.emit("SV %d %s %s" % (self.ctx(), hx(key), v))
        elif k == 5:
            self.emit("RSVC %d %s %s" % (self.ctx(), hx(key), v))
        elif k == 6:
            self.emit("RSV %s %s" % (hx(key), v))
        elif k == 7:
            self.emit("NEW1 %s %s" % (hx(key), v))
        elif k == 8:
            self.emit("SSP %d %d" % (self.ctx(), r.below(16)))
        else:
            self.emit("SV %d %s s %d" % (self.ctx(), hx(SPAN_KEY), r.below(16)))
        self.pool += 1

    def batch(self, n):
        r = self.rng
        items = [(self.key(), rnd_value(r)) for _ in range(n)]
        mode = r.below(3)
        if mode == 0:        # unique ascending: the driver passes a std::map
            d = {}
            for k, v in items:
                d.setdefault(k, v)
            items = sorted(d.items())
        elif mode == 1 and items:      # force a duplicate key with a different value
            items.append((items[0][0], rnd_value(r)))
        return items

    def op_set_values(self, n=None):
        r = self.rng
        if n is None:
            n = r.choice([1, 1, 2, 3, 5])
        items = self.batch(n)
        body = " ".join("%s %s" % (hx(k), v) for k, v in items)
        if r.chance(1, 4):
            self.emit(("NEW %d %s" % (len(items), body)).strip())
        else:
            self.emit(("SVS %d %d %s" % (self.ctx(), len(items), body)).strip())
        self.pool += 1

    def op_query(self):
        r = self.rng
        k = r.below(12)
        if k < 5:
            self.emit("GV %d %s" % (self.ctx() if r.chance(1, 2) else r.below(self.pool), hx(self.key())))
        elif k == 5:
            self.emit("RGVC %d %s" % (self.ctx(), hx(self.key())))
        elif k == 6:
            self.emit("RGV %s" % hx(self.key()))
        elif k in (7, 8):
            self.emit("HK %d %s" % (r.below(self.pool), hx(self.key())))
        elif k == 9:
            self.emit("GSP %d" % r.below(self.pool))
        elif k == 10:
            self.emit("EQ %d %d" % (r.below(self.pool), self.ctx()))
        else:
            self.emit("CSP")

    def op_dump(self):
        ks = [k for k in self.keys if not (self.has_empty_key_risk and k == b"")]
        self.emit("DUMP " + " ".join(hx(k) for k in ks))

    # ---- runtime operations
    def op_attach(self, c=None):
        r = self.rng
        if c is None:
            if r.chance(1, 12):
                self.emit("ATC")
                c = self.stack[-1] if self.stack else 0
                self.stack.append(c)
                self.toks.append(["live", c])
                return
            c = self.ctx() if r.chance(3, 4) else (self.stack[r.below(len(self.stack))] if self.stack else 0)
        self.emit("AT %d" % c)
        self.stack.append(c)
        self.toks.append(["live", c])

    def op_scope(self):
        r = self.rng
        self.emit("%s %d" % (r.choice(["SC", "WAS"]), r.below(16)))
        c = self.pool
        self.pool += 1
        self.stack.append(c)
        self.toks.append(["scope", c])

    def pick_token(self, how):
        """how: top | buried | bottom | foreign | any | dead"""
        r = self.rng
        idx = list(range(len(self.toks)))
        if how == "dead":
            cand = [i for i in idx if self.toks[i][0] == "dead"]
        elif how == "top":
            cand = [i for i in idx if self.toks[i][0] != "dead" and self.stack and self.toks[i][1] == self.stack[-1]]
        elif how == "bottom":
            cand = [i for i in idx if self.toks[i][0] != "dead" and self.stack and self.toks[i][1] == self.stack[0]]
        elif how == "buried":
            cand = [i for i in idx if self.toks[i][0] != "dead" and self.toks[i][1] in self.stack[:-1]]
        elif how == "foreign":
            cand = [i for i in idx if self.toks[i][0] != "dead" and self.toks[i][1] not in self.stack]
        else:
            cand = idx
        return r.choice(cand) if cand else None

    def op_detach(self, how=None, kill=None):
        r = self.rng
        if how is None:
            how = r.choice(["top", "top", "top", "buried", "bottom", "foreign", "any", "dead"])
        k = self.pick_token(how)
        if k is None:
            k = self.pick_token("any")
        if k is None:
            return
        st, c = self.toks[k]
        if kill is None:
            kill = r.chance(1, 3)
        if kill:
            self.emit("KT %d" % k)
            if st in ("live", "scope"):
                self._detach(c)
                self.toks[k][0] = "dead"
        else:
            self.emit("DT %d" % k)
            if st in ("live", "borrowed"):
                self._detach(c)

    def op_observe(self):
        self.emit(self.rng.choice(["CUR", "CUR", "CSP", "RGV " + hx(self.key())]))

    def text(self):
        return " ; ".join(self.ops)


def prog_contexts(rng, keys, n_ops, allow_empty_batch=False):
    s = Sim(rng, keys, allow_empty_batch=allow_empty_batch)
    for _ in range(n_ops):
        k = rng.below(10)
        if k < 3:
            s.op_set()
        elif k < 5:
            s.op_set_values()
        elif k < 9:
            s.op_query()
        else:
            s.op_dump()
    s.op_dump()
    return s.text()


def prog_mixed(rng, keys, n_ops, s=None):
    s = s or Sim(rng, keys)
    for _ in range(n_ops):
        k = rng.below(20)
        if k < 3:
            s.op_set()
        elif k == 3:
            s.op_set_values()
        elif k < 6:
            s.op_query()
        elif k < 10:
            s.op_attach()
        elif k < 12:
            s.op_scope()
        elif k < 16:
            s.op_detach()
        else:
            s.op_observe()
    if rng.chance(1, 3):
        s.op_dump()
    return s


def prog_deep(rng, keys, depth, pattern):
    """push to [depth] (crossing every reallocation below it), then unwind in a chosen pattern"""
    s = Sim(rng, keys)
    nctx = 1 + rng.below(6)
    for _ in range(nctx):
        s.op_set()
    rep = rng.chance(1, 3)
    for i in range(depth):
        if rng.chance(1, 6):
            s.op_scope()
        else:
            s.op_attach(rng.below(s.pool) if not rep else 1 + rng.below(min(2, s.pool - 1)))
        if rng.chance(1, 8) or i == depth - 1:
            s.op_observe()
    if pattern == "lifo":
        for k in reversed(range(len(s.toks))):
            s.emit("%s %d" % (rng.choice(["DT", "KT"]) if s.toks[k][0] == "live" else "KT", k))
            if rng.chance(1, 6):
                s.emit("CUR")
    elif pattern == "bottom":
        s.op_detach("bottom", kill=False)
        s.emit("CUR")
    elif pattern == "middle":
        for _ in range(1 + rng.below(4)):
            s.op_detach("buried")
            s.emit("CUR")
            s.emit("CSP")
    elif pattern == "fifo":
        for k in range(len(s.toks)):
            s.emit("%s %d" % ("DT" if s.toks[k][0] == "live" else "KT", k))
            if k < 3:
                s.emit("CUR")
    elif pattern == "random":
        order = list(range(len(s.toks)))
        rng.shuffle(order)
        for k in order[:max(1, len(order) // 2)]:
            st, c = s.toks[k]
            kill = st == "scope" or rng.chance(1, 3)
            s.emit("%s %d" % ("KT" if kill else "DT", k))
            if st != "dead":
                s._detach(c)
                if kill:
                    s.toks[k][0] = "dead"
            if rng.chance(1, 4):
                s.emit("CUR")
    elif pattern == "regrow":
        # pop about half, then push again over the cleared slots and across the next reallocation
        for _ in range(max(1, depth // 2)):
            s.op_detach("top")
        s.emit("CUR")
        for _ in range(depth):
            s.op_attach()
        s.emit("CUR")
        s.op_detach("buried")
        s.emit("CUR")
    # "leave": nothing is detached: the final reveal shows the whole stack
    return s


def prog_double_detach(rng, keys):
    s = Sim(rng, keys)
    s.op_set(); s.op_set()
    a, b = 1, 2
    pat = rng.below(5)
    if pat == 0:      # A B A ; detach newest A explicitly, then its destructor runs again: unwinds to the older A
        s.op_attach(a); s.op_attach(b); s.op_attach(a)
        s.emit("DT 2"); s.emit("CUR"); s.emit("KT 2"); s.emit("CUR")
    elif pat == 1:    # same context twice: tokens match most-recent-first whichever token is used
        s.op_attach(a); s.op_attach(a); s.emit("DT 0"); s.emit("CUR"); s.emit("DT 1"); s.emit("CUR"); s.emit("DT 0"); s.emit("CUR")
    elif pat == 2:    # root attached on an empty stack; root token on an empty stack reports true
        s.op_attach(0); s.emit("DT 0"); s.emit("DT 0"); s.emit("CUR"); s.op_attach(a); s.emit("DT 0"); s.emit("CUR")
    elif pat == 3:    # kill then detach (dead), detach of a scope token (not reachable)
        s.op_attach(a); s.emit("KT 0"); s.emit("DT 0"); s.op_scope(); s.emit("DT 1"); s.emit("KT 1"); s.emit("KT 1"); s.emit("CUR")
    else:             # foreign: never-attached-here context equal to nothing on the stack
        s.op_attach(a); s.emit("DT 0"); s.op_attach(b); s.emit("DT 0"); s.emit("CUR"); s.emit("KT 0"); s.emit("CUR")
    return s.text()


def prog_scopes(rng, keys):
    s = Sim(rng, keys)
    n = 1 + rng.below(12)
    s.emit("CSP")
    for i in range(n):
        if rng.chance(1, 5):
            s.op_attach()
        else:
            s.op_scope()
        s.emit("CSP")
        if rng.chance(1, 6):
            s.emit("SV %d %s %s" % (s.ctx(), hx(SPAN_KEY), rnd_value(rng)))
            s.pool += 1
    order = list(reversed(range(len(s.toks))))
    if rng.chance(1, 3):
        rng.shuffle(order)
    for k in order:
        s.emit("KT %d" % k)
        s.emit("CSP")
        if rng.chance(1, 4):
            s.emit("CUR")
    return s.text()


def prog_threads(rng, keys, nthreads, n_ops):
    m = prog_mixed(rng, keys, 5 + rng.below(15))
    segs = [m.text()]
    for _ in range(nthreads):
        toks = [["borrowed", c] if st in ("live", "borrowed") else ["dead", c] for st, c in m.toks]
        t = Sim(rng, keys, pool=m.pool, toks=toks)
        t.emit("CUR")
        t.emit("CSP")
        kind = rng.below(3)
        if kind == 0:
            prog_mixed(rng, keys, n_ops, t)
        elif kind == 1:
            for _ in range(n_ops // 2):
                t.op_attach(rng.below(t.pool))     # the very contexts the main thread has attached
            t.emit("CUR")
            for _ in range(n_ops // 2):
                t.op_detach()
                if rng.chance(1, 4):
                    t.emit("CUR")
        else:
            for _ in range(n_ops // 3):
                t.op_scope(); t.emit("CSP")
            for i in range(len(m.toks)):
                t.emit("DT %d" % i)                # main's tokens: foreign unless this thread attached the same context
                t.emit("CUR")
        segs.append(t.text())
    return " | ".join(segs)


def prog_stale_token(rng, op):
    """a token that outlives its frame, whose Context nobody else holds (a temporary handed straight to Attach), then k
    fresh temporaries of the same shape (one of them is allocated where the dead one was), then the stale token is
    detached again and/or destroyed: it is foreign - false, nothing changes.  [op] = ATT (ASan build) / ATP (plain build)."""
    key = rng.choice([b"request", b"r", b"active_span", b"k" * 24])
    ops, pool, toks = [], 1, 0
    live = []                 # tokens of frames on the stack (oldest first)

    def att():
        nonlocal pool, toks
        ops.append("%s %d %s" % (op, pool, hx(key)))
        pool += 1
        toks += 1
        live.append(toks - 1)
        return toks - 1

    def look():
        ops.append("CUR"); ops.append("RGV " + hx(key))
        if rng.chance(1, 3):
            ops.append("CSP")

    base = rng.below(3)
    for _ in range(base):
        if rng.chance(1, 2):
            att()
        else:           # a held context as base
            ops.append("SV 0 %s i %d" % (hx(key), 1000 + pool)); pool += 1
            ops.append("AT %d" % (pool - 1)); toks += 1; live.append(toks - 1)
    shape = rng.below(3)
    stale = []
    if shape == 0:        # explicit Detach, token kept
        t = att(); look()
        ops.append("DT %d" % t); live.remove(t); stale.append(t)
    elif shape == 1:      # out of order: the outer token unwinds the inner frames, whose tokens are kept
        outer = att()
        inner = [att() for _ in range(1 + rng.below(3))]
        look()
        ops.append("DT %d" % outer)
        for t in [outer] + inner:
            live.remove(t)
        stale += inner + [outer]
    else:                 # two explicit detaches in order, both kept
        a, b = att(), att(); look()
        ops.append("DT %d" % b); ops.append("DT %d" % a); live.remove(a); live.remove(b); stale += [a, b]
    look()
    for _ in range(rng.choice([1, 1, 2, 3, 4, 6, 8, 12])):
        att()
        if rng.chance(1, 4):
            look()
    look()
    rng.shuffle(stale)
    for t in stale:
        how = rng.below(3)
        if how != 1:
            ops.append("DT %d" % t); look()
        if how != 0:
            ops.append("KT %d" % t); look()
    # the live frames are still detachable in order
    for t in reversed(live[-2:]):
        ops.append("DT %d" % t); ops.append("CUR")
    return " ; ".join(ops)


def f20_cases(rng):
    """regression for F20 (fixed in /repo 4bc3189): an empty batch must not shadow the empty key; under the UBSan build
    the unrepaired GetValue also stops on memcmp(key, nullptr, 0)"""
    out = []
    out.append("SV 0 x i 5 ; SVS 1 0 ; GV 2 x ; HK 2 x ; GV 1 x")
    out.append("NEW1 x s 3 ; SVS 1 0 ; SV 2 x61 b 1 ; HK 3 x ; GV 3 x61 ; GV 3 x")
    # other uses of the empty batch
    out.append("NEW 0 ; GV 1 x ; HK 1 x ; SV 1 x i 1 ; GV 2 x ; EQ 0 1 ; AT 1 ; CUR")
    out.append("SV 0 x6b i 5 ; SVS 1 0 ; GV 2 x6b ; HK 2 x6b ; SVS 2 0 ; GV 3 x6b ; DUMP x6b x6b00")
    return out


PATTERNS = ["lifo", "bottom", "middle", "fifo", "random", "regrow", "leave"]


def gen(rng, tier):
    n = 3 if tier == "quick" else 40
    cases = purity_cases(tier)
    cases.append("")
    cases += f20_cases(rng)
    # stale tokens over temporaries: the same history once on the ASan build (ATT) and once on the plain build (ATP)
    for _ in range(40 * n):
        c = prog_stale_token(rng, "ATT")
        cases.append(c)
        cases.append(c.replace("ATT ", "ATP "))
    # fixed small programs aimed at each detach kind
    for _ in range(8 * n):
        cases.append(prog_double_detach(rng, rng.choice(KEY_FAMILIES)))
    # contexts only: persistence of many derived contexts, shadowing, key comparison
    for _ in range(250 * n):
        keys = rng.choice(KEY_FAMILIES)
        if rng.chance(1, 4):
            keys = keys + rng.choice(KEY_FAMILIES)
        cases.append(prog_contexts(rng, keys, rng.choice([5, 10, 20, 40])))
    # every boundary depth x every unwinding pattern
    for d in BOUNDARY_DEPTHS:
        for p in PATTERNS:
            for _ in range(n):
                cases.append(prog_deep(rng, rng.choice(KEY_FAMILIES), d, p).text())
    for _ in range(60 * n):
        cases.append(prog_deep(rng, rng.choice(KEY_FAMILIES), 1 + rng.below(40), rng.choice(PATTERNS)).text())
    # mixed random programs
    for _ in range(500 * n):
        cases.append(prog_mixed(rng, rng.choice(KEY_FAMILIES), rng.choice([5, 10, 20, 40, 80])).text())
    # scopes
    for _ in range(150 * n):
        cases.append(prog_scopes(rng, rng.choice(KEY_FAMILIES)))
    # real threads
    for _ in range(150 * n):
        cases.append(prog_threads(rng, rng.choice(KEY_FAMILIES), 2 + rng.below(3), rng.choice([6, 20, 60, 150])))
    return cases


CREATING = ("SV", "RSV", "RSVC", "NEW1", "SSP", "SVS", "NEW", "AT", "ATC", "SC", "WAS", "ATT", "ATP")


def shrink(case):
    if case.startswith("PURITY"):
        return
    segs = [[o.strip() for o in s.split(";") if o.strip()] for s in case.split("|")]
    join = lambda ss: " | ".join(" ; ".join(s) for s in ss)
    # fewer threads
    for k in range(len(segs) - 1, 0, -1):
        yield join(segs[:k] + segs[k + 1:])
    # shorter segments (suffixes removed), then single non-creating operations removed (indices stay valid)
    for si, s in enumerate(segs):
        for l in range(0, len(s)):
            yield join(segs[:si] + [s[:l]] + segs[si + 1:])
    for si, s in enumerate(segs):
        for i, o in enumerate(s):
            if o.split()[0] not in CREATING:
                yield join(segs[:si] + [s[:i] + s[i + 1:]] + segs[si + 1:])


LEVEL_TEXT = ("Theorems in coq/Properties_C10.v about the Gallina model of context::Context (persistent DataList heap), the "
              "thread-local Stack {size, capacity, base[]} with Push/Resize/Pop/Top/Contains/Detach exactly as coded, Token/Scope "
              "life time and the span helpers: immutability of every context under every operation sequence, latest binding wins with "
              "exact (length, bytes) key comparison, refinement of the array stack to a list across every reallocation, detach at the "
              "top / out of order / foreign, balanced sequences, scope release, thread isolation, and model_meets_spec for the checker "
              "that is also run on the implementation's observations.  The model is tied to the C++ on every run by running the extracted "
              "model and the rebuilt ASan/UBSan driver (real threads) on the same generated programs; stale-token histories over temporary "
              "contexts additionally run on a driver built without sanitizers, where the allocator reuses freed addresses.  The sharing assumptions "
              "(immutable Context values read/derived/copied from several threads, strictly per-thread runtime stack) are probed at run time by a "
              "ThreadSanitizer build (PURITY cases) - a probe, not a theorem.")
LEVEL_NOTE = ("Trusted: Coq kernel, extraction, ocaml/driver.ml, the C++ driver, the generator, tools/extract_consts.py (kSpanKey); the model is "
              "hand-written (tied by correspondence, not verified against C++ semantics); thread_local isolation is a language guarantee mirrored "
              "by the model's one-world-per-thread structure; memory safety is evidenced by sanitizers, not proved.")
