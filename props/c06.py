"""C06 - counter measurements are conserved across readers, temporalities and threads.  Case generator and configuration.

Case format: coq/C06/Glue.v.
  SEQ  <readers> | <views> | <meters> | <ops>
  RACE <readers> | <views> | <meters> | <news> | <adds> | <collectors>          (thorough tier only)
"""
from tools.vlib import hx

ID = "C06"
LEVEL = "proof"
DRIVER = {"srcs": ["harness/c06_driver.cc"], "sdk": True}
TRIVIAL_TAGS = {"seq_trivial", "BADCASE"}

NAMES = [b"c1", b"c2", b"req", b"up9", b"a"]
STREAMS = [b"v1", b"v2", b"s3"]
KEYS = [b"k", b"j", b"zone", b"K"]
VALS = [b"a", b"b", b"", b"a\x00b", b"\xc3\xa9"]
U63 = 1 << 63
U64 = 1 << 64


def attr_pool(rng):
    """1..4 attribute sets as lists of (key, value); some written with a permuted order or a duplicated key"""
    pool = [[]]
    n = rng.choice([0, 1, 1, 2, 3, 3])
    while len(pool) < 1 + n:
        ks = KEYS[: 1 + rng.below(len(KEYS))]
        rng.shuffle(ks)
        a = [(k, rng.choice(VALS)) for k in ks[: 1 + rng.below(3)]]
        pool.append(a)
    return pool


def write_attrs(rng, a):
    """one way of writing the attribute set a: permuted, possibly with an overwritten duplicate in front"""
    a = list(a)
    rng.shuffle(a)
    if a and rng.chance(1, 5):
        k, v = rng.choice(a)
        a.insert(0, (k, rng.choice(VALS)))     # overwritten by the later pair with the same key ...
        # ... only if that one still comes later: it does, insert(0) put the stale one first
    return a


def value_for(rng, kind):
    k = rng.below(100)
    if kind == 0:      # uint64 counter
        if k < 2:
            return rng.choice([U63, U64 - 1, U63 + 5])      # arrives as a negative int64: ignored by the monotonic sum
        if k < 4:
            return (1 << 40) + rng.below(1000)
        if k < 12:
            return 0
        return rng.below(100)
    if kind == 1:      # double counter
        if k < 6:
            return -1 - rng.below(50)                       # rejected by DoubleCounter::Add
        if k < 10:
            return 0
        if k < 12:
            return (1 << 40) + rng.below(1000)
        return rng.below(100)
    if k < 4:
        return rng.choice([-(1 << 40), 1 << 40])
    return rng.below(101) - 50


def view_tok(counter, pat, meter, name):
    return "V %d %s %d %s" % (1 if counter else 0, "ANY" if pat is None else hx(pat), meter, hx(name))


def gen_config(rng, shape):
    """returns (readers, views, nmeters, instruments) ; instruments = list of (meter, kind, name)"""
    k = rng.below(20)
    if k < 4:
        readers = [0]
    elif k < 6:
        readers = [1]
    elif k < 9:
        readers = [0, 0]
    elif k < 12:
        readers = [0, 1]
    elif k < 13:
        readers = [1, 1]
    elif k < 14:
        readers = [1, 0]
    else:
        readers = [rng.below(2) for _ in range(3 + (1 if rng.chance(1, 8) else 0))]
    nm = rng.choice([1, 1, 1, 2, 2, 3])
    ninstr = rng.choice([1, 1, 2, 2, 3])
    names = list(NAMES)
    rng.shuffle(names)
    instr = []
    for i in range(ninstr):
        m = rng.below(nm)
        # the same name in two meters is two instruments
        nmx = names[i] if not (i > 0 and nm > 1 and rng.chance(1, 4)) else instr[0][2]
        if any(x[0] == m and x[2] == nmx for x in instr):
            nmx = names[i]
        if any(x[0] == m and x[2] == nmx for x in instr):
            continue
        instr.append((m, rng.below(4), nmx))
    views = []
    streams = list(STREAMS)
    rng.shuffle(streams)
    vk = rng.below(10)
    if shape == "views2":
        m, kind, nmx = rng.choice(instr)
        c = kind in (0, 1)
        v = rng.below(4)
        if v == 0:
            views = [view_tok(c, nmx, -1, streams[0]), view_tok(c, nmx, -1, streams[1])]
        elif v == 1:
            views = [view_tok(c, nmx, m, streams[0]), view_tok(c, None, -1, b"")]
        elif v == 2:
            views = [view_tok(c, None, -1, b""), view_tok(c, nmx, -1, streams[0])]
        else:
            views = [view_tok(c, nmx, -1, streams[0]), view_tok(c, nmx, m, streams[1]), view_tok(c, nmx, -1, b"")]
    elif vk < 5:
        views = []
    elif vk < 7:       # a renaming view for one instrument
        m, kind, nmx = rng.choice(instr)
        views = [view_tok(kind in (0, 1), nmx, rng.choice([-1, m]), streams[0])]
    elif vk < 8:       # a catch-all view that keeps the names, for one instrument type
        views = [view_tok(rng.chance(1, 2), None, -1, b"")]
    elif vk < 9:       # a view that matches nothing (other meter / other type / other name)
        m, kind, nmx = rng.choice(instr)
        views = [view_tok(kind not in (0, 1), nmx, -1, streams[0])]
        if nm > 1:
            views.append(view_tok(kind in (0, 1), nmx, (m + 1) % nm, streams[1]))
    else:              # one view per instrument type, disjoint
        views = [view_tok(True, None, -1, b""), view_tok(False, None, -1, b"")]
    return readers, views, nm, instr


def add_tok(rng, h, kind, pool):
    v = value_for(rng, kind)
    a = rng.choice(pool)
    if not a and rng.chance(1, 2):
        return "A %d %d" % (h, v)
    toks = ["K", str(h), str(v)]
    for k, x in write_attrs(rng, a):
        toks += [hx(k), hx(x)]
    return " ".join(toks)


def seq_case(rng, shape, long_run=False):
    readers, views, nm, instr = gen_config(rng, shape)
    pool = attr_pool(rng)
    ops = []
    handles = []     # kinds by handle
    pending = list(instr)
    # most instruments exist from the start; some are created in the middle of the history
    while pending and (not handles or rng.chance(2, 3)):
        m, kind, nmx = pending.pop(0)
        ops.append("N %d %d %s" % (m, kind, hx(nmx)))
        handles.append((m, kind, nmx))
    n = rng.choice([4, 8, 12, 20, 30]) if not long_run else 60 + rng.below(60)
    pc = rng.choice([2, 3, 5])          # how often a collection happens
    dup_at = rng.below(n) if shape == "dup" else -1
    for i in range(n):
        if i == dup_at:
            m, kind, nmx = rng.choice(handles)
            ops.append("N %d %d %s" % (m, kind, hx(nmx)))
            handles.append((m, kind, nmx))
            continue
        k = rng.below(10)
        if pending and k == 0:
            m, kind, nmx = pending.pop(0)
            ops.append("N %d %d %s" % (m, kind, hx(nmx)))
            handles.append((m, kind, nmx))
        elif k < pc:
            ops.append("C %d" % rng.below(len(readers)))
            if rng.chance(1, 6):        # the same or another reader right away: an empty interval
                ops.append("C %d" % rng.below(len(readers)))
        else:
            h = rng.below(len(handles))
            ops.append(add_tok(rng, h, handles[h][1], pool))
            if rng.chance(1, 4):        # a burst on one handle
                for _ in range(1 + rng.below(3)):
                    ops.append(add_tok(rng, h, handles[h][1], pool))
    # every reader collects at the end at least once in most cases
    if rng.chance(3, 4):
        rs = list(range(len(readers)))
        rng.shuffle(rs)
        for r in rs:
            ops.append("C %d" % r)
    return "SEQ %s | %s | %d | %s" % (" ".join(map(str, readers)), " ; ".join(views), nm, " ; ".join(ops))


def fixed_cases():
    c1, c2 = hx(b"c1"), hx(b"c2")
    k, a, b = hx(b"k"), hx(b"a"), hx(b"b")
    out = []
    for rd in ("0", "1", "0 0", "0 1", "1 0", "1 1", "0 1 0"):
        # nothing recorded; empty intervals between non-empty ones; a reader that never collected before
        out.append("SEQ %s |  | 1 | N 0 0 %s ; C 0 ; C 0" % (rd, c1))
        out.append("SEQ %s |  | 1 | N 0 0 %s ; A 0 5 ; C 0 ; C 0 ; A 0 7 ; C 0 ; C 0 ; C 0 ; A 0 1 ; A 0 2 ; C 0" % (rd, c1))
        out.append("SEQ %s |  | 1 | N 0 2 %s ; K 0 5 %s %s ; C 0 ; K 0 -5 %s %s ; K 0 3 %s %s ; C 0 ; C 0" % (rd, c1, k, a, k, a, k, b))
        # an instrument created after the first collection; two meters, one of them empty
        out.append("SEQ %s |  | 2 | C 0 ; N 1 1 %s ; A 0 4 ; C 0 ; N 0 3 %s ; A 1 -2 ; A 0 1 ; C 0" % (rd, c1, c2))
        # negative / out-of-range values of the monotonic kinds
        out.append("SEQ %s |  | 1 | N 0 0 %s ; A 0 %d ; C 0 ; A 0 3 ; A 0 %d ; C 0" % (rd, c1, U63, U64 - 1))
        out.append("SEQ %s |  | 1 | N 0 1 %s ; A 0 -4 ; C 0 ; A 0 3 ; K 0 -1 %s %s ; C 0" % (rd, c1, k, a))
    for rd in ("0 0", "0 1", "1 1", "0 1 1"):
        n = len(rd.split())
        last = n - 1
        # the other reader collects in between / never / only at the end
        out.append("SEQ %s |  | 1 | N 0 0 %s ; A 0 1 ; C 0 ; A 0 2 ; C %d ; A 0 4 ; C 0 ; C %d ; A 0 8 ; C %d ; C 0" % (rd, c1, last, last, last))
        out.append("SEQ %s |  | 1 | N 0 0 %s ; A 0 1 ; C 0 ; A 0 2 ; A 0 4 ; C 0 ; A 0 8 ; C 0" % (rd, c1))
        out.append("SEQ %s |  | 1 | N 0 0 %s ; A 0 1 ; A 0 2 ; A 0 4 ; C %d ; C %d ; A 0 8 ; C 0" % (rd, c1, last, last))
    # F13: the same counter created twice (10 through the first handle, 1 through the second)
    for rd in ("1", "0", "0 1"):
        out.append("SEQ %s |  | 1 | N 0 0 %s ; N 0 0 %s ; A 0 10 ; A 1 1 ; C 0" % (rd, c1, c1))
        out.append("SEQ %s |  | 1 | N 0 0 %s ; A 0 10 ; C 0 ; N 0 0 %s ; A 0 10 ; A 1 1 ; C 0 ; C 0" % (rd, c1, c1))
    # F14: two views on one instrument
    for rd in ("1", "0", "0 1"):
        out.append("SEQ %s | V 1 %s -1 %s ; V 1 %s -1 %s | 1 | N 0 0 %s ; A 0 3 ; C 0" % (rd, c1, hx(b"v1"), c1, hx(b"v2"), c1))
    # one renaming view, one catch-all view
    out.append("SEQ 0 1 | V 1 %s -1 %s | 1 | N 0 0 %s ; N 0 0 %s ; A 0 3 ; A 1 4 ; C 0 ; C 1" % (c1, hx(b"v1"), c1, c2))
    out.append("SEQ 0 | V 0 ANY -1 x | 2 | N 0 2 %s ; N 1 3 %s ; A 0 3 ; A 1 4 ; C 0 ; A 1 -4 ; C 0" % (c1, c1))
    return out


def race_case(rng):
    readers, views, nm, instr = gen_config(rng, "plain")
    pool = attr_pool(rng)
    news = ["N %d %d %s" % (x[0], x[1], hx(x[2])) for x in instr]
    nthreads = rng.choice([1, 2, 3])
    adds = []
    for t in range(nthreads):
        for _ in range(rng.choice([50, 300, 1000])):
            h = rng.below(len(instr))
            kind = instr[h][1]
            # small values only: the totals must stay far inside int64 / exact doubles
            v = rng.below(10) if kind in (0, 1) else rng.below(11) - 5
            a = rng.choice(pool)
            toks = [str(t), "K", str(h), str(v)]
            for k, x in write_attrs(rng, a):
                toks += [hx(k), hx(x)]
            if not a and rng.chance(1, 2):
                toks = [str(t), "A", str(h), str(v)]
            adds.append(" ".join(toks))
    rs = list(range(len(readers)))
    rng.shuffle(rs)
    cols = ["%d %d" % (r, rng.choice([5, 30, 120])) for r in rs[: rng.choice([1, len(rs), len(rs)])]]
    return "RACE %s | %s | %d | %s | %s | %s" % (" ".join(map(str, readers)), " ; ".join(views), nm, " ; ".join(news),
                                                 " ; ".join(adds), " ; ".join(cols))


def gen(rng, tier):
    n = 2000 if tier == "quick" else 40000
    out = fixed_cases()
    for i in range(n):
        k = rng.below(100)
        shape = "dup" if k < 4 else "views2" if k < 8 else "plain"
        out.append(seq_case(rng, shape, long_run=(k >= 98)))
    if tier != "quick":
        for _ in range(160):
            out.append(race_case(rng))
    return out


def widen(rng, k):
    out = [seq_case(rng, "plain", long_run=rng.chance(1, 10)) for _ in range(6000)]
    out += [race_case(rng) for _ in range(20)]
    return out


def neighbours(rng, cases):
    """variants of a disagreeing SEQ history: a collection removed, duplicated, or given to another reader"""
    out = []
    for c in cases:
        if not c.startswith("SEQ "):
            continue
        secs = c.split(" | ")
        if len(secs) != 4:
            continue
        ops = secs[3].split(" ; ")
        nr = len(secs[0].split()) - 1
        for _ in range(40):
            o = list(ops)
            idx = [i for i, x in enumerate(o) if x.startswith("C ")]
            if not idx:
                break
            i = rng.choice(idx)
            k = rng.below(3)
            if k == 0:
                del o[i]
            elif k == 1:
                o.insert(i, o[i])
            else:
                o[i] = "C %d" % rng.below(max(1, nr))
            out.append(" | ".join(secs[:3] + [" ; ".join(o)]))
    return out


def shrink(case):
    """shorter histories first: prefixes ending in a collection, then single Add / Collect operations removed"""
    if not case.startswith("SEQ "):
        return
    secs = case.split(" | ")
    if len(secs) != 4:
        return
    ops = secs[3].split(" ; ")
    for i in range(1, len(ops)):
        if ops[i - 1].startswith("C "):
            yield " | ".join(secs[:3] + [" ; ".join(ops[:i])])
    for i in range(len(ops)):
        if not ops[i].startswith("N "):
            yield " | ".join(secs[:3] + [" ; ".join(ops[:i] + ops[i + 1:])])


ASSUMPTIONS = [
    "every MetricReader is registered before the first instrument is created (MeterProvider::AddMetricReader documents that a reader added "
    "later may miss in-flight data); views are registered before the instruments they apply to",
    "measurements are integers: the double instruments are driven with integer-valued doubles whose sums stay below 2^53, the int64 sums do not "
    "overflow (signed overflow is undefined behaviour; UBSan would stop the driver); so Sum Merge is exact integer addition",
    "Counter<uint64_t>::Add hands its uint64_t to RecordLong(int64_t): a value >= 2^63 arrives as a negative number and is ignored by the monotonic "
    "sum; the SPEC counts such a value (outside the data model's int64 sum) as no measurement, like a negative value of a double counter",
    "fewer than kAggregationCardinalityLimit - 1 attribute sets per stream: the overflow series is C08's subject and not modelled here; attribute "
    "values are strings (identity of series for other value types is C08's subject); instrument/view names are valid names (C19's subject)",
    "timestamps are compared as relations only: the driver names a MetricData's end by the script position of the Collect call whose wall-clock "
    "bracket contains it and a start by equality with the SDK start time or an earlier end; system_clock never ties across two collections "
    "(a tie is reported, not ignored)",
    "concurrency: each Record* and the table swap of SyncMetricStorage::Collect are atomic (attribute_hashmap_lock_), buildMetrics is serialized by "
    "TemporalMetricStorage::lock_ and whole per-meter collections by Meter::storage_lock_; sequentially consistent; so a racing execution is an "
    "interleaving of the storage-level operations the theorems quantify over.  Races are exercised with real threads (thorough tier) and checked by "
    "the order-independent totals clause",
]
TRUSTED = ["model coq/C06/Model.v is hand-written (Add glue, Sum aggregation, SyncMetricStorage, TemporalMetricStorage::buildMetrics, "
           "Meter registry / views fan-out, MetricCollector::Produce); tied by this correspondence run",
           "the driver's translation of wall-clock timestamps into logical times (harness/c06_driver.cc)"]
LEVEL_TEXT = ("Theorems in coq/Properties_C06.v about the Gallina model of the synchronous counter pipeline: for every history of Add and Collect "
              "operations on a storage (any number of readers, any interleaving), a delta reader's point is exactly the sum of the measurements made "
              "since its own previous collection, a cumulative reader's point is the running total, delta intervals abut and start at SDK start, "
              "cumulative points start at SDK start, a reader's output does not depend on other readers' collections; at the API level every handle "
              "and every view stream is counted for histories without duplicate instruments / with at most one view per instrument (the faithful "
              "model refutes the general statements: F13, F14).  The model is tied to the C++ on every run by running the extracted model and the "
              "rebuilt ASan/UBSan driver (MeterProvider, instruments, several own MetricReaders of mixed temporality) on the same generated "
              "histories and by running the extracted SPEC on the implementation's MetricData; thorough runs add recorder threads racing collectors.")
LEVEL_NOTE = ("Trusted: Coq kernel, extraction, ocaml/driver.ml, the C++ driver, the generator, tools/extract_consts.py; the model is hand-written "
              "(tied by correspondence, not verified against C++ semantics); atomicity of the storage-level operations is argued from the locks, "
              "not proved; weak memory orders are not modelled.")
