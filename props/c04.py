"""C04 - an exported span carries exactly what the application recorded before End.  Case generator and configuration."""
from tools.vlib import hx

ID = "C04"
LEVEL = "proof"
DRIVER = {"srcs": ["harness/c04_driver.cc"], "sdk": True}
TRIVIAL_TAGS = {"unsampled", "p0_dtor", "p0_end", "p0_end2", "p0_end_late", "p0_end2_late"}
ASSUMPTIONS = [
    "one span per provider.  'Several threads on one span': every mutator is modelled as one atomic step (what it does while holding "
    "Span::mu_); threaded cases run 2-4 real threads on one span BEFORE it is ended, with thread-disjoint attribute keys / event names, and are "
    "compared with the sequentialisation thread 0,1,.. after the driver grouped the threaded events by thread (theorem "
    "every_interleaving_same_export: all interleavings agree up to that grouping); End racing with mutators of other threads is not exercised; "
    "data races are looked for with ASan/UBSan only (no TSan build)",
    "processors are SimpleSpanProcessor / BatchSpanProcessor in front of a harness exporter whose MakeRecordable returns the SDK's SpanData; "
    "batch processors are flushed and shut down before the exporters' spans are dumped (delivery/ordering of batches is C01-C03)",
    "explicit timestamps are in [1, 2^62) nanoseconds (0 is the API's 'not given' value and is generated as such); values the SDK reads from a "
    "clock are compared only against the window the driver measured around the call and for equality between processors",
    "the build under test is ABI v1: links can only be given to StartSpan; the SDK has no span limits at this commit",
    "link trace states are generated in canonical header form (ToHeader(FromHeader(h)) = h, C14) and treated as opaque bytes",
    "SetStatus is modelled as the code does it (last call wins, description kept for every code); the OpenTelemetry rule 'Ok is final' is not "
    "part of the property text and is not implemented by the SDK",
    "span identity (ids, parent, flags, trace state) is C05; here only 'the exported SpanContext equals Span::GetContext()' is observed",
    "a const char* attribute value points to a NUL-terminated block (the driver appends the terminator)",
]
TRUSTED = ["model coq/C04/Model.v is hand-written; tied by this correspondence run",
           "AddressSanitizer/UBSan detect reads of freed caller blocks; every caller block is complemented and freed right after its call"]

KEYS = [b"a", b"b", b"c", b"ab", b"", b"a\x00", b"a\x00b", b"\xff", b"A", b"http.method", b"k" * 40]
NAMES = [b"", b"span", b"n\x00m", b"\xff\xfe", b"a" * 70, b"GET /x", b"e", b"evt"]
I32 = [0, 1, -1, 2**31 - 1, -2**31, 42]
U32 = [0, 1, 2**32 - 1, 2**31, 7]
I64 = [0, 1, -1, 2**63 - 1, -2**63, 2**53 + 1]
U64 = [0, 1, 2**64 - 1, 2**63, 2**53 + 1]
DBL = [0, 1 << 63, 0x3FF0000000000000, 0x7FF0000000000000, 0xFFF0000000000000, 0x7FF8000000000001, 0x7FF0000000000001, 1,
       0x7FEFFFFFFFFFFFFF, 0x4059000000000000]
STRS = [b"", b"v", b"\x00", b"ab\x00cd", b"\x00\x00", b"\xff\x80", b"x" * 100, b"val", b"!trashed!", b"scribbled"]


def rnd_bytes(rng):
    k = rng.below(10)
    if k < 6:
        return rng.choice(STRS)
    if k < 9:
        return bytes(rng.choice(b"ab\x00\xff z") for _ in range(rng.below(12)))
    return rng.bytes(rng.choice([1, 15, 16, 17, 300]))      # around the small-string boundary, and a big one


def arr_len(rng):
    return rng.choice([0, 0, 1, 1, 2, 3, 5, 8, 17, 64, 300] if rng.chance(1, 6) else [0, 1, 2, 3])


def rnd_val(rng, ty=None):
    ty = ty or rng.choice(["b", "i", "u", "l", "d", "U", "c", "s", "s", "ab", "ai", "au", "al", "ad", "aU", "a8", "as"])
    pick = lambda tab, lo, hi: (rng.choice(tab) if rng.chance(2, 3) else lo + rng.below(hi - lo + 1))
    if ty == "b":
        return "b %d" % rng.below(2)
    if ty == "i":
        return "i %d" % pick(I32, -2**31, 2**31 - 1)
    if ty == "u":
        return "u %d" % pick(U32, 0, 2**32 - 1)
    if ty == "l":
        return "l %d" % pick(I64, -2**63, 2**63 - 1)
    if ty == "d":
        return "d %d" % pick(DBL, 0, 2**64 - 1)
    if ty == "U":
        return "U %d" % pick(U64, 0, 2**64 - 1)
    if ty in ("c", "s"):
        return "%s %s" % (ty, hx(rnd_bytes(rng)))
    n = arr_len(rng)
    if ty == "ab":
        return " ".join(["ab"] + [str(rng.below(2)) for _ in range(n)])
    if ty == "ai":
        return " ".join(["ai"] + [str(pick(I32, -2**31, 2**31 - 1)) for _ in range(n)])
    if ty == "au":
        return " ".join(["au"] + [str(pick(U32, 0, 2**32 - 1)) for _ in range(n)])
    if ty == "al":
        return " ".join(["al"] + [str(pick(I64, -2**63, 2**63 - 1)) for _ in range(n)])
    if ty == "ad":
        return " ".join(["ad"] + [str(pick(DBL, 0, 2**64 - 1)) for _ in range(n)])
    if ty == "aU":
        return " ".join(["aU"] + [str(pick(U64, 0, 2**64 - 1)) for _ in range(n)])
    if ty == "a8":
        return " ".join(["a8"] + [str(rng.below(256)) for _ in range(n)])
    return " ".join(["as"] + [hx(rnd_bytes(rng)) for _ in range(min(n, 20))])


def rnd_key(rng, nkeys):
    return rng.choice(KEYS[:nkeys]) if rng.chance(9, 10) else bytes(rng.choice(b"ab\x00") for _ in range(rng.below(4)))


def rnd_attr(rng, nkeys, ty=None):
    return "%s %s" % (hx(rnd_key(rng, nkeys)), rnd_val(rng, ty))


def rnd_attrs(rng, nkeys):
    n = rng.choice([0, 0, 1, 1, 2, 3, 5]) if rng.chance(9, 10) else rng.choice([8, 20])
    return "".join(" ; " + rnd_attr(rng, nkeys) for _ in range(n))      # duplicate keys are likely


def rnd_ts(rng):
    return rng.choice([1, 2, 1000, 2**62 - 1, 1700000000 * 10**9, 10**9 + rng.below(10**9)])


def rnd_name(rng):
    return rng.choice(NAMES) if rng.chance(3, 4) else rnd_bytes(rng)


TS_HEADERS = [b"", b"", b"a=1", b"a=1,b=2", b"vendor@sys=x:y,k=v"]


def rnd_link(rng, nkeys):
    tid = rng.choice([bytes(16), rng.bytes(16), b"\x01" * 16])
    sid = rng.choice([bytes(8), rng.bytes(8)])
    return "LK %s %s %d %d %s%s" % (hx(tid), hx(sid), rng.choice([0, 1, 1, 3, 255]), rng.below(2), hx(rng.choice(TS_HEADERS)),
                                    rnd_attrs(rng, nkeys))


def rnd_op(rng, nkeys, weights):
    k = rng.choice(weights)
    if k == "SA":
        return "SA " + rnd_attr(rng, nkeys)
    if k == "EV":
        form = rng.below(4)
        nm = hx(rnd_name(rng))
        if form == 0:
            return "EV0 " + nm
        if form == 1:
            return "EVT %s %d" % (nm, rng.choice([0, rnd_ts(rng)]))
        if form == 2:
            return "EVA " + nm + rnd_attrs(rng, nkeys)
        return "EVTA %s %d%s" % (nm, rng.choice([0, rnd_ts(rng)]), rnd_attrs(rng, nkeys))
    if k == "SS":
        return "SS %d %s" % (rng.below(3), hx(rng.choice([b"", b"boom", b"d\x00e", b"x" * 40])))
    if k == "UN":
        return "UN " + hx(rnd_name(rng))
    if k == "END":
        return "END %d" % rng.choice([0, 0, rnd_ts(rng), 5, 2**62 - 1])
    return "IR"


W_BEFORE = ["SA"] * 8 + ["EV"] * 4 + ["SS"] * 2 + ["UN"] * 2 + ["IR"]
W_AFTER = ["SA"] * 3 + ["EV"] * 3 + ["SS"] * 2 + ["UN"] * 2 + ["END"] * 3 + ["IR"] * 2


def rnd_case(rng, shape=None):
    nkeys = rng.choice([2, 3, 4, len(KEYS)])
    np_ = rng.choice([1, 1, 2, 2, 2, 3, 3, 3, 4, 0]) if shape is None else shape
    kinds = [rng.choice(["S", "S", "B"]) for _ in range(np_)]
    sampled = 0 if rng.chance(1, 25) else 1
    scope = "SC %s %s %s" % (hx(rng.choice([b"lib", b"", b"l\x00b", b"my.library"])), hx(rng.choice([b"", b"1.2.3", b"v"])),
                             hx(rng.choice([b"", b"https://example/schema"])))
    res = "R" + "".join(" ; %s %s" % (hx(rng.choice([b"r.a", b"r.b", b"service.name", b""])), rnd_val(rng)) for _ in range(rng.below(4)))
    sys_t = rng.choice([0, 0, rnd_ts(rng)])
    steady_t = rng.choice([0, 0, rnd_ts(rng), 10])
    st = "ST %s %d %d %d%s" % (hx(rnd_name(rng)), rng.below(5), sys_t, steady_t, rnd_attrs(rng, nkeys) if rng.chance(1, 2) else "")
    secs = ["P" + "".join(" " + k for k in kinds), "SMP %d" % sampled, scope, res, st]
    for _ in range(rng.choice([0, 0, 0, 1, 2, 3])):
        secs.append(rnd_link(rng, nkeys))
    n_before = rng.choice([0, 1, 2, 3, 5, 8, 12, 20]) if rng.chance(19, 20) else 60
    for _ in range(n_before):
        secs.append(rnd_op(rng, nkeys, W_BEFORE))
    how = rng.below(10)
    if how >= 2:                                  # explicit End (else: ended by the destructor)
        secs.append("END %d" % rng.choice([0, 0, rnd_ts(rng), max(1, steady_t), min(steady_t + 1, 2**62 - 1), max(1, steady_t - 1)]))
        for _ in range(rng.choice([0, 0, 1, 2, 4, 8])):
            secs.append(rnd_op(rng, nkeys, W_AFTER))
    return " | ".join(secs)


def rnd_thread_op(rng, ti, nkeys):
    """an operation thread ti may issue concurrently with the other threads (coq/C04/Glue.v: thread_op_ok)"""
    pre = bytes([48 + ti])
    k = rng.below(10 if ti == 0 else 8)
    if k < 5:
        return "SA %s %s" % (hx(pre + rnd_key(rng, nkeys)), rnd_val(rng))
    if k < 8:
        form = rng.below(4)
        nm = hx(pre + rng.choice([b"", b"e", b"ev\x00"]))
        if form == 0:
            return "EV0 " + nm
        if form == 1:
            return "EVT %s %d" % (nm, rnd_ts(rng))
        if form == 2:
            return "EVA " + nm + "".join(" ; %s %s" % (hx(rnd_key(rng, nkeys)), rnd_val(rng)) for _ in range(rng.below(3)))
        return "EVTA %s %d%s" % (nm, rnd_ts(rng), "".join(" ; %s %s" % (hx(rnd_key(rng, nkeys)), rnd_val(rng)) for _ in range(rng.below(3))))
    return rnd_op(rng, nkeys, ["SS", "UN", "IR"])


def rnd_mt_case(rng, per_thread):
    """several threads hammer one span, then the main thread goes on sequentially"""
    nkeys = rng.choice([2, 3, 4])
    kinds = [rng.choice(["S", "S", "B"]) for _ in range(rng.choice([1, 2, 3]))]
    secs = ["P" + "".join(" " + k for k in kinds), "SMP 1", "SC x6c x x", "R",
            "ST %s %d 0 %d%s" % (hx(rnd_name(rng)), rng.below(5), rng.choice([0, 10]), rnd_attrs(rng, nkeys) if rng.chance(1, 2) else ""),
            "PAR"]
    for ti in range(rng.choice([2, 2, 3, 4])):
        secs.append("TH")
        for _ in range(per_thread // 2 + rng.below(per_thread)):
            secs.append(rnd_thread_op(rng, ti, nkeys))
    secs.append("SEQ")
    for _ in range(rng.below(4)):
        secs.append(rnd_op(rng, nkeys, W_BEFORE))
    if rng.chance(2, 3):
        secs.append("END %d" % rng.choice([0, rnd_ts(rng)]))
        for _ in range(rng.below(3)):
            secs.append(rnd_op(rng, nkeys, W_AFTER))
    return " | ".join(secs)


def directed(rng):
    """every value alternative once as span attribute, start attribute, event attribute, link attribute, overwritten and overwriting"""
    out = []
    types = ["b", "i", "u", "l", "d", "U", "c", "s", "ab", "ai", "au", "al", "ad", "aU", "a8", "as"]
    head = "P S B S | SMP 1 | SC x6c x x | R"
    for t1 in types:
        for t2 in types:
            out.append("%s | ST x6e 0 0 0 | SA x61 %s | SA x61 %s | SA x62 %s | END 0 | SA x61 %s" %
                       (head, rnd_val(rng, t1), rnd_val(rng, t2), rnd_val(rng, t1), rnd_val(rng, t2)))
        out.append("%s | ST x6e 1 7 9 ; x61 %s ; x61 %s | LK x%s x%s 1 1 x ; x6b %s | EVA x65 ; x61 %s ; x62 %s ; x61 %s | END 19 | END 29" %
                   (head, rnd_val(rng, t1), rnd_val(rng), "01" * 16, "02" * 8, rnd_val(rng, t1), rnd_val(rng, t1), rnd_val(rng), rnd_val(rng, t1)))
    # key order: prefixes, embedded NUL, high bytes
    out.append(head + " | ST x 0 0 0 | " + " | ".join("SA %s i %d" % (hx(k), i) for i, k in enumerate(KEYS)) + " | " +
               " | ".join("SA %s i %d" % (hx(k), 100 + i) for i, k in enumerate(reversed(KEYS))))
    # name / status / end variants
    for end in ("", " | END 0", " | END 50", " | END 50 | END 70", " | END 0 | END 70"):
        for steady in (0, 20):
            out.append("P S S | SMP 1 | SC x6c x31 x | R ; x72 s x76 | ST x6e30 2 0 %d | IR | UN x6e31 | SS 2 x65 | UN x6e32 | SS 1 x | IR%s | IR | UN x6e33 | SS 2 x6c61 | EV0 x65 | SA x61 i 1 | IR"
                       % (steady, end))
    for np_ in range(5):
        out.append("P" + " B" * np_ + " | SMP 1 | SC x6c x x | R | ST x6e 0 0 0 | SA x61 as x61 x x6200 | EV0 x65 | END 0")
        out.append("P" + " S" * np_ + " | SMP 0 | SC x6c x x | R | ST x6e 0 0 0 | SA x61 i 1 | IR | END 0 | IR")
    return out


def gen(rng, tier):
    n = 2600 if tier == "quick" else 48000
    cases = directed(rng)
    for _ in range(n):
        cases.append(rnd_case(rng))
    for i in range(150 if tier == "quick" else 2000):
        cases.append(rnd_mt_case(rng, rng.choice([4, 20, 60, 150])))
    return cases


def neighbours(rng, cases):
    out = []
    for c in cases:
        secs = c.split(" | ")
        # drop / duplicate single operations of the disagreeing case
        for i in range(5, len(secs)):
            out.append(" | ".join(secs[:i] + secs[i + 1:]))
        for _ in range(20):
            out.append(" | ".join(secs + [rnd_op(rng, 3, W_AFTER)]))
    return [c for c in out if " | ST " in c]


def shrink(case):
    """smaller candidates first (the runner keeps the first one that still fails): the configuration with fewer and
    fewer trailing operations, then the case with one operation removed, then with one attribute list emptied"""
    secs = case.split(" | ")
    head, rest = secs[:5], secs[5:]
    if "PAR" in rest:
        # threaded case: halve every thread
        out, cur = [], None
        groups = []
        for x in rest:
            groups.append(x)
        idx = [i for i, x in enumerate(rest) if x in ("TH", "SEQ")]
        for frac in (8, 4, 2):
            cand = []
            for a, b in zip([rest.index("PAR")] + idx, idx + [len(rest)]):
                seg = rest[a + 1:b]
                cand += [rest[a]] + (seg[:max(1, len(seg) // frac)] if rest[a] != "SEQ" else seg)
            yield " | ".join(head + cand)
        return
    for k in range(0, len(rest)):
        yield " | ".join(head + rest[:k])
        yield " | ".join(head + rest[:k] + ["END 0"])
    for i in range(len(rest)):
        yield " | ".join(head + rest[:i] + rest[i + 1:])
    for i, x in enumerate(secs):
        if " ; " in x:
            yield " | ".join(secs[:i] + [x.split(" ; ")[0]] + secs[i + 1:])


LEVEL_TEXT = ("Theorems in coq/Properties_C04.v about the Gallina model of sdk::trace::Span over MultiRecordable/SpanData/AttributeMap and of the "
              "caller's memory (views into a heap that is overwritten and freed between calls): the export is the fold of the operations before the "
              "first End, last write wins per key for every value alternative, events and links in call order, End latches, operations after End "
              "are inert and do not even read their arguments, every processor receives one identical copy exactly once, the export is independent "
              "of everything the caller does to its memory after each call, model_meets_spec; the model is tied to the C++ on every run by running "
              "the extracted model and the rebuilt ASan/UBSan driver on the same generated operation sequences (every caller buffer complemented and "
              "freed right after its call, exports dumped at the end) and by running the extracted SPEC on the implementation's outputs.")
LEVEL_NOTE = ("Trusted: Coq kernel, extraction, ocaml/driver.ml, the C++ driver, the generator; the model is hand-written (tied by correspondence, "
              "not verified against C++ semantics); absence of reads from dead caller memory is evidenced by sanitizers on the generated cases, "
              "and proved only for the model.")
