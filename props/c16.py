"""C16 - B3 (single / multi header) and Jaeger propagation.  Case generator and configuration."""
from tools.vlib import hx

ID = "C16"
LEVEL = "proof"
DRIVER = {"srcs": ["harness/c16_driver.cc"], "sdk": False}
TRIVIAL_TAGS = {"b3_empty", "j_empty", "rt_b3_single_invalid", "rt_b3_multi_invalid", "rt_jaeger_invalid"}
TRIVIAL_TAGS |= {"rtd_%s_invalid_%s" % (k, d) for k in ("b3_single", "b3_multi", "jaeger", "composite") for d in ("nospan", "dst_invalid", "dst_other", "dst_same_local", "dst_same_remote")}
ASSUMPTIONS = [
    "SpanContext objects handed to Inject are built by the driver from (16-byte trace id, 8-byte span id, flags byte, remote bit, "
    "TraceState::FromHeader(h)); the carrier is a std::map whose Get returns \"\" for an absent key (absent and empty headers are "
    "indistinguishable to the propagators, as for every TextMapCarrier in the repository)",
    "'never crashes or reads out of bounds' is evidenced by the ASan/UBSan build on the generated malformed stream (header values live in "
    "exact-size heap blocks without a terminating NUL), not by a theorem",
    "the 'documented variants' of the SPEC are the openzipkin b3-propagation formats (32/16 lower-hex trace id, 16 lower-hex span id, sampling "
    "state 0/1/d, optional parent id) and the Jaeger client-library format (trace-id:span-id:parent:flags, variable-length ids, 1-2 digit flags); "
    "the theorems cover the larger set the code accepts (any-case hex, 1..32 / 1..16 digits)",
]
TRUSTED = ["model coq/C16/Model.v (+ coq/C09/Model.v split_string/is_valid_hex, coq/Base/Bytes.v hex_to_binary) is hand-written; tied by this correspondence run"]

HEXL = b"0123456789abcdef"
MUT = [b"-", b":", b"g", b"G", b" ", b"\x00", b"\x80", b"\xff", b"0", b"1", b"f", b"F", b"/", b"@", b"`", b"\t", b"d", b"D", b"%"]
WS = [b" ", b"\t", b"\n", b"\r", b"\x0b", b"\x0c", b"\xa0", b"\x00", b"\x85"]


def rnd_hex(rng, n, upper=0):
    s = bytes(rng.choice(HEXL) for _ in range(n))
    if upper == 1:
        s = s.upper()
    elif upper == 2:
        s = bytes((c - 32 if 97 <= c <= 102 and rng.chance(1, 2) else c) for c in s)
    return s


def nz_hex(rng, n, upper=0):
    s = rnd_hex(rng, n, upper)
    if n and s.strip(b"0") == b"":
        s = s[:-1] + b"1"
    return s


def rnd_id(rng, n):
    k = rng.below(16)
    if k == 0:
        return bytes(n)
    if k == 1:
        b = bytearray(n); b[rng.below(n)] = 1 << rng.below(8); return bytes(b)
    if k == 2:
        b = bytearray(n); b[rng.choice([0, n - 1])] = rng.choice([0x01, 0x0f, 0x10, 0x0a, 0xa0, 0x80, 0xff]); return bytes(b)
    if k == 3:
        return b"\xff" * n
    if k == 4:   # high half zero (a 64-bit trace id inside a 128-bit one)
        return bytes(n // 2) + rng.bytes(n - n // 2)
    return rng.bytes(n)


def rnd_ts(rng):
    k = rng.below(6)
    if k < 3:
        return b""
    if k == 3:
        return b"a=1"
    if k == 4:
        return b"k1=v1,k2=v2"
    return b"bad header ,="


def rt(kind, tid, sid, f, remote, ts):
    return "RT %s %s %s %d %d %s" % (kind, hx(tid), hx(sid), f, remote, hx(ts))


def o(b):
    return "NONE" if b is None else hx(b)


def extb(b3, xt=None, xs=None, xf=None):
    return "EXT B %s %s %s %s" % (o(b3), o(xt), o(xs), o(xf))


def extj(h):
    return "EXT J %s" % o(h)


SAMPLING = [None, b"0", b"1", b"d"]
ODD_SAMPLING = [b"", b"D", b"true", b"false", b"2", b"01", b"1 ", b" 1", b"11", b"\x001", b"1\x00", b"-", b"dd", b"\xb1", b"1-", b"9", b"e", b"c"]
LENS_T = [0, 1, 2, 15, 16, 17, 30, 31, 32, 33, 34, 63, 64, 65]
LENS_S = [0, 1, 2, 7, 8, 14, 15, 16, 17, 18, 32]


def b3_single(t, s, smp=None, par=None):
    h = t + b"-" + s
    if smp is not None:
        h += b"-" + smp
        if par is not None:
            h += b"-" + par
    return h


def gen_rt(rng, n):
    cases = []
    for f in range(256):
        for kind in "SMJ":
            cases.append(rt(kind, rnd_id(rng, 16), rnd_id(rng, 8), f, rng.below(2), rnd_ts(rng)))
    for _ in range(150 * n):
        cases.append(rt(rng.choice("SMJ"), rnd_id(rng, 16), rnd_id(rng, 8), rng.below(256), rng.below(2), rnd_ts(rng)))
    # zero / non-zero id combinations with both decisions
    for kind in "SMJ":
        for tz in (0, 1):
            for sz in (0, 1):
                for f in (0, 1, 2, 0xfe, 0xff):
                    cases.append(rt(kind, bytes(16) if tz else rng.bytes(16), bytes(8) if sz else rng.bytes(8), f, 0, b""))
    return cases


def gen_b3(rng, n, thorough):
    cases = []
    # documented forms, every combination of trace id width, sampling state, parent; single, multi, both
    for _ in range(12 * n):
        for tl in (32, 16):
            for smp in SAMPLING:
                for par in (None, rnd_hex(rng, 16)):
                    up = rng.choice([0, 0, 0, 1, 2])
                    t, s = nz_hex(rng, tl, up), nz_hex(rng, 16, up)
                    cases.append(extb(b3_single(t, s, smp, par if smp is not None else None)))
                    cases.append(extb(None, t, s, smp))
                    # precedence: a (valid or invalid) single header next to different multi headers
                    t2, s2 = nz_hex(rng, rng.choice([32, 16])), nz_hex(rng, 16)
                    cases.append(extb(b3_single(t, s, smp), t2, s2, rng.choice(SAMPLING)))
    for _ in range(20 * n):
        t2, s2 = nz_hex(rng, 32), nz_hex(rng, 16)
        bad = rng.choice([b"0", b"1", b"d", b"-", b"x", b" ", b"\x00", nz_hex(rng, 32), nz_hex(rng, 32) + b"-", nz_hex(rng, 32) + b"-zz",
                          b"0" * 32 + b"-" + nz_hex(rng, 16), nz_hex(rng, 33) + b"-" + nz_hex(rng, 16)])
        cases.append(extb(bad, t2, s2, rng.choice(SAMPLING)))
        cases.append(extb(b"", t2, s2, rng.choice(SAMPLING)))      # present but empty b3: falls through to multi
    # sampling field variants
    for smp in SAMPLING[1:] + ODD_SAMPLING + [bytes([c]) for c in range(256)]:
        t, s = nz_hex(rng, rng.choice([32, 16])), nz_hex(rng, 16)
        cases.append(extb(b3_single(t, s, smp)))
        cases.append(extb(None, t, s, smp))
    # id lengths (odd, over-long, empty), zero ids of every length
    for lt in LENS_T:
        for ls in LENS_S:
            if rng.chance(1, 1 if thorough else 2):
                t, s = nz_hex(rng, lt, rng.below(3)), nz_hex(rng, ls, rng.below(3))
                smp = rng.choice(SAMPLING)
                cases.append(extb(b3_single(t, s, smp)))
                cases.append(extb(None, t, s, smp))
    for lt in range(0, 36):
        cases.append(extb(b3_single(b"0" * lt, nz_hex(rng, 16), b"1")))
        cases.append(extb(None, b"0" * lt, nz_hex(rng, 16), b"1"))
        cases.append(extb(b3_single(b"0" * max(0, lt - 1) + b"1", nz_hex(rng, 16), b"1")))
    for ls in range(0, 20):
        cases.append(extb(b3_single(nz_hex(rng, 32), b"0" * ls, b"1")))
        cases.append(extb(None, nz_hex(rng, 32), b"0" * ls, b"1"))
        cases.append(extb(None, nz_hex(rng, 32), b"0" * max(0, ls - 1) + b"1", b"1"))
    # separators: missing / extra / misplaced
    for _ in range(3 * n):
        t, s, p = nz_hex(rng, 32), nz_hex(rng, 16), rnd_hex(rng, 16)
        for h in (t, t + b"-", b"-" + t, b"-", b"--", b"---", b"-" + t + b"-" + s, t + b"--" + s, t + b"-" + s + b"-", t + b"-" + s + b"--",
                  t + b"-" + s + b"--" + p, t + b"-" + s + b"-1-", t + b"-" + s + b"-1-" + p + b"-x", t + b"-" + s + b"-1-" + p + b"-",
                  t + s, t + b":" + s + b":1", t + b"-" + s + b"-1" + p, t + b"-" + s + b"1", t + b"_" + s, t[:16] + b"-" + t[16:] + b"-" + s,
                  t + b"-" + s + b"-d-" + p, t + b"-" + s + b"-0-" + p, s + b"-" + t + b"-1"):
            cases.append(extb(h))
    # whitespace / non-ASCII / NUL around and inside (B3 does not trim)
    for _ in range(25 * n):
        t, s = nz_hex(rng, rng.choice([32, 16])), nz_hex(rng, 16)
        w = rng.choice(WS)
        smp = rng.choice(SAMPLING[1:])
        k = rng.below(8)
        if k == 0:
            cases.append(extb(w + b3_single(t, s, smp)))
        elif k == 1:
            cases.append(extb(b3_single(t, s, smp) + w))
        elif k == 2:
            cases.append(extb(b3_single(t + w, s, smp)))
        elif k == 3:
            cases.append(extb(b3_single(t, w + s, smp)))
        elif k == 4:
            cases.append(extb(None, w + t, s, smp))
        elif k == 5:
            cases.append(extb(None, t, s + w, smp))
        elif k == 6:
            cases.append(extb(None, t, s, smp + w))
        else:
            cases.append(extb(None, t, s, w + smp))
    for w in WS:
        cases.append(extb(w)); cases.append(extb(None, w, w, w)); cases.append(extb(w * 3, w))
    cases += [extb(None), extb(b""), extb(b"", b"", b"", b""), extb(None, None, None, b"1"), extb(None, nz_hex(rng, 32)),
              extb(None, None, nz_hex(rng, 16)), extb(None, nz_hex(rng, 32), None, b"1"), extb(None, None, nz_hex(rng, 16), b"1")]
    # every single-byte mutation class at every position of a documented header
    for _ in range(2 * n):
        base = b3_single(nz_hex(rng, rng.choice([32, 16])), nz_hex(rng, 16), rng.choice(SAMPLING[1:]), rng.choice([None, rnd_hex(rng, 16)]))
        xt, xs = nz_hex(rng, 32), nz_hex(rng, 16)
        for pos in range(len(base)):
            for m in (MUT if thorough else [rng.choice(MUT), rng.choice(MUT)]):
                cases.append(extb(base[:pos] + m + base[pos + 1:]))
        for pos in range(32):
            m = rng.choice(MUT)
            cases.append(extb(None, xt[:pos] + m + xt[pos + 1:], xs, b"1"))
        for pos in range(16):
            m = rng.choice(MUT)
            cases.append(extb(None, xt, xs[:pos] + m + xs[pos + 1:], b"1"))
        for l in range(0, len(base) + 1):
            cases.append(extb(base[:l]))
        for _ in range(20):
            pos = rng.below(len(base) + 1)
            cases.append(extb(base[:pos] + rng.choice(MUT) + base[pos:]))
            cases.append(extb(base[:pos] + base[pos + 1:]))
    # arbitrary bytes
    for _ in range(120 * n):
        l = rng.choice([1, 2, 3, 10, 33, 49, 50, 51, 52, 68, 100, rng.below(200)])
        alphabet = rng.choice([b"-0af1d", b"-0", bytes(range(256)), b"- \x000f", b"-:0123456789abcdefABCDEF"])
        h = bytes(rng.choice(alphabet) for _ in range(l))
        if rng.chance(1, 2):
            cases.append(extb(h))
        else:
            cases.append(extb(None, h, bytes(rng.choice(alphabet) for _ in range(rng.below(20))), bytes(rng.choice(alphabet) for _ in range(rng.below(3)))))
    return cases


def jg(t, s, p, f):
    return t + b":" + s + b":" + p + b":" + f


def gen_jaeger(rng, n, thorough):
    cases = []
    # every flags byte with two digits (lower and upper case), every single digit
    for v in range(256):
        for fl in ({b"%02x" % v, b"%02X" % v}):
            cases.append(extj(jg(nz_hex(rng, rng.choice([32, 16])), nz_hex(rng, 16), rng.choice([b"0", rnd_hex(rng, 16)]), fl)))
    for c in b"0123456789abcdefABCDEF":
        cases.append(extj(jg(nz_hex(rng, 32), nz_hex(rng, 16), b"0", bytes([c]))))
    # documented variable-length ids
    for lt in range(0, 36):
        cases.append(extj(jg(nz_hex(rng, lt, rng.below(3)), nz_hex(rng, 16), b"0", rng.choice([b"0", b"1", b"01", b"3"]))))
        cases.append(extj(jg(b"0" * lt, nz_hex(rng, 16), b"0", b"1")))
        cases.append(extj(jg(b"0" * max(0, lt - 1) + b"1", nz_hex(rng, 16), b"0", b"1")))
    for ls in range(0, 20):
        cases.append(extj(jg(nz_hex(rng, 32), nz_hex(rng, ls, rng.below(3)), b"0", rng.choice([b"0", b"1", b"01", b"3"]))))
        cases.append(extj(jg(nz_hex(rng, 32), b"0" * ls, b"0", b"1")))
        cases.append(extj(jg(nz_hex(rng, 32), b"0" * max(0, ls - 1) + b"1", b"0", b"1")))
    for lt in LENS_T:
        for ls in LENS_S:
            if rng.chance(1, 1 if thorough else 3):
                cases.append(extj(jg(nz_hex(rng, lt), nz_hex(rng, ls), rnd_hex(rng, rng.below(18)), rnd_hex(rng, rng.choice([0, 1, 2, 2, 3, 4])))))
    # flags field: empty, over-long, bad hex
    for fl in (b"", b"001", b"100", b"0001", b"g", b"1g", b" 1", b"1 ", b"\x00", b"1\x00", b"\x80", b"0x1", b"-1", b"+1", b"1:", b"1:2", b":1"):
        cases.append(extj(jg(nz_hex(rng, 32), nz_hex(rng, 16), b"0", fl)))
    # parent field: anything without a colon is ignored
    for p in (b"", b"0", b"zz", b" ", b"\x00\xff", rnd_hex(rng, 40), b"-", b"%3A"):
        cases.append(extj(jg(nz_hex(rng, 32), nz_hex(rng, 16), p, b"1")))
    # number of fields
    for _ in range(3 * n):
        t, s = nz_hex(rng, 32), nz_hex(rng, 16)
        for h in (t, t + b":", t + b":" + s, t + b":" + s + b":", t + b":" + s + b":0", t + b":" + s + b":0:", t + b":" + s + b"::1", t + b":" + s + b"::",
                  b":::", b"::::", b":", b"::", b":" + s + b":0:1", t + b"::0:1", t + b":" + s + b":0:1:extra", t + b":" + s + b":0:1:", t + b":" + s + b":0:0:1",
                  t + b"%3A" + s + b"%3A0%3A1", t + b"-" + s + b"-0-1", t + s + b":0:1", s + b":" + t + b":0:1", b":" + t + b":" + s + b":0:1"):
            cases.append(extj(h))
    # whitespace / non-ASCII / NUL
    for _ in range(25 * n):
        t, s = nz_hex(rng, rng.choice([32, 16])), nz_hex(rng, 16)
        w = rng.choice(WS)
        k = rng.below(6)
        fl = rng.choice([b"0", b"1", b"01", b"00"])
        cases.append(extj([jg(w + t, s, b"0", fl), jg(t + w, s, b"0", fl), jg(t, w + s, b"0", fl), jg(t, s + w, b"0", fl),
                           jg(t, s, b"0", w + fl), jg(t, s, b"0", fl + w)][k]))
    for w in WS:
        cases.append(extj(w)); cases.append(extj(w * 4)); cases.append(extj(jg(w, w, w, w)))
    cases += [extj(None), extj(b"")]
    # single-byte mutations at every position, truncations, insertions, deletions
    for _ in range(2 * n):
        base = jg(nz_hex(rng, rng.choice([32, 16, 31])), nz_hex(rng, rng.choice([16, 15])), rng.choice([b"0", rnd_hex(rng, 16)]), rng.choice([b"1", b"01", b"00", b"03"]))
        for pos in range(len(base)):
            for m in (MUT if thorough else [rng.choice(MUT), rng.choice(MUT)]):
                cases.append(extj(base[:pos] + m + base[pos + 1:]))
        for l in range(0, len(base) + 1):
            cases.append(extj(base[:l]))
        for _ in range(20):
            pos = rng.below(len(base) + 1)
            cases.append(extj(base[:pos] + rng.choice(MUT) + base[pos:]))
            cases.append(extj(base[:pos] + base[pos + 1:]))
    # arbitrary bytes
    for _ in range(120 * n):
        l = rng.choice([1, 2, 3, 10, 53, 54, 55, 100, rng.below(200)])
        alphabet = rng.choice([b":0af1", b":0", bytes(range(256)), b": \x000f", b"-:0123456789abcdefABCDEF"])
        cases.append(extj(bytes(rng.choice(alphabet) for _ in range(l))))
    return cases


def gen_overlong(rng, n):
    """id fields that are over-long (by 1, by a few, by many), empty or not hex, next to a good other id: nothing may be installed"""
    cases = []
    for _ in range(6 * n):
        for extra in (1, 2, 3, 8, 16, 32, 100):
            gt, gs = nz_hex(rng, rng.choice([32, 16, 1, 31]), rng.below(3)), nz_hex(rng, rng.choice([16, 1, 15]), rng.below(3))
            lt, ls = nz_hex(rng, 32 + extra, rng.below(3)), nz_hex(rng, 16 + extra, rng.below(3))
            smp = rng.choice(SAMPLING)
            for t, s in ((lt, gs), (gt, ls), (lt, ls)):
                cases.append(extb(b3_single(t, s, smp)))
                cases.append(extb(None, t, s, smp))
                cases.append(extj(jg(t, s, b"0", rng.choice([b"0", b"1", b"01"]))))
            # a good context extracted just before, so that stale buffers would hold plausible ids
            cases.append(extb(b3_single(nz_hex(rng, 32), nz_hex(rng, 16), b"1")))
            cases.append(extb(b3_single(lt, gs, smp), gt, gs, b"1"))
    for bad in (b"", b"g", b"0g", b" 1", b"1 ", b"\x00", b"-", b":", b"0x1"):
        g16, g32 = nz_hex(rng, 16), nz_hex(rng, 32)
        cases += [extb(b3_single(bad, g16, b"1")), extb(b3_single(g32, bad, b"1")), extb(None, bad, g16, b"1"), extb(None, g32, bad, b"1"),
                  extj(jg(bad, g16, b"0", b"1")), extj(jg(g32, bad, b"0", b"1"))]
    return cases


def ctx5(tid, sid, f, remote, ts):
    return "%s %s %d %d %s" % (hx(tid), hx(sid), f, remote, hx(ts))


def rtd(kind, c, d, nkeys):
    return "RTD %s %s %s %d" % (kind, ctx5(*c), "NOSPAN" if d is None else "SPAN " + ctx5(*d), nkeys)


def flip(b, i, bit=1):
    b = bytearray(b); b[i] ^= bit; return bytes(b)


def gen_rtd(rng, n):
    """inject, then extract into a destination Context that is not empty: a span equal to the injected one (local / remote),
    differing in exactly one field, invalid, absent; unrelated values that must survive"""
    cases = []
    flagset = [0, 1, 2, 3, 0x80, 0x81, 0xfe, 0xff]
    for kind in "SMJC":
        for f in flagset + [rng.below(256) for _ in range(2 * n)]:
            tid, sid = rng.bytes(15) + b"\x01", rng.bytes(7) + b"\x01"
            ts = rng.choice([b"", b"a=1"])
            for remote in (0, 1):
                c = (tid, sid, f, remote, ts)
                dests = [None,
                         (tid, sid, f, 0, ts), (tid, sid, f, 1, ts),                                   # the very same identity, local / remote
                         (tid, sid, f, 0, b"k=v"), (tid, sid, f, 0, b""),                              # other trace state
                         (flip(tid, rng.below(16), 1 << rng.below(8)), sid, f, 0, ts),                 # one field differs
                         (tid, flip(sid, rng.below(8), 1 << rng.below(8)), f, 0, ts),
                         (tid, sid, f ^ 1, 0, ts), (tid, sid, f ^ (2 << rng.below(7)), 0, ts),
                         (bytes(16), bytes(8), 0, 0, b""), (tid, bytes(8), f, 0, b""), (bytes(16), sid, f, 0, b""),   # invalid span
                         (rng.bytes(16), rng.bytes(8), rng.below(256), rng.below(2), b"")]
                for d in dests:
                    cases.append(rtd(kind, c, d, rng.choice([0, 1, 2, 3, 9])))
        # nothing injected (invalid context): the destination comes back as it is
        for c in ((bytes(16), rng.bytes(8), 1, 0, b""), (rng.bytes(16), bytes(8), 1, 0, b""), (bytes(16), bytes(8), 0, 0, b"")):
            for d in (None, (rng.bytes(16), rng.bytes(8), 1, 0, b""), (bytes(16), bytes(8), 0, 0, b""), (c[0], c[1], c[2], 0, b"")):
                cases.append(rtd(kind, c, d, rng.choice([0, 2])))
    return cases


def gen(rng, tier):
    thorough = tier != "quick"
    n = 12 if thorough else 1
    return gen_rt(rng, n) + gen_rtd(rng, n) + gen_overlong(rng, n) + gen_b3(rng, n, thorough) + gen_jaeger(rng, n, thorough)


def _unx(t):
    return None if t == "NONE" else bytes.fromhex(t[1:])


def neighbours(rng, cases):
    out = []
    for c in cases:
        t = c.split()
        if t[0] == "EXT":
            hs = [_unx(x) for x in t[2:]]
            for _ in range(80):
                i = rng.below(len(hs))
                b = hs[i]
                if not b:
                    continue
                pos = rng.below(len(b))
                k = rng.below(3)
                nb = b[:pos] + rng.choice(MUT) + b[pos + 1:] if k == 0 else (b[:pos] + b[pos + 1:] if k == 1 else b[:pos] + rng.choice(MUT) + b[pos:])
                hs2 = list(hs); hs2[i] = nb
                out.append("EXT %s %s" % (t[1], " ".join(o(x) for x in hs2)))
        elif t[0] == "RTD":
            for kind in "SMJC":
                for f in (0, 1, 2, 255):
                    out.append(" ".join([t[0], kind, t[2], t[3], str(f)] + t[5:]))
        elif t[0] == "RT":
            for f in range(256):
                out.append(" ".join([t[0], t[1], t[2], t[3], str(f)] + t[5:]))
            for kind in "SMJ":
                out.append(" ".join([t[0], kind] + t[2:]))
    return out


def shrink(case):
    t = case.split()
    if t[0] == "EXT":
        hs = [_unx(x) for x in t[2:]]
        for i, b in enumerate(hs):
            if b is None:
                continue
            for cand in [None, b""] + [b[:pos] + b[pos + 1:] for pos in range(len(b))][:60]:
                hs2 = list(hs); hs2[i] = cand
                yield "EXT %s %s" % (t[1], " ".join(o(x) for x in hs2))
    elif t[0] == "RTD":
        if t[-1] != "0":
            yield " ".join(t[:-1] + ["0"])
        if t[6] != "x":
            yield " ".join(t[:6] + ["x"] + t[7:])
        if t[7] == "SPAN" and t[12] != "x":
            yield " ".join(t[:12] + ["x"] + t[13:])
    elif t[0] == "RT":
        f = int(t[4])
        for bit in range(8):
            if f & (1 << bit) and f != (1 << bit):
                yield " ".join(t[:4] + [str(1 << bit)] + t[5:])
        if t[6] != "x":
            yield " ".join(t[:6] + ["x"])


LEVEL_TEXT = ("Theorems in coq/Properties_C16.v about the Gallina model of B3Propagator, B3PropagatorMultiHeader, B3PropagatorExtractor and "
              "JaegerPropagator (inject/extract round trip of ids and sampled decision for every valid context and every flags byte; acceptance of "
              "every documented B3/Jaeger variant incl. left-padded short ids, 'd', missing sampling field, single header over multi; for every "
              "byte string in every header the result is either 'caller's context unchanged' or a context with non-zero ids); the model is tied "
              "to the C++ on every run by running the extracted model and the rebuilt ASan/UBSan driver on the same generated headers and by "
              "running the extracted SPEC on the implementation's outputs.")
LEVEL_NOTE = ("Trusted: Coq kernel, extraction, ocaml/driver.ml, the C++ driver, the generator, tools/extract_consts.py; the model is hand-written "
              "(tied by correspondence, not verified against C++ semantics); memory safety is evidenced by sanitizers, not proved.")
