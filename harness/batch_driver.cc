// Driver for C01/C02/C03: the real BatchSpanProcessor / BatchLogRecordProcessor (scratch copies compiled against
// the scheduler shim, tools/shimcopy.py) under the schedule given in the case.  Prints "<summary> || <event trace>".
//
// case  BATCH <span|log> <Q> <B> <delay_ms> <latency> <fail_mask> | t op.. | t op.. | s <tid> <flag> ...
//   Q = max_queue_size, B = max_export_batch_size, delay_ms = schedule delay, latency = scheduling points inside each
//   exporter Export call, fail_mask = bit i set -> the i-th exporter Export call reports failure, bit 20 -> exporter
//   ForceFlush returns false, bit 21 -> exporter Shutdown returns false.
//   Thread 0 is the processor's worker (spawned by the constructor).  Each "t" section is one application thread
//   (tids 1..n in order); ops:  e = OnEnd/OnEmit of one new record (id = tid*1000 + k, k = 1,2,..),
//   f <timeout_us> = ForceFlush (0 = the default "max" time-out), h <timeout_us> = Shutdown.
//   Thread n+1 joins all application threads and destroys the processor (the destructor shuts down if nobody did).
// events (besides the shim's own): call onend id / ret onend id, call flush / ret flush r, call shutdown / ret shutdown r,
//   expbegin id.. / expend r, expflush r, expshutdown r, buf add id r, buf size n, buf empty e, buf consume n,
//   call destroy / ret destroy.
// summary: X <ids in the order the exporter received them> B <batch sizes> F <flush results in the order the calls returned>
//          H <shutdown results> S <number of exporter Shutdown calls>   (leaks / double frees: ASan + LeakSanitizer)
#include <memory>
#include <unistd.h>
#include <set>

#include "sched/bufproxy.h"
#include "sched/sched_driver.h"

// the simple processors' spin lock and shutdown latch are private: name them for the trace
#define private public
#define protected public
#include "opentelemetry/common/spin_lock_mutex.h"
#include "opentelemetry/sdk/logs/simple_log_record_processor.h"
#include "opentelemetry/sdk/metrics/export/periodic_exporting_metric_reader.h"
#include "opentelemetry/sdk/metrics/metric_reader.h"
#include "opentelemetry/sdk/trace/simple_processor.h"
#undef protected
#undef private
#include "opentelemetry/sdk/metrics/export/metric_producer.h"
#include "opentelemetry/sdk/metrics/export/periodic_exporting_metric_reader_options.h"
#include "opentelemetry/sdk/metrics/push_metric_exporter.h"

#include "opentelemetry/sdk/logs/batch_log_record_processor.h"
#include "opentelemetry/sdk/logs/batch_log_record_processor_options.h"
#include "opentelemetry/sdk/logs/exporter.h"
#include "opentelemetry/sdk/logs/read_write_log_record.h"
#include "opentelemetry/sdk/trace/batch_span_processor.h"
#include "opentelemetry/sdk/trace/batch_span_processor_options.h"
#include "opentelemetry/sdk/trace/exporter.h"
#include "opentelemetry/sdk/trace/span_data.h"
#include "opentelemetry/sdk/common/global_log_handler.h"
#include "opentelemetry/sdk/logs/logger_provider.h"
#include "opentelemetry/sdk/logs/processor.h"
#include "opentelemetry/sdk/metrics/meter_provider.h"
#include "opentelemetry/sdk/metrics/metric_reader.h"
#include "opentelemetry/sdk/trace/processor.h"
#include "opentelemetry/sdk/trace/tracer_provider.h"

using namespace verif;
namespace sdktrace = opentelemetry::sdk::trace;
namespace sdklogs  = opentelemetry::sdk::logs;
namespace sdkcommon = opentelemetry::sdk::common;

namespace
{
struct Shared
{
  std::vector<long long> exported;
  std::vector<int> batches;
  int export_calls = 0, shutdown_calls = 0;
  int latency = 0;
  unsigned long fail_mask = 0;
};

// recordables: the SDK's own (final) classes; the record id travels in the span name / the log event id
using SpanRec = sdktrace::SpanData;
using LogRec  = sdklogs::ReadWriteLogRecord;
inline long long rec_id(const SpanRec *r) { return std::strtoll(std::string(r->GetName()).c_str(), nullptr, 10); }
inline long long rec_id(const LogRec *r) { return (long long)r->GetEventId(); }
inline SpanRec *new_span(long long id)
{
  auto *r = new SpanRec();
  r->SetName(std::to_string(id));
  return r;
}
inline LogRec *new_log(long long id)
{
  auto *r = new LogRec();
  r->SetEventId((int64_t)id, "");
  return r;
}

template <class Rec, class Base>
sdkcommon::ExportResult do_export(Shared &sh, const opentelemetry::nostd::span<std::unique_ptr<Base>> &recs)
{
  Sched &S = Sched::I();
  std::string ev = "expbegin";
  for (auto &r : recs)
  {
    long long id = r ? rec_id(static_cast<Rec *>(r.get())) : 0;
    ev += " " + std::to_string(id);
    sh.exported.push_back(id);
  }
  sh.batches.push_back((int)recs.size());
  S.log(ev);
  for (int i = 0; i < sh.latency; i++) verif::this_thread::yield();
  bool fail = (sh.fail_mask >> (sh.export_calls % 20)) & 1;
  sh.export_calls++;
  S.log(std::string("expend ") + (fail ? "0" : "1"));
  return fail ? sdkcommon::ExportResult::kFailure : sdkcommon::ExportResult::kSuccess;
}

struct SpanExp : sdktrace::SpanExporter
{
  Shared &sh;
  explicit SpanExp(Shared &s) : sh(s) {}
  std::unique_ptr<sdktrace::Recordable> MakeRecordable() noexcept override { return std::unique_ptr<sdktrace::Recordable>(new_span(0)); }
  sdkcommon::ExportResult Export(const opentelemetry::nostd::span<std::unique_ptr<sdktrace::Recordable>> &spans) noexcept override
  {
    return do_export<SpanRec, sdktrace::Recordable>(sh, spans);
  }
  bool ForceFlush(std::chrono::microseconds) noexcept override
  {
    bool r = !((sh.fail_mask >> 20) & 1);
    Sched::I().log(std::string("expflush ") + (r ? "1" : "0"));
    return r;
  }
  bool Shutdown(std::chrono::microseconds) noexcept override
  {
    sh.shutdown_calls++;
    bool r = !((sh.fail_mask >> 21) & 1);
    Sched::I().log(std::string("expshutdown ") + (r ? "1" : "0"));
    return r;
  }
};
struct LogExp : sdklogs::LogRecordExporter
{
  Shared &sh;
  explicit LogExp(Shared &s) : sh(s) {}
  std::unique_ptr<sdklogs::Recordable> MakeRecordable() noexcept override { return std::unique_ptr<sdklogs::Recordable>(new_log(0)); }
  sdkcommon::ExportResult Export(const opentelemetry::nostd::span<std::unique_ptr<sdklogs::Recordable>> &recs) noexcept override
  {
    return do_export<LogRec, sdklogs::Recordable>(sh, recs);
  }
  bool ForceFlush(std::chrono::microseconds) noexcept override
  {
    bool r = !((sh.fail_mask >> 20) & 1);
    Sched::I().log(std::string("expflush ") + (r ? "1" : "0"));
    return r;
  }
  bool Shutdown(std::chrono::microseconds) noexcept override
  {
    sh.shutdown_calls++;
    bool r = !((sh.fail_mask >> 21) & 1);
    Sched::I().log(std::string("expshutdown ") + (r ? "1" : "0"));
    return r;
  }
};

struct SpanProc : sdktrace::BatchSpanProcessor
{
  using sdktrace::BatchSpanProcessor::BatchSpanProcessor;
  void name_objects()
  {
    Sched &S = Sched::I();
    auto *d  = synchronization_data_.get();
    S.name(&d->is_shutdown, "is_shutdown");
    S.name(&d->force_flush_pending_sequence, "pending");
    S.name(&d->force_flush_notified_sequence, "notified");
    S.name(&d->is_force_wakeup_background_worker, "wake");
    S.name(&d->force_flush_timeout_us, "timeout_us");
    S.name(&d->cv, "cv");
    S.name(&d->force_flush_cv, "ff_cv");
    S.name(&d->cv_m, "cv_m");
    S.name(&d->force_flush_cv_m, "ff_m");
    S.name(&d->shutdown_m, "shutdown_m");
  }
  void emit(long long id) { OnEnd(std::unique_ptr<sdktrace::Recordable>(new_span(id))); }
};
struct LogProc : sdklogs::BatchLogRecordProcessor
{
  using sdklogs::BatchLogRecordProcessor::BatchLogRecordProcessor;
  void name_objects()
  {
    Sched &S = Sched::I();
    auto *d  = synchronization_data_.get();
    S.name(&d->is_shutdown, "is_shutdown");
    S.name(&d->force_flush_pending_sequence, "pending");
    S.name(&d->force_flush_notified_sequence, "notified");
    S.name(&d->is_force_wakeup_background_worker, "wake");
    S.name(&d->force_flush_timeout_us, "timeout_us");
    S.name(&d->cv, "cv");
    S.name(&d->force_flush_cv, "ff_cv");
    S.name(&d->cv_m, "cv_m");
    S.name(&d->force_flush_cv_m, "ff_m");
    S.name(&d->shutdown_m, "shutdown_m");
  }
  void emit(long long id) { OnEmit(std::unique_ptr<sdklogs::Recordable>(new_log(id))); }
};

template <class Proc, class Exp, class Opt, class ExpBase>
void run_batch(const std::vector<std::vector<Tok>> &secs, bool is_span, Out &o)
{
  const auto &h = secs[0];
  Sched &S      = Sched::I();
  S.reset();
  S.ptr_id = [is_span](const void *p) -> long long {
    if (!p) return 0;
    if (is_span) return rec_id(static_cast<const SpanRec *>(static_cast<const sdktrace::Recordable *>(p)));
    return rec_id(static_cast<const LogRec *>(static_cast<const sdklogs::Recordable *>(p)));
  };
  Shared sh;
  Opt opt;
  opt.max_queue_size        = (size_t)h[2].as_ull();
  opt.max_export_batch_size = (size_t)h[3].as_ull();
  opt.schedule_delay_millis = std::chrono::milliseconds(h[4].as_ll());
  sh.latency                = (int)h[5].as_ll();
  sh.fail_mask              = (unsigned long)h[6].as_ull();
  std::vector<std::vector<Tok>> scripts;
  for (size_t i = 1; i < secs.size(); i++)
  {
    if (secs[i].empty()) continue;
    if (secs[i][0].is_tag("t"))
      scripts.emplace_back(secs[i].begin() + 1, secs[i].end());
    else if (secs[i][0].is_tag("s"))
      S.set_schedule(parse_schedule(std::vector<Tok>(secs[i].begin() + 1, secs[i].end())));
  }
  // the constructor spawns the worker: logical thread 0
  Proc *proc = new Proc(std::unique_ptr<ExpBase>(new Exp(sh)), opt);
  proc->name_objects();
  std::vector<int> fres, hres;   // in the order the calls returned
  std::vector<int> app_tids;
  for (size_t t = 0; t < scripts.size(); t++)
  {
    int tid = S.spawn([&, t] {
      int me = Sched::self(), k = 0;
      const auto &sc = scripts[t];
      for (size_t i = 0; i < sc.size(); i++)
      {
        if (sc[i].is_tag("e"))
        {
          long long id = (long long)me * 1000 + (++k);
          S.log("call onend " + std::to_string(id));
          proc->emit(id);
          S.log("ret onend " + std::to_string(id));
        }
        else if (sc[i].is_tag("f") && i + 1 < sc.size())
        {
          long long us = sc[++i].as_ll();
          S.log("call flush");
          bool r = us > 0 ? proc->ForceFlush(std::chrono::microseconds(us)) : proc->ForceFlush();
          S.log(std::string("ret flush ") + (r ? "1" : "0"));
          fres.push_back(r);
        }
        else if (sc[i].is_tag("h") && i + 1 < sc.size())
        {
          long long us = sc[++i].as_ll();
          S.log("call shutdown");
          bool r = us > 0 ? proc->Shutdown(std::chrono::microseconds(us)) : proc->Shutdown();
          S.log(std::string("ret shutdown ") + (r ? "1" : "0"));
          hres.push_back(r);
        }
      }
    });
    app_tids.push_back(tid);
  }
  S.spawn([&] {
    for (int tid : app_tids)
    {
      Pending p;
      p.kind   = P_JOIN;
      p.target = tid;
      S.point(p);
    }
    S.log("call destroy");
    delete proc;
    S.log("ret destroy");
  });
  S.run_all();
  o.tag("X");
  for (auto id : sh.exported) o.num(id);
  o.tag("B");
  for (int b : sh.batches) o.num(b);
  o.tag("F");
  for (int r : fres) o.num(r);
  o.tag("H");
  for (int r : hres) o.num(r);
  o.tag("S").num(sh.shutdown_calls);
  o.tag("||");
  o.add(S.log_line());
}


// ------------------------------------------------------------------------------------------------ SIMPLE
// case  SIMPLE <span|log> <latency> <fail_mask> | t op.. | t op.. | s <tid> <flag> ...
//   SimpleSpanProcessor / SimpleLogRecordProcessor called from several threads (tids 0..n-1, one per "t" section);
//   ops: e = OnEnd/OnEmit of one new record (id = (tid+1)*1000 + k), f = ForceFlush, h = Shutdown.
//   The processor is destroyed by the controller after all threads have finished.
//   events: call onend id / ret onend id, the spin lock's operations on "flag" (xchg/ld/st, yield, sleep),
//   expbegin id / expend r, call flush / expflush r / ret flush r, call shutdown / tas latch old | xchg is_shutdown 1 old /
//   expshutdown r / ret shutdown r.   summary: X <ids in exporter order> S <exporter Shutdown calls>
template <class Proc, class Exp, class ExpBase, class Namer, class Emit>
void run_simple(const std::vector<std::vector<Tok>> &secs, bool is_span, Out &o, Namer namer, Emit emit)
{
  const auto &h = secs[0];
  Sched &S      = Sched::I();
  S.reset();
  Shared sh;
  sh.latency   = (int)h[2].as_ll();
  sh.fail_mask = (unsigned long)h[3].as_ull();
  std::vector<std::vector<Tok>> scripts;
  for (size_t i = 1; i < secs.size(); i++)
  {
    if (secs[i].empty()) continue;
    if (secs[i][0].is_tag("t"))
      scripts.emplace_back(secs[i].begin() + 1, secs[i].end());
    else if (secs[i][0].is_tag("s"))
      S.set_schedule(parse_schedule(std::vector<Tok>(secs[i].begin() + 1, secs[i].end())));
  }
  Proc *proc = new Proc(std::unique_ptr<ExpBase>(new Exp(sh)));
  namer(proc);
  for (size_t t = 0; t < scripts.size(); t++)
  {
    S.spawn([&, t] {
      int me = Sched::self(), k = 0;
      const auto &sc = scripts[t];
      for (size_t i = 0; i < sc.size(); i++)
      {
        if (sc[i].is_tag("e"))
        {
          long long id = (long long)(me + 1) * 1000 + (++k);
          S.log("call onend " + std::to_string(id));
          emit(proc, id);
          S.log("ret onend " + std::to_string(id));
        }
        else if (sc[i].is_tag("f"))
        {
          S.log("call flush");
          bool r = proc->ForceFlush();
          S.log(std::string("ret flush ") + (r ? "1" : "0"));
        }
        else if (sc[i].is_tag("h"))
        {
          S.log("call shutdown");
          bool r = proc->Shutdown();
          S.log(std::string("ret shutdown ") + (r ? "1" : "0"));
        }
      }
    });
  }
  S.set_step_limit(50000);
  S.run_all();
  S.log("call destroy");
  delete proc;
  S.log("ret destroy");
  o.tag("X");
  for (auto id : sh.exported) o.num(id);
  o.tag("S").num(sh.shutdown_calls);
  o.tag("||");
  o.add(S.log_line());
  (void)is_span;
}


// ------------------------------------------------------------------------------------------------ PERIODIC
// case  PERIODIC <interval_ms> <timeout_ms> <collect_latency> <export_latency> <fail_mask> | t op.. | s <tid> <flag> ..
//   PeriodicExportingMetricReader over a harness MetricProducer and PushMetricExporter.  Thread 0 = the reader's periodic
//   worker (started by SetMetricProducer); application threads are tids 1..n; the collect threads the worker spawns get the
//   following tids.  ops: r = record one measurement (the producer reports how many were recorded when it is asked),
//   f <timeout_us> = reader.ForceFlush, h = reader.Shutdown.  The last thread joins the others, shuts the reader down if nobody did.
//   events: rec n, call flush / ret flush r, call shutdown / ret shutdown r, collect n (Produce: n = measurements recorded so far),
//   expbegin n / expend r (Export of a collection that saw n measurements), expflush r, expshutdown r, spawn k, join k, setvalue,
//   fut ready|timeout, and the shim's events on pending / notified / wake / shutdown / the per-cycle cancel flag (unnamed: o<k>).
//   summary: X <n of every Export, in order> S <exporter Shutdown calls>
namespace sdkmetrics = opentelemetry::sdk::metrics;
struct PShared
{
  int recorded = 0, collect_latency = 0, export_latency = 0, shutdown_calls = 0, export_calls = 0;
  unsigned long fail_mask = 0;
  std::vector<int> exported;
  int last_collected = 0;
};
struct PProducer : sdkmetrics::MetricProducer
{
  PShared &sh;
  explicit PProducer(PShared &s) : sh(s) {}
  Result Produce() noexcept override
  {
    for (int i = 0; i < sh.collect_latency; i++) verif::this_thread::yield();
    int n = sh.recorded;
    Sched::I().log("collect " + std::to_string(n));
    Result r;
    r.status_ = Status::kSuccess;
    // the number of measurements travels in the number of (empty) scope entries
    r.points_.scope_metric_data_.resize((size_t)n);
    return r;
  }
};
struct PExporter : sdkmetrics::PushMetricExporter
{
  PShared &sh;
  explicit PExporter(PShared &s) : sh(s) {}
  sdkcommon::ExportResult Export(const sdkmetrics::ResourceMetrics &data) noexcept override
  {
    int n = (int)data.scope_metric_data_.size();
    sh.exported.push_back(n);
    Sched::I().log("expbegin " + std::to_string(n));
    for (int i = 0; i < sh.export_latency; i++) verif::this_thread::yield();
    bool fail = (sh.fail_mask >> (sh.export_calls % 20)) & 1;
    sh.export_calls++;
    Sched::I().log(std::string("expend ") + (fail ? "0" : "1"));
    return fail ? sdkcommon::ExportResult::kFailure : sdkcommon::ExportResult::kSuccess;
  }
  sdkmetrics::AggregationTemporality GetAggregationTemporality(sdkmetrics::InstrumentType) const noexcept override
  {
    return sdkmetrics::AggregationTemporality::kCumulative;
  }
  bool ForceFlush(std::chrono::microseconds) noexcept override
  {
    bool r = !((sh.fail_mask >> 20) & 1);
    Sched::I().log(std::string("expflush ") + (r ? "1" : "0"));
    return r;
  }
  bool Shutdown(std::chrono::microseconds) noexcept override
  {
    sh.shutdown_calls++;
    bool r = !((sh.fail_mask >> 21) & 1);
    Sched::I().log(std::string("expshutdown ") + (r ? "1" : "0"));
    return r;
  }
};

void run_periodic(const std::vector<std::vector<Tok>> &secs, Out &o)
{
  const auto &h = secs[0];
  Sched &S      = Sched::I();
  S.reset();
  PShared sh;
  sdkmetrics::PeriodicExportingMetricReaderOptions opt;
  opt.export_interval_millis = std::chrono::milliseconds(h[1].as_ll());
  opt.export_timeout_millis  = std::chrono::milliseconds(h[2].as_ll());
  sh.collect_latency         = (int)h[3].as_ll();
  sh.export_latency          = (int)h[4].as_ll();
  sh.fail_mask               = (unsigned long)h[5].as_ull();
  std::vector<std::vector<Tok>> scripts;
  for (size_t i = 1; i < secs.size(); i++)
  {
    if (secs[i].empty()) continue;
    if (secs[i][0].is_tag("t"))
      scripts.emplace_back(secs[i].begin() + 1, secs[i].end());
    else if (secs[i][0].is_tag("s"))
      S.set_schedule(parse_schedule(std::vector<Tok>(secs[i].begin() + 1, secs[i].end())));
  }
  PProducer producer(sh);
  auto *reader = new sdkmetrics::PeriodicExportingMetricReader(std::unique_ptr<sdkmetrics::PushMetricExporter>(new PExporter(sh)), opt);
  S.name(&reader->force_flush_pending_sequence_, "pending");
  S.name(&reader->force_flush_notified_sequence_, "notified");
  S.name(&reader->is_force_wakeup_background_worker_, "wake");
  S.name(&reader->shutdown_, "shutdown");
  S.name(&reader->cv_, "cv");
  S.name(&reader->force_flush_cv_, "ff_cv");
  S.name(&reader->cv_m_, "cv_m");
  S.name(&reader->force_flush_m_, "ff_m");
  reader->SetMetricProducer(&producer);  // OnInitialized: spawns the worker = logical thread 0
  std::vector<int> app_tids;
  bool shut = false;
  for (size_t t = 0; t < scripts.size(); t++)
  {
    int tid = S.spawn([&, t] {
      const auto &sc = scripts[t];
      for (size_t i = 0; i < sc.size(); i++)
      {
        if (sc[i].is_tag("r"))
        {
          Sched::I().point(Pending{});
          sh.recorded++;
          S.log("rec " + std::to_string(sh.recorded));
        }
        else if (sc[i].is_tag("f") && i + 1 < sc.size())
        {
          long long us = sc[++i].as_ll();
          S.log("call flush");
          bool r = us > 0 ? reader->ForceFlush(std::chrono::microseconds(us)) : reader->ForceFlush();
          S.log(std::string("ret flush ") + (r ? "1" : "0"));
        }
        else if (sc[i].is_tag("h"))
        {
          S.log("call shutdown");
          shut   = true;
          bool r = reader->Shutdown();
          S.log(std::string("ret shutdown ") + (r ? "1" : "0"));
        }
      }
    });
    app_tids.push_back(tid);
  }
  S.spawn([&] {
    for (int tid : app_tids)
    {
      Pending p;
      p.kind   = P_JOIN;
      p.target = tid;
      S.point(p);
    }
    if (!shut)
    {
      S.log("call shutdown");
      bool r = reader->Shutdown();
      S.log(std::string("ret shutdown ") + (r ? "1" : "0"));
    }
  });
  S.set_step_limit(100000);
  S.run_all();
  delete reader;
  o.tag("X");
  for (int n : sh.exported) o.num(n);
  o.tag("S").num(sh.shutdown_calls);
  o.tag("||");
  o.add(S.log_line());
}

// ------------------------------------------------------------------------------------------------ COMPOSE
// case  COMPOSE <trace|logs|metrics> | c <flushmask> <shutmask> | c .. | o <f|h> ..
//   one "c" section per child (a SpanProcessor / LogRecordProcessor / MetricReader whose k-th ForceFlush resp. Shutdown
//   call returns bit k of the mask, k counted from 0 and taken modulo 16); "o" = the provider-level calls, in order
//   (f = ForceFlush, h = Shutdown; ft / ht = the same with a 500 us timeout while every child call takes 1.5 ms, so the
//   caller's budget is used up after the first child); the provider is destroyed at the end ("d").  Everything is sequential.
//   output (no event trace):  for each provider call  "f"|"h"|"d"  then for every child call made during it
//   "<child> f|h <result>", then for f/h "= <provider result>".
struct ChildScript
{
  unsigned long fm = 0, hm = 0;
  int nf = 0, nh = 0;
};
struct ComposeLog
{
  std::vector<ChildScript> ch;
  Out *o = nullptr;
  bool slow = false;  // inside an "ft"/"ht" call: every child call outlasts the caller's whole timeout
  void delay()
  {
    if (slow) ::usleep(1500);
  }
  bool flush(int i)
  {
    delay();
    bool r = (ch[i].fm >> (ch[i].nf++ % 16)) & 1;
    o->num(i).tag("f").num(r);
    return r;
  }
  bool shut(int i)
  {
    delay();
    bool r = (ch[i].hm >> (ch[i].nh++ % 16)) & 1;
    o->num(i).tag("h").num(r);
    return r;
  }
};
struct ChildSpanProc : sdktrace::SpanProcessor
{
  ComposeLog &L;
  int i;
  ChildSpanProc(ComposeLog &l, int idx) : L(l), i(idx) {}
  std::unique_ptr<sdktrace::Recordable> MakeRecordable() noexcept override { return std::unique_ptr<sdktrace::Recordable>(new sdktrace::SpanData()); }
  void OnStart(sdktrace::Recordable &, const opentelemetry::trace::SpanContext &) noexcept override {}
  void OnEnd(std::unique_ptr<sdktrace::Recordable> &&) noexcept override {}
  bool ForceFlush(std::chrono::microseconds) noexcept override { return L.flush(i); }
  bool Shutdown(std::chrono::microseconds) noexcept override { return L.shut(i); }
};
struct ChildLogProc : sdklogs::LogRecordProcessor
{
  ComposeLog &L;
  int i;
  ChildLogProc(ComposeLog &l, int idx) : L(l), i(idx) {}
  std::unique_ptr<sdklogs::Recordable> MakeRecordable() noexcept override { return std::unique_ptr<sdklogs::Recordable>(new sdklogs::ReadWriteLogRecord()); }
  void OnEmit(std::unique_ptr<sdklogs::Recordable> &&) noexcept override {}
  bool ForceFlush(std::chrono::microseconds) noexcept override { return L.flush(i); }
  bool Shutdown(std::chrono::microseconds) noexcept override { return L.shut(i); }
};
struct ChildReader : opentelemetry::sdk::metrics::MetricReader
{
  ComposeLog &L;
  int i;
  ChildReader(ComposeLog &l, int idx) : L(l), i(idx) {}
  opentelemetry::sdk::metrics::AggregationTemporality GetAggregationTemporality(
      opentelemetry::sdk::metrics::InstrumentType) const noexcept override
  {
    return opentelemetry::sdk::metrics::AggregationTemporality::kCumulative;
  }
  bool OnForceFlush(std::chrono::microseconds) noexcept override { return L.flush(i); }
  bool OnShutDown(std::chrono::microseconds) noexcept override { return L.shut(i); }
};

void run_compose(const std::vector<std::vector<Tok>> &secs, Out &o)
{
  ComposeLog L;
  L.o = &o;
  std::vector<Tok> ops;
  for (size_t i = 1; i < secs.size(); i++)
  {
    if (secs[i].empty()) continue;
    if (secs[i][0].is_tag("c") && secs[i].size() >= 3)
    {
      ChildScript c;
      c.fm = (unsigned long)secs[i][1].as_ull();
      c.hm = (unsigned long)secs[i][2].as_ull();
      L.ch.push_back(c);
    }
    else if (secs[i][0].is_tag("o"))
      ops.assign(secs[i].begin() + 1, secs[i].end());
  }
  const Tok &kind = secs[0][1];
  int n           = (int)L.ch.size();
  std::function<bool()> do_flush, do_shut, do_flush_t, do_shut_t;
  std::function<void()> do_destroy;
  const std::chrono::microseconds short_timeout(500);
  std::unique_ptr<sdktrace::TracerProvider> tp;
  std::unique_ptr<sdklogs::LoggerProvider> lp;
  std::unique_ptr<opentelemetry::sdk::metrics::MeterProvider> mp;
  if (kind.is_tag("trace"))
  {
    std::vector<std::unique_ptr<sdktrace::SpanProcessor>> v;
    for (int i = 0; i < n; i++) v.emplace_back(new ChildSpanProc(L, i));
    tp.reset(new sdktrace::TracerProvider(std::move(v)));
    do_flush   = [&] { return tp->ForceFlush(); };
    do_shut    = [&] { return tp->Shutdown(); };
    do_flush_t = [&] { return tp->ForceFlush(short_timeout); };
    do_shut_t  = [&] { return tp->Shutdown(short_timeout); };
    do_destroy = [&] { tp.reset(); };
  }
  else if (kind.is_tag("logs"))
  {
    std::vector<std::unique_ptr<sdklogs::LogRecordProcessor>> v;
    for (int i = 0; i < n; i++) v.emplace_back(new ChildLogProc(L, i));
    lp.reset(new sdklogs::LoggerProvider(std::move(v)));
    do_flush   = [&] { return lp->ForceFlush(); };
    do_shut    = [&] { return lp->Shutdown(); };
    do_flush_t = [&] { return lp->ForceFlush(short_timeout); };
    do_shut_t  = [&] { return lp->Shutdown(short_timeout); };
    do_destroy = [&] { lp.reset(); };
  }
  else
  {
    mp.reset(new opentelemetry::sdk::metrics::MeterProvider());
    for (int i = 0; i < n; i++) mp->AddMetricReader(std::shared_ptr<opentelemetry::sdk::metrics::MetricReader>(new ChildReader(L, i)));
    do_flush   = [&] { return mp->ForceFlush(); };
    do_shut    = [&] { return mp->Shutdown(); };
    do_flush_t = [&] { return mp->ForceFlush(short_timeout); };
    do_shut_t  = [&] { return mp->Shutdown(short_timeout); };
    do_destroy = [&] { mp.reset(); };
  }
  for (auto &t : ops)
  {
    if (t.is_tag("f"))
    {
      o.tag("f");
      bool r = do_flush();
      o.tag("=").num(r);
    }
    else if (t.is_tag("h"))
    {
      o.tag("h");
      bool r = do_shut();
      o.tag("=").num(r);
    }
    else if (t.is_tag("ft") || t.is_tag("ht"))
    {
      bool fl = t.is_tag("ft");
      o.tag(fl ? "f" : "h");
      L.slow = true;
      bool r = fl ? do_flush_t() : do_shut_t();
      L.slow = false;
      o.tag("=").num(r);
    }
  }
  o.tag("d");
  do_destroy();
  o.tag("||");
}
}  // namespace

int main(int argc, char **argv)
{
  // the SDK's internal warnings ("queue is full - dropping span") go to stdout by default
  opentelemetry::sdk::common::internal_log::GlobalLogHandler::SetLogLevel(opentelemetry::sdk::common::internal_log::LogLevel::None);
  return run_cases_forked(argc, argv, [](const std::vector<Tok> &t, Out &o) {
    auto secs = split_toks(t, "|");
    if (t.size() >= 6 && t[0].is_tag("PERIODIC") && secs[0].size() >= 6)
    {
      run_periodic(secs, o);
      return;
    }
    if (t.size() >= 4 && t[0].is_tag("SIMPLE") && secs[0].size() >= 4)
    {
      if (t[1].is_tag("span"))
        run_simple<sdktrace::SimpleSpanProcessor, SpanExp, sdktrace::SpanExporter>(
            secs, true, o,
            [](sdktrace::SimpleSpanProcessor *p) {
              Sched::I().name(&p->lock_.flag_, "flag");
              Sched::I().name(&p->shutdown_latch_, "latch");
            },
            [](sdktrace::SimpleSpanProcessor *p, long long id) { p->OnEnd(std::unique_ptr<sdktrace::Recordable>(new_span(id))); });
      else
        run_simple<sdklogs::SimpleLogRecordProcessor, LogExp, sdklogs::LogRecordExporter>(
            secs, false, o,
            [](sdklogs::SimpleLogRecordProcessor *p) {
              Sched::I().name(&p->lock_.flag_, "flag");
              Sched::I().name(&p->is_shutdown_, "is_shutdown");
            },
            [](sdklogs::SimpleLogRecordProcessor *p, long long id) { p->OnEmit(std::unique_ptr<sdklogs::Recordable>(new_log(id))); });
      return;
    }
    if (t.size() >= 2 && t[0].is_tag("COMPOSE") && secs[0].size() >= 2)
    {
      run_compose(secs, o);
      return;
    }
    if (t.size() < 7 || !t[0].is_tag("BATCH") || secs[0].size() < 7)
    {
      o.tag("BADCASE");
      return;
    }
    if (t[1].is_tag("span"))
      run_batch<SpanProc, SpanExp, sdktrace::BatchSpanProcessorOptions, sdktrace::SpanExporter>(secs, true, o);
    else if (t[1].is_tag("log"))
      run_batch<LogProc, LogExp, sdklogs::BatchLogRecordProcessorOptions, sdklogs::LogRecordExporter>(secs, false, o);
    else
      o.tag("BADCASE");
  });
}
