// C16 driver: B3 (single / multi header) and Jaeger Inject / Extract through the public propagator API.
//   RT  <S|M|J> x<tid16> x<sid8> <flags> <remote> x<tracestate header>   inject into an empty carrier, extract from it
//   EXT B <b3> <X-B3-TraceId> <X-B3-SpanId> <X-B3-Sampled>               x<bytes> or NONE (header absent)
//   EXT J <uber-trace-id>
//   RTD <S|M|J|C> <ctx: 5 tokens> (SPAN <ctx: 5 tokens> | NOSPAN) <nkeys>   inject ctx into an empty carrier, extract into a
//       destination Context holding nkeys unrelated int64 values ("verif.k<i>" = 100+i) and, for SPAN, that span;
//       C = CompositePropagator{B3Propagator, B3PropagatorMultiHeader, JaegerPropagator}
#include <map>
#include <memory>
#include "opentelemetry/context/context.h"
#include "opentelemetry/context/propagation/composite_propagator.h"
#include "opentelemetry/context/propagation/text_map_propagator.h"
#include "opentelemetry/trace/context.h"
#include "opentelemetry/trace/default_span.h"
#include "opentelemetry/trace/propagation/b3_propagator.h"
#include "opentelemetry/trace/propagation/jaeger.h"
#include "opentelemetry/trace/span_context.h"
#include "opentelemetry/trace/trace_state.h"
#include "common/verif_io.h"

namespace nostd   = opentelemetry::nostd;
namespace trace   = opentelemetry::trace;
namespace context = opentelemetry::context;
using verif::Out;
using verif::Tok;

// carrier whose values live in exact-size heap blocks (no NUL after the last byte), so that any read past
// size() - e.g. treating a header value as a C string - is an ASan error
class Carrier : public context::propagation::TextMapCarrier
{
public:
  std::map<std::string, std::unique_ptr<verif::ExactBuf>> h;
  nostd::string_view Get(nostd::string_view key) const noexcept override
  {
    auto it = h.find(std::string(key.data(), key.size()));
    if (it == h.end()) return "";
    return nostd::string_view(it->second->p, it->second->n);
  }
  void Set(nostd::string_view key, nostd::string_view value) noexcept override
  {
    h[std::string(key.data(), key.size())].reset(new verif::ExactBuf(std::string(value.data(), value.size())));
  }
};

static trace::SpanContext make_ctx(const std::vector<Tok> &t, size_t i)
{
  trace::TraceId tid(nostd::span<const uint8_t, 16>(reinterpret_cast<const uint8_t *>(t[i].s.data()), 16));
  trace::SpanId sid(nostd::span<const uint8_t, 8>(reinterpret_cast<const uint8_t *>(t[i + 1].s.data()), 8));
  verif::ExactBuf tsh(t[i + 4].s);
  auto ts = trace::TraceState::FromHeader(nostd::string_view(tsh.p, tsh.n));
  return trace::SpanContext(tid, sid, trace::TraceFlags(uint8_t(t[i + 2].as_ll())), t[i + 3].as_ll() == 1, ts);
}

static void print_extract(context::propagation::TextMapPropagator &prop, Carrier &c, Out &o)
{
  // the caller's context holds a sentinel span so that "returned unchanged" is observable
  nostd::shared_ptr<trace::Span> sentinel{new trace::DefaultSpan(trace::SpanContext::GetInvalid())};
  context::Context root;
  context::Context in  = trace::SetSpan(root, sentinel);
  context::Context out = prop.Extract(c, in);
  auto sp              = trace::GetSpan(out);
  auto sc              = sp->GetContext();
  if (sp.get() == sentinel.get())
  {
    o.tag("INVALID").boolean(out == in);
    return;
  }
  // a span was installed: report it as it is (zero ids included - the SPEC judges them)
  char tid[16], sid[8];
  sc.trace_id().CopyBytesTo(nostd::span<uint8_t, 16>(reinterpret_cast<uint8_t *>(tid), 16));
  sc.span_id().CopyBytesTo(nostd::span<uint8_t, 8>(reinterpret_cast<uint8_t *>(sid), 8));
  o.tag("OK").bytes(tid, 16).bytes(sid, 8).num(sc.trace_flags().flags()).boolean(sc.IsRemote())
      .bytes(sc.trace_state()->ToHeader());
}

static void print_span(const trace::SpanContext &sc, Out &o)
{
  char tid[16], sid[8];
  sc.trace_id().CopyBytesTo(nostd::span<uint8_t, 16>(reinterpret_cast<uint8_t *>(tid), 16));
  sc.span_id().CopyBytesTo(nostd::span<uint8_t, 8>(reinterpret_cast<uint8_t *>(sid), 8));
  o.tag("OK").bytes(tid, 16).bytes(sid, 8).num(sc.trace_flags().flags()).boolean(sc.IsRemote())
      .bytes(sc.trace_state()->ToHeader());
}

static bool is_ctx(const std::vector<Tok> &t, size_t i)
{
  return i + 5 <= t.size() && t[i].kind == Tok::BYTES && t[i].s.size() == 16 && t[i + 1].kind == Tok::BYTES &&
         t[i + 1].s.size() == 8 && t[i + 2].kind == Tok::INT && t[i + 3].kind == Tok::INT && t[i + 4].kind == Tok::BYTES;
}

// Extract into a destination context that holds nkeys unrelated values and possibly a span of its own
static void print_extract_into(context::propagation::TextMapPropagator &prop, Carrier &c, const trace::SpanContext *dst, int nkeys,
                               Out &o)
{
  context::Context in;
  for (int i = 1; i <= nkeys; i++) in = in.SetValue("verif.k" + std::to_string(i), int64_t(100 + i));
  nostd::shared_ptr<trace::Span> own;
  if (dst)
  {
    own = nostd::shared_ptr<trace::Span>(new trace::DefaultSpan(*dst));
    in  = trace::SetSpan(in, own);
  }
  context::Context out = prop.Extract(c, in);
  int intact           = 0;
  for (int i = 1; i <= nkeys; i++)
  {
    auto v = out.GetValue("verif.k" + std::to_string(i));
    if (nostd::holds_alternative<int64_t>(v) && nostd::get<int64_t>(v) == 100 + i) intact++;
  }
  o.tag("K").num(intact);
  bool untouched;
  nostd::shared_ptr<trace::Span> sp;
  if (dst)
  {
    sp        = trace::GetSpan(out);
    untouched = sp.get() == own.get();
  }
  else
  {
    untouched = !out.HasKey(trace::kSpanKey);
    if (!untouched) sp = trace::GetSpan(out);
  }
  if (untouched) o.tag("INVALID").boolean(out == in);
  else print_span(sp->GetContext(), o);
}

static void inject(context::propagation::TextMapPropagator &prop, const trace::SpanContext &sc, Carrier &c)
{
  nostd::shared_ptr<trace::Span> sp{new trace::DefaultSpan(sc)};
  context::Context root;
  context::Context ctx = trace::SetSpan(root, sp);
  prop.Inject(c, ctx);
}

static void dump(const Carrier &c, Out &o)
{
  o.tag(";");
  if (c.h.empty()) { o.tag("NOHDR"); return; }
  o.tag("H");
  for (auto &kv : c.h) o.bytes(kv.first).bytes(kv.second->p, kv.second->n);
}

static bool bytes_or_none(const Tok &t) { return t.kind == Tok::BYTES || t.is_tag("NONE"); }

int main(int argc, char **argv)
{
  return verif::run_cases(argc, argv, [](const std::vector<Tok> &t, Out &o) {
    // everything printed for earlier cases is on its way before this one runs, so that a sanitizer abort
    // is attributed to the right case line
    std::cout.flush();
    trace::propagation::B3Propagator b3s;
    trace::propagation::B3PropagatorMultiHeader b3m;
    trace::propagation::JaegerPropagator jg;
    if (t.size() == 7 && t[0].is_tag("RT") && t[2].kind == Tok::BYTES && t[2].s.size() == 16 && t[3].kind == Tok::BYTES &&
        t[3].s.size() == 8 && t[4].kind == Tok::INT && t[5].kind == Tok::INT && t[6].kind == Tok::BYTES)
    {
      context::propagation::TextMapPropagator *p =
          t[1].is_tag("S") ? static_cast<context::propagation::TextMapPropagator *>(&b3s)
          : t[1].is_tag("M") ? static_cast<context::propagation::TextMapPropagator *>(&b3m)
          : t[1].is_tag("J") ? static_cast<context::propagation::TextMapPropagator *>(&jg) : nullptr;
      if (!p) { o.tag("BADCASE"); return; }
      Carrier c;
      inject(*p, make_ctx(t, 2), c);
      print_extract(*p, c, o);
      dump(c, o);
    }
    else if (t.size() >= 9 && t[0].is_tag("RTD") && is_ctx(t, 2) &&
             ((t.size() == 9 && t[7].is_tag("NOSPAN")) || (t.size() == 14 && t[7].is_tag("SPAN") && is_ctx(t, 8))) &&
             t.back().kind == Tok::INT && t.back().as_ll() >= 0 && t.back().as_ll() <= 9)
    {
      std::vector<std::unique_ptr<context::propagation::TextMapPropagator>> members;
      members.emplace_back(new trace::propagation::B3Propagator());
      members.emplace_back(new trace::propagation::B3PropagatorMultiHeader());
      members.emplace_back(new trace::propagation::JaegerPropagator());
      context::propagation::CompositePropagator comp(std::move(members));
      context::propagation::TextMapPropagator *p =
          t[1].is_tag("S") ? static_cast<context::propagation::TextMapPropagator *>(&b3s)
          : t[1].is_tag("M") ? static_cast<context::propagation::TextMapPropagator *>(&b3m)
          : t[1].is_tag("J") ? static_cast<context::propagation::TextMapPropagator *>(&jg)
          : t[1].is_tag("C") ? static_cast<context::propagation::TextMapPropagator *>(&comp) : nullptr;
      if (!p) { o.tag("BADCASE"); return; }
      Carrier c;
      inject(*p, make_ctx(t, 2), c);
      if (t.size() == 14)
      {
        trace::SpanContext dst = make_ctx(t, 8);
        print_extract_into(*p, c, &dst, int(t.back().as_ll()), o);
      }
      else print_extract_into(*p, c, nullptr, int(t.back().as_ll()), o);
      dump(c, o);
    }
    else if (t.size() == 6 && t[0].is_tag("EXT") && t[1].is_tag("B") && bytes_or_none(t[2]) && bytes_or_none(t[3]) &&
             bytes_or_none(t[4]) && bytes_or_none(t[5]))
    {
      Carrier c;
      static const char *names[4] = {"b3", "X-B3-TraceId", "X-B3-SpanId", "X-B3-Sampled"};
      for (int i = 0; i < 4; i++)
        if (t[2 + i].kind == Tok::BYTES) c.Set(names[i], t[2 + i].s);
      // the multi-header class shares the extractor; alternate so both entry points are exercised
      if (t[2].kind == Tok::BYTES) print_extract(b3s, c, o); else print_extract(b3m, c, o);
    }
    else if (t.size() == 3 && t[0].is_tag("EXT") && t[1].is_tag("J") && bytes_or_none(t[2]))
    {
      Carrier c;
      if (t[2].kind == Tok::BYTES) c.Set("uber-trace-id", t[2].s);
      print_extract(jg, c, o);
    }
    else o.tag("BADCASE");
  });
}
