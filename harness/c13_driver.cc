// C13 driver: a real LoggerProvider (MultiLogRecordProcessor fan-out) in front of harness exporters, real
// loggers (scope configurator), spans made active through a real TracerProvider / trace::Scope / the runtime
// context on up to three threads, records emitted through every entry point of logs::Logger, caller buffers
// OVERWRITTEN (never freed) by MU operations; deferred exporters read what they kept when the case is over.
// Case format and operation semantics: coq/C13/Glue.v, coq/C13/Model.v.
//
// exporter kinds   I  SimpleLogRecordProcessor, Export renders the record at once
//                  K  SimpleLogRecordProcessor, Export keeps the recordable (rendered at the end of the case)
//                  B  BatchLogRecordProcessor (real worker thread) in front of a keeping exporter
//                  P  as K, the recordable wraps a ReadWriteLogRecord and counts the SDK-internal setter calls
//                  Q1..Q4  BatchLogRecordProcessor with max_export_batch_size 1..4 (queue 64) in front of an exporter that only
//                     READS what it is handed (renders every record of the span, takes nothing out): a record handed over twice
//                     is seen twice.  During a burst (BU) its Export is held back until the last Emit returned, so that the
//                     queue holds the whole burst when the worker's export cycles run; then ForceFlush / provider Shutdown.
// Attribute keys and event names live in exact-size heap blocks that are FREED right after the call (ASan).
#include "opentelemetry/sdk/common/global_log_handler.h"
#include <algorithm>
#include <chrono>
#include <condition_variable>
#include <cstring>
#include <functional>
#include <map>
#include <memory>
#include <mutex>
#include <string>
#include <thread>
#include <utility>
#include <vector>

#include "opentelemetry/common/attribute_value.h"
#include "opentelemetry/common/key_value_iterable_view.h"
#include "opentelemetry/common/timestamp.h"
#include "opentelemetry/context/context.h"
#include "opentelemetry/context/runtime_context.h"
#include "opentelemetry/logs/event_id.h"
#include "opentelemetry/logs/log_record.h"
#include "opentelemetry/logs/logger.h"
#include "opentelemetry/logs/logger_type_traits.h"
#include "opentelemetry/logs/severity.h"
#include "opentelemetry/sdk/instrumentationscope/instrumentation_scope.h"
#include "opentelemetry/sdk/instrumentationscope/scope_configurator.h"
#include "opentelemetry/sdk/logs/batch_log_record_processor.h"
#include "opentelemetry/sdk/logs/batch_log_record_processor_options.h"
#include "opentelemetry/sdk/logs/exporter.h"
#include "opentelemetry/sdk/logs/logger.h"
#include "opentelemetry/sdk/logs/logger_config.h"
#include "opentelemetry/sdk/logs/logger_provider.h"
#include "opentelemetry/sdk/logs/processor.h"
#include "opentelemetry/sdk/logs/read_write_log_record.h"
#include "opentelemetry/sdk/logs/recordable.h"
#include "opentelemetry/sdk/logs/simple_log_record_processor.h"
#include "opentelemetry/sdk/resource/resource.h"
#include "opentelemetry/sdk/trace/id_generator.h"
#include "opentelemetry/sdk/trace/processor.h"
#include "opentelemetry/sdk/trace/sampler.h"
#include "opentelemetry/sdk/trace/span_data.h"
#include "opentelemetry/sdk/trace/tracer_provider.h"
#include "opentelemetry/trace/default_span.h"
#include "opentelemetry/trace/scope.h"
#include "opentelemetry/trace/span_context.h"
#include "opentelemetry/trace/span_metadata.h"
#include "opentelemetry/trace/span_startoptions.h"
#include "opentelemetry/trace/tracer.h"
#include "common/verif_io.h"

namespace nostd   = opentelemetry::nostd;
namespace common  = opentelemetry::common;
namespace context = opentelemetry::context;
namespace logs    = opentelemetry::logs;
namespace trace   = opentelemetry::trace;
namespace lsdk    = opentelemetry::sdk::logs;
namespace tsdk    = opentelemetry::sdk::trace;
namespace scope   = opentelemetry::sdk::instrumentationscope;
namespace rsdk    = opentelemetry::sdk::resource;
using verif::ExactBuf;
using verif::Out;
using verif::Tok;
typedef std::vector<Tok> Toks;
typedef std::vector<std::pair<nostd::string_view, common::AttributeValue>> KvVec;

static nostd::string_view sv(const ExactBuf &b) { return nostd::string_view(b.p, b.n); }

// ------------------------------------------------------------------ caller memory
struct Buf
{
  char tag   = 0;   // b c z v
  char akind = 0;   // for z: b i l u d U y
  size_t n   = 0;
  void *p    = nullptr;
  std::vector<std::pair<size_t, size_t>> views;   // for v, as given (resolved once all buffers exist)
  ~Buf()
  {
    if (!p) return;
    if (tag == 'b' || tag == 'c') delete[] static_cast<char *>(p);
    else if (tag == 'v') delete[] static_cast<nostd::string_view *>(p);
    else switch (akind)
    {
      case 'b': delete[] static_cast<bool *>(p); break;
      case 'i': delete[] static_cast<int32_t *>(p); break;
      case 'l': delete[] static_cast<int64_t *>(p); break;
      case 'u': delete[] static_cast<uint32_t *>(p); break;
      case 'd': delete[] static_cast<double *>(p); break;
      case 'U': delete[] static_cast<uint64_t *>(p); break;
      case 'y': delete[] static_cast<uint8_t *>(p); break;
    }
  }
};
typedef std::vector<std::unique_ptr<Buf>> Heap;

static bool is_akind(const Tok &t) { return t.kind == Tok::TAG && t.s.size() == 1 && std::strchr("biludUy", t.s[0]); }

template <class T>
static void fill(T *a, const Toks &t, size_t from, size_t n)
{
  for (size_t i = 0; i < n; i++) a[i] = static_cast<T>(t[from + i].as_ll());
}
static void fill_z(Buf &b, const Toks &t, size_t from)
{
  switch (b.akind)
  {
    case 'b': { bool *a = static_cast<bool *>(b.p); for (size_t i = 0; i < b.n; i++) a[i] = t[from + i].as_ll() != 0; break; }
    case 'i': fill(static_cast<int32_t *>(b.p), t, from, b.n); break;
    case 'l': fill(static_cast<int64_t *>(b.p), t, from, b.n); break;
    case 'u': fill(static_cast<uint32_t *>(b.p), t, from, b.n); break;
    case 'y': fill(static_cast<uint8_t *>(b.p), t, from, b.n); break;
    case 'U': { uint64_t *a = static_cast<uint64_t *>(b.p); for (size_t i = 0; i < b.n; i++) a[i] = t[from + i].as_ull(); break; }
    case 'd': { double *a = static_cast<double *>(b.p); for (size_t i = 0; i < b.n; i++) { uint64_t u = t[from + i].as_ull(); std::memcpy(&a[i], &u, 8); } break; }
  }
}

// parse "hb x.." | "hc x.." | "hz k z.." | "hv a l .." ; allocates (views unresolved)
static std::unique_ptr<Buf> parse_buf(const Toks &t, size_t from)
{
  std::unique_ptr<Buf> b(new Buf());
  size_t n = t.size() - from;
  if (n == 2 && (t[from].is_tag("hb") || t[from].is_tag("hc")) && t[from + 1].kind == Tok::BYTES)
  {
    const std::string &s = t[from + 1].s;
    b->tag = t[from].is_tag("hb") ? 'b' : 'c';
    b->n   = s.size();
    size_t alloc = b->tag == 'c' ? s.size() + 1 : (s.size() ? s.size() : 1);
    char *p = new char[alloc];
    std::memcpy(p, s.data(), s.size());
    if (b->tag == 'c') p[s.size()] = 0;
    b->p = p;
    return b;
  }
  if (n >= 2 && t[from].is_tag("hz") && is_akind(t[from + 1]))
  {
    b->tag = 'z'; b->akind = t[from + 1].s[0]; b->n = n - 2;
    for (size_t i = from + 2; i < t.size(); i++) if (t[i].kind != Tok::INT) return nullptr;
    size_t a = b->n ? b->n : 1;
    switch (b->akind)
    {
      case 'b': b->p = new bool[a]; break;
      case 'i': b->p = new int32_t[a]; break;
      case 'l': b->p = new int64_t[a]; break;
      case 'u': b->p = new uint32_t[a]; break;
      case 'd': b->p = new double[a]; break;
      case 'U': b->p = new uint64_t[a]; break;
      case 'y': b->p = new uint8_t[a]; break;
    }
    fill_z(*b, t, from + 2);
    return b;
  }
  if (n >= 1 && t[from].is_tag("hv") && (n - 1) % 2 == 0)
  {
    b->tag = 'v'; b->n = (n - 1) / 2;
    for (size_t i = from + 1; i < t.size(); i++) if (t[i].kind != Tok::INT) return nullptr;
    for (size_t i = 0; i < b->n; i++) b->views.emplace_back(t[from + 1 + 2 * i].as_ull(), t[from + 2 + 2 * i].as_ull());
    b->p = new nostd::string_view[b->n ? b->n : 1];
    return b;
  }
  return nullptr;
}

static bool view_ok(const Heap &h, size_t a, size_t len)
{
  return a < h.size() && (h[a]->tag == 'b' || h[a]->tag == 'c') && len <= h[a]->n;
}
static bool views_ok(const Heap &h, const Buf &b)
{
  for (auto &v : b.views) if (!view_ok(h, v.first, v.second)) return false;
  return true;
}
static void resolve_views(const Heap &h, Buf &b)
{
  nostd::string_view *a = static_cast<nostd::string_view *>(b.p);
  for (size_t i = 0; i < b.n; i++) a[i] = nostd::string_view(static_cast<char *>(h[b.views[i].first]->p), b.views[i].second);
}

// ------------------------------------------------------------------ values
// parses one aval at t[i...], advances i; ok=false when the reference is not valid storage (model: arg_ok)
static bool parse_aval(const Toks &t, size_t &i, const Heap &h, common::AttributeValue &out, bool &ok, char &shape)
{
  if (i + 1 >= t.size() || t[i].kind != Tok::TAG) return false;
  const std::string &k = t[i].s;
  auto num = [&](size_t j) { return j < t.size() && t[j].kind == Tok::INT; };
  shape = 'x';
  if (k == "b" && num(i + 1)) { out = t[i + 1].as_ll() != 0; i += 2; return true; }
  if (k == "i" && num(i + 1)) { out = static_cast<int32_t>(t[i + 1].as_ll()); i += 2; return true; }
  if (k == "l" && num(i + 1)) { out = static_cast<int64_t>(t[i + 1].as_ll()); i += 2; return true; }
  if (k == "u" && num(i + 1)) { out = static_cast<uint32_t>(t[i + 1].as_ll()); i += 2; return true; }
  if (k == "U" && num(i + 1)) { out = static_cast<uint64_t>(t[i + 1].as_ull()); i += 2; return true; }
  if (k == "d" && num(i + 1)) { uint64_t u = t[i + 1].as_ull(); double d; std::memcpy(&d, &u, 8); out = d; i += 2; return true; }
  if (k == "c" && num(i + 1))
  {
    size_t a = t[i + 1].as_ull(); i += 2; shape = 'c';
    if (a < h.size() && h[a]->tag == 'c') out = static_cast<const char *>(h[a]->p); else ok = false;
    return true;
  }
  if (k == "s" && num(i + 1) && num(i + 2))
  {
    size_t a = t[i + 1].as_ull(), len = t[i + 2].as_ull(); i += 3; shape = 's';
    if (view_ok(h, a, len)) out = nostd::string_view(static_cast<char *>(h[a]->p), len); else ok = false;
    return true;
  }
  if (k == "S" && num(i + 1) && num(i + 2))
  {
    size_t a = t[i + 1].as_ull(), len = t[i + 2].as_ull(); i += 3;
    if (a < h.size() && h[a]->tag == 'v' && len <= h[a]->n)
      out = nostd::span<const nostd::string_view>(static_cast<nostd::string_view *>(h[a]->p), len);
    else ok = false;
    return true;
  }
  if (k == "A" && i + 3 < t.size() && is_akind(t[i + 1]) && num(i + 2) && num(i + 3))
  {
    char ak = t[i + 1].s[0];
    size_t a = t[i + 2].as_ull(), len = t[i + 3].as_ull(); i += 4;
    if (!(a < h.size() && h[a]->tag == 'z' && h[a]->akind == ak && len <= h[a]->n)) { ok = false; return true; }
    void *p = h[a]->p;
    switch (ak)
    {
      case 'b': out = nostd::span<const bool>(static_cast<bool *>(p), len); break;
      case 'i': out = nostd::span<const int32_t>(static_cast<int32_t *>(p), len); break;
      case 'l': out = nostd::span<const int64_t>(static_cast<int64_t *>(p), len); break;
      case 'u': out = nostd::span<const uint32_t>(static_cast<uint32_t *>(p), len); break;
      case 'd': out = nostd::span<const double>(static_cast<double *>(p), len); break;
      case 'U': out = nostd::span<const uint64_t>(static_cast<uint64_t *>(p), len); break;
      case 'y': out = nostd::span<const uint8_t>(static_cast<uint8_t *>(p), len); break;
    }
    return true;
  }
  return false;
}

template <class T>
static void print_arr(Out &o, const char *k, nostd::span<const T> s)
{
  o.tag("A").tag(k).unum(s.size());
  for (auto x : s) o.num(static_cast<long long>(x));
}
static void print_value(Out &o, const common::AttributeValue &v)
{
  switch (v.index())
  {
    case common::kTypeBool: o.tag("b").boolean(nostd::get<bool>(v)); break;
    case common::kTypeInt: o.tag("i").num(nostd::get<int32_t>(v)); break;
    case common::kTypeInt64: o.tag("l").num(nostd::get<int64_t>(v)); break;
    case common::kTypeUInt: o.tag("u").unum(nostd::get<uint32_t>(v)); break;
    case common::kTypeUInt64: o.tag("U").unum(nostd::get<uint64_t>(v)); break;
    case common::kTypeDouble: { double d = nostd::get<double>(v); uint64_t u; std::memcpy(&u, &d, 8); o.tag("d").unum(u); break; }
    case common::kTypeCString: { const char *p = nostd::get<const char *>(v); o.tag("c").bytes(p, std::strlen(p)); break; }
    case common::kTypeString: { auto s = nostd::get<nostd::string_view>(v); o.tag("s").bytes(s.data(), s.size()); break; }
    case common::kTypeSpanBool: print_arr(o, "b", nostd::get<nostd::span<const bool>>(v)); break;
    case common::kTypeSpanInt: print_arr(o, "i", nostd::get<nostd::span<const int32_t>>(v)); break;
    case common::kTypeSpanInt64: print_arr(o, "l", nostd::get<nostd::span<const int64_t>>(v)); break;
    case common::kTypeSpanUInt: print_arr(o, "u", nostd::get<nostd::span<const uint32_t>>(v)); break;
    case common::kTypeSpanByte: print_arr(o, "y", nostd::get<nostd::span<const uint8_t>>(v)); break;
    case common::kTypeSpanUInt64:
    {
      auto s = nostd::get<nostd::span<const uint64_t>>(v);
      o.tag("A").tag("U").unum(s.size());
      for (auto x : s) o.unum(x);
      break;
    }
    case common::kTypeSpanDouble:
    {
      auto s = nostd::get<nostd::span<const double>>(v);
      o.tag("A").tag("d").unum(s.size());
      for (double d : s) { uint64_t u; std::memcpy(&u, &d, 8); o.unum(u); }
      break;
    }
    case common::kTypeSpanString:
    {
      auto s = nostd::get<nostd::span<const nostd::string_view>>(v);
      o.tag("S").unum(s.size());
      for (auto x : s) o.bytes(x.data(), x.size());
      break;
    }
    default: o.tag("badvalue");
  }
}

// ------------------------------------------------------------------ recordables and exporters
class CountingRecordable final : public lsdk::Recordable
{
public:
  lsdk::ReadWriteLogRecord inner;
  unsigned n_obs = 0, n_res = 0, n_scope = 0;
  void SetTimestamp(common::SystemTimestamp t) noexcept override { inner.SetTimestamp(t); }
  void SetObservedTimestamp(common::SystemTimestamp t) noexcept override { n_obs++; inner.SetObservedTimestamp(t); }
  void SetSeverity(logs::Severity s) noexcept override { inner.SetSeverity(s); }
  void SetBody(const common::AttributeValue &m) noexcept override { inner.SetBody(m); }
  void SetAttribute(nostd::string_view k, const common::AttributeValue &v) noexcept override { inner.SetAttribute(k, v); }
  void SetEventId(int64_t id, nostd::string_view name) noexcept override { inner.SetEventId(id, name); }
  void SetTraceId(const trace::TraceId &t) noexcept override { inner.SetTraceId(t); }
  void SetSpanId(const trace::SpanId &s) noexcept override { inner.SetSpanId(s); }
  void SetTraceFlags(const trace::TraceFlags &f) noexcept override { inner.SetTraceFlags(f); }
  void SetResource(const rsdk::Resource &r) noexcept override { n_res++; inner.SetResource(r); }
  void SetInstrumentationScope(const scope::InstrumentationScope &s) noexcept override { n_scope++; inner.SetInstrumentationScope(s); }
};

// what the rendering needs to know about the case
struct World
{
  std::chrono::system_clock::time_point t0;
  const rsdk::Resource *resource = nullptr;
  std::vector<const scope::InstrumentationScope *> scopes;
};
static World *g_world = nullptr;

static void render(const lsdk::ReadWriteLogRecord &r, const CountingRecordable *cnt, Out &o)
{
  o.tag("R").num(static_cast<uint8_t>(r.GetSeverity()));
  print_value(o, r.GetBody());
  o.num(r.GetTimestamp().time_since_epoch().count());
  {
    auto obs = r.GetObservedTimestamp();
    std::chrono::system_clock::time_point tp = obs;
    if (tp >= g_world->t0 && tp <= std::chrono::system_clock::now()) o.tag("now");
    else o.tag("set").num(obs.time_since_epoch().count());
  }
  o.num(r.GetEventId());
  { auto n = r.GetEventName(); o.bytes(n.data(), n.size()); }
  o.bytes(r.GetTraceId().Id().data(), trace::TraceId::kSize);
  o.bytes(r.GetSpanId().Id().data(), trace::SpanId::kSize);
  o.num(r.GetTraceFlags().flags());
  std::vector<std::pair<std::string, const common::AttributeValue *>> at;
  for (auto &kv : r.GetAttributes()) at.emplace_back(kv.first, &kv.second);
  std::sort(at.begin(), at.end(), [](const std::pair<std::string, const common::AttributeValue *> &a,
                                     const std::pair<std::string, const common::AttributeValue *> &b) {
    size_t n = std::min(a.first.size(), b.first.size());
    int c = std::memcmp(a.first.data(), b.first.data(), n);
    return c != 0 ? c < 0 : a.first.size() < b.first.size();
  });
  o.unum(at.size());
  for (auto &kv : at) { o.bytes(kv.first); print_value(o, *kv.second); }
  {
    const scope::InstrumentationScope &s = r.GetInstrumentationScope();
    bool ours = std::find(g_world->scopes.begin(), g_world->scopes.end(), &s) != g_world->scopes.end();
    if (ours) o.bytes(s.GetName()).bytes(s.GetVersion()).bytes(s.GetSchemaURL()).boolean(true);
    else o.tag("noscope");
  }
  {
    const rsdk::Resource &res = r.GetResource();
    if (&res == g_world->resource)
    {
      o.boolean(true);
      auto it = res.GetAttributes().find("verif.id");
      if (it != res.GetAttributes().end() && nostd::holds_alternative<std::string>(it->second)) o.bytes(nostd::get<std::string>(it->second));
      else o.tag("nomarker");
    }
    else o.tag("nores");
  }
  if (cnt) o.tag("calls").unum(cnt->n_obs).unum(cnt->n_res).unum(cnt->n_scope);
}

struct Sink
{
  char kind;
  size_t bsz;   // Q: max_export_batch_size
  std::mutex m;
  std::vector<std::unique_ptr<lsdk::Recordable>> kept;
  std::vector<std::string> rendered;
  explicit Sink(char k, size_t b = 0) : kind(k), bsz(b) {}
  bool renders() const { return kind == 'I' || kind == 'Q'; }
  std::string tag() const { return kind == 'Q' ? "Q" + std::to_string(bsz) : std::string(1, kind); }
  size_t count()
  {
    std::lock_guard<std::mutex> g(m);
    return renders() ? rendered.size() : kept.size();
  }
};

// "I" | "K" | "B" | "P" | "Q1".."Q4"
static std::shared_ptr<Sink> parse_sink(const Tok &t)
{
  if (t.kind != Tok::TAG) return nullptr;
  if (t.s.size() == 1 && std::strchr("IKBP", t.s[0])) return std::make_shared<Sink>(t.s[0]);
  if (t.s.size() == 2 && t.s[0] == 'Q' && t.s[1] >= '1' && t.s[1] <= '4') return std::make_shared<Sink>('Q', size_t(t.s[1] - '0'));
  return nullptr;
}

// the reading exporters wait here while a burst is being emitted
struct Gate
{
  std::mutex m;
  std::condition_variable cv;
  bool open = true;
  void set(bool o) { { std::lock_guard<std::mutex> g(m); open = o; } cv.notify_all(); }
  void pass() { std::unique_lock<std::mutex> g(m); cv.wait(g, [this] { return open; }); }
};
static Gate g_gate;

class HExporter final : public lsdk::LogRecordExporter
{
public:
  explicit HExporter(std::shared_ptr<Sink> s) : s_(std::move(s)) {}
  std::unique_ptr<lsdk::Recordable> MakeRecordable() noexcept override
  {
    if (s_->kind == 'P') return std::unique_ptr<lsdk::Recordable>(new CountingRecordable());
    return std::unique_ptr<lsdk::Recordable>(new lsdk::ReadWriteLogRecord());
  }
  opentelemetry::sdk::common::ExportResult Export(const nostd::span<std::unique_ptr<lsdk::Recordable>> &records) noexcept override
  {
    if (s_->kind == 'Q') g_gate.pass();
    std::lock_guard<std::mutex> g(s_->m);
    for (auto &r : records)
    {
      if (!r) continue;
      if (s_->renders())   // I: inside Emit; Q: on the batch worker - reads, takes nothing
      {
        Out o;
        render(*static_cast<lsdk::ReadWriteLogRecord *>(r.get()), nullptr, o);
        s_->rendered.push_back(o.line);
      }
      else s_->kept.push_back(std::move(r));
    }
    return opentelemetry::sdk::common::ExportResult::kSuccess;
  }
  bool ForceFlush(std::chrono::microseconds) noexcept override { return true; }
  bool Shutdown(std::chrono::microseconds) noexcept override { return true; }

private:
  std::shared_ptr<Sink> s_;
};

static std::unique_ptr<lsdk::LogRecordProcessor> make_processor(const std::shared_ptr<Sink> &s)
{
  std::unique_ptr<lsdk::LogRecordExporter> ex(new HExporter(s));
  if (s->kind == 'B')
  {
    lsdk::BatchLogRecordProcessorOptions opt;
    opt.max_queue_size        = 2048;
    // ForceFlush on an EMPTY queue only returns when the schedule delay expires (the worker's wait predicate ignores the
    // flush request), so the delay is kept short; records are kept by the exporter and read at the end whatever the timing
    opt.schedule_delay_millis = std::chrono::milliseconds(1);
    opt.max_export_batch_size = 512;
    return std::unique_ptr<lsdk::LogRecordProcessor>(new lsdk::BatchLogRecordProcessor(std::move(ex), opt));
  }
  if (s->kind == 'Q')
  {
    lsdk::BatchLogRecordProcessorOptions opt;
    opt.max_queue_size        = 64;
    opt.schedule_delay_millis = std::chrono::milliseconds(1);
    opt.max_export_batch_size = s->bsz;
    return std::unique_ptr<lsdk::LogRecordProcessor>(new lsdk::BatchLogRecordProcessor(std::move(ex), opt));
  }
  return std::unique_ptr<lsdk::LogRecordProcessor>(new lsdk::SimpleLogRecordProcessor(std::move(ex)));
}

// ------------------------------------------------------------------ spans
class ScriptIds final : public tsdk::IdGenerator
{
public:
  ScriptIds() : tsdk::IdGenerator(false) {}
  trace::TraceId tid;
  trace::SpanId sid;
  trace::SpanId GenerateSpanId() noexcept override { return sid; }
  trace::TraceId GenerateTraceId() noexcept override { return tid; }
};
class ScriptSampler final : public tsdk::Sampler
{
public:
  tsdk::Decision next = tsdk::Decision::RECORD_AND_SAMPLE;
  tsdk::SamplingResult ShouldSample(const trace::SpanContext &, trace::TraceId, nostd::string_view, trace::SpanKind,
                                    const common::KeyValueIterable &, const trace::SpanContextKeyValueIterable &) noexcept override
  {
    return {next, nullptr, {}};
  }
  nostd::string_view GetDescription() const noexcept override { return "script"; }
};
class NullSpanProcessor final : public tsdk::SpanProcessor
{
public:
  std::unique_ptr<tsdk::Recordable> MakeRecordable() noexcept override { return std::unique_ptr<tsdk::Recordable>(new tsdk::SpanData()); }
  void OnStart(tsdk::Recordable &, const trace::SpanContext &) noexcept override {}
  void OnEnd(std::unique_ptr<tsdk::Recordable> &&) noexcept override {}
  bool ForceFlush(std::chrono::microseconds) noexcept override { return true; }
  bool Shutdown(std::chrono::microseconds) noexcept override { return true; }
};

// ------------------------------------------------------------------ threads 1..2 run one task at a time
class Worker
{
public:
  Worker() : th_([this] { loop(); }) {}
  ~Worker()
  {
    { std::lock_guard<std::mutex> g(m_); quit_ = true; }
    cv_.notify_all();
    th_.join();
  }
  void run(const std::function<void()> &f)
  {
    std::unique_lock<std::mutex> g(m_);
    task_ = &f; done_ = false;
    cv_.notify_all();
    cv_.wait(g, [this] { return done_; });
  }

private:
  void loop()
  {
    std::unique_lock<std::mutex> g(m_);
    for (;;)
    {
      cv_.wait(g, [this] { return quit_ || task_; });
      if (task_) { (*task_)(); task_ = nullptr; done_ = true; cv_.notify_all(); }
      else if (quit_) return;
    }
  }
  std::mutex m_;
  std::condition_variable cv_;
  const std::function<void()> *task_ = nullptr;
  bool done_ = false, quit_ = false;
  std::thread th_;
};

// ------------------------------------------------------------------ arguments of EmitLogRecord(args...)
enum Kind { K_sev, K_eid, K_bsv, K_bcs, K_bav, K_ctx, K_sid, K_tid, K_tfl, K_ts, K_tp, K_kvi, K_vec, K_spn, K_kvv, K_obs, K_eidraw, K_bad };
static const char *kind_names[] = {"sev", "eid", "bsv", "bcs", "bav", "ctx", "sid", "tid", "tfl", "ts", "tp", "kvi", "vec", "spn", "kvv", "obs", "eidraw"};

struct RArg
{
  Kind kind = K_bad;
  bool ok = true;         // references are valid storage (model: arg_ok)
  logs::Severity sev = logs::Severity::kInvalid;
  std::unique_ptr<logs::EventId> eid;
  nostd::string_view sview;
  const char *cs = nullptr;
  common::AttributeValue av;
  std::unique_ptr<trace::SpanContext> ctx;
  trace::SpanId sid;
  trace::TraceId tid;
  trace::TraceFlags tfl;
  int64_t z = 0;
  std::vector<std::unique_ptr<ExactBuf>> bufs;   // keys / event name: freed with the argument
  KvVec kv;
  std::unique_ptr<common::KeyValueIterableView<KvVec>> view;
};
typedef std::vector<std::unique_ptr<RArg>> RArgs;

static trace::TraceId mk_tid(const std::string &s) { return trace::TraceId(nostd::span<const uint8_t, 16>(reinterpret_cast<const uint8_t *>(s.data()), 16)); }
static trace::SpanId mk_sid(const std::string &s) { return trace::SpanId(nostd::span<const uint8_t, 8>(reinterpret_cast<const uint8_t *>(s.data()), 8)); }

// kvs := [ xkey aval { / xkey aval } ]
static bool parse_kvs(const Toks &t, size_t from, const Heap &h, RArg &a)
{
  if (from >= t.size()) return true;
  auto parts = verif::split_toks(t, "/", from);
  a.kv.reserve(parts.size());
  for (auto &p : parts)
  {
    if (p.empty() || p[0].kind != Tok::BYTES) return false;
    size_t i = 1; common::AttributeValue v; char shape;
    if (!parse_aval(p, i, h, v, a.ok, shape) || i != p.size()) return false;
    a.bufs.emplace_back(new ExactBuf(p[0].s));
    a.kv.emplace_back(sv(*a.bufs.back()), v);
  }
  return true;
}

static std::unique_ptr<RArg> parse_arg(const Toks &t, const Heap &h)
{
  std::unique_ptr<RArg> a(new RArg());
  if (t.empty() || t[0].kind != Tok::TAG) return nullptr;
  const std::string &k = t[0].s;
  auto isint = [&](size_t i) { return i < t.size() && t[i].kind == Tok::INT; };
  auto isb = [&](size_t i, size_t n) { return i < t.size() && t[i].kind == Tok::BYTES && (n == 0 || t[i].s.size() == n); };
  if (k == "sev" && t.size() == 2 && isint(1)) { a->kind = K_sev; a->sev = static_cast<logs::Severity>(t[1].as_ll()); }
  else if (k == "eid" && t.size() == 3 && isint(1) && isb(2, 0))
  {
    a->kind = K_eid;
    a->bufs.emplace_back(new ExactBuf(t[2].s));
    a->eid.reset(new logs::EventId(t[1].as_ll(), sv(*a->bufs.back())));
  }
  else if (k == "eidn" && t.size() == 2 && isint(1)) { a->kind = K_eid; a->eid.reset(new logs::EventId(t[1].as_ll())); }
  else if (k == "bsv" || k == "bcs" || k == "bav")
  {
    size_t i = 1; char shape;
    if (!parse_aval(t, i, h, a->av, a->ok, shape) || i != t.size()) return nullptr;
    a->kind = k == "bsv" ? K_bsv : k == "bcs" ? K_bcs : K_bav;
    if (a->kind == K_bsv) { if (shape != 's') a->ok = false; else if (a->ok) a->sview = nostd::get<nostd::string_view>(a->av); }
    if (a->kind == K_bcs) { if (shape != 'c') a->ok = false; else if (a->ok) a->cs = nostd::get<const char *>(a->av); }
  }
  else if (k == "ctx" && t.size() == 4 && isb(1, 16) && isb(2, 8) && isint(3))
  {
    a->kind = K_ctx;
    a->ctx.reset(new trace::SpanContext(mk_tid(t[1].s), mk_sid(t[2].s), trace::TraceFlags(static_cast<uint8_t>(t[3].as_ll())), false));
  }
  else if (k == "sid" && t.size() == 2 && isb(1, 8)) { a->kind = K_sid; a->sid = mk_sid(t[1].s); }
  else if (k == "tid" && t.size() == 2 && isb(1, 16)) { a->kind = K_tid; a->tid = mk_tid(t[1].s); }
  else if (k == "tfl" && t.size() == 2 && isint(1)) { a->kind = K_tfl; a->tfl = trace::TraceFlags(static_cast<uint8_t>(t[1].as_ll())); }
  else if ((k == "ts" || k == "tp" || k == "obs") && t.size() == 2 && isint(1)) { a->kind = k == "ts" ? K_ts : k == "tp" ? K_tp : K_obs; a->z = t[1].as_ll(); }
  else if (k == "kvi" || k == "vec" || k == "spn" || k == "kvv")
  {
    a->kind = k == "kvi" ? K_kvi : k == "vec" ? K_vec : k == "spn" ? K_spn : K_kvv;
    if (!parse_kvs(t, 1, h, *a)) return nullptr;
    a->view.reset(new common::KeyValueIterableView<KvVec>(a->kv));
  }
  else if (k == "eidraw" && t.size() == 3 && isint(1) && isb(2, 0))
  {
    a->kind = K_eidraw; a->z = t[1].as_ll();
    a->bufs.emplace_back(new ExactBuf(t[2].s));
  }
  else return nullptr;
  return a;
}

static bool parse_args(const Toks &t, size_t from, const Heap &h, RArgs &out)
{
  if (from >= t.size()) return true;
  for (auto &p : verif::split_toks(t, ",", from))
  {
    auto a = parse_arg(p, h);
    if (!a) return false;
    out.push_back(std::move(a));
  }
  return true;
}

static common::SystemTimestamp mk_ts(int64_t z) { return common::SystemTimestamp(std::chrono::nanoseconds(z)); }
static std::chrono::system_clock::time_point mk_tp(int64_t z)
{
  return std::chrono::system_clock::time_point(std::chrono::duration_cast<std::chrono::system_clock::duration>(std::chrono::nanoseconds(z)));
}

// static type handed to the variadic call for each kind
template <int K> struct G;
template <> struct G<K_sev> { static logs::Severity get(RArg &a) { return a.sev; } };
template <> struct G<K_eid> { static const logs::EventId &get(RArg &a) { return *a.eid; } };
template <> struct G<K_bsv> { static nostd::string_view get(RArg &a) { return a.sview; } };
template <> struct G<K_bcs> { static const char *get(RArg &a) { return a.cs; } };
template <> struct G<K_bav> { static const common::AttributeValue &get(RArg &a) { return a.av; } };
template <> struct G<K_ctx> { static const trace::SpanContext &get(RArg &a) { return *a.ctx; } };
template <> struct G<K_sid> { static trace::SpanId get(RArg &a) { return a.sid; } };
template <> struct G<K_tid> { static trace::TraceId get(RArg &a) { return a.tid; } };
template <> struct G<K_tfl> { static trace::TraceFlags get(RArg &a) { return a.tfl; } };
template <> struct G<K_ts> { static common::SystemTimestamp get(RArg &a) { return mk_ts(a.z); } };
template <> struct G<K_tp> { static std::chrono::system_clock::time_point get(RArg &a) { return mk_tp(a.z); } };
template <> struct G<K_kvi> { static const common::KeyValueIterable &get(RArg &a) { return *a.view; } };
template <> struct G<K_vec> { static const KvVec &get(RArg &a) { return a.kv; } };
template <> struct G<K_spn>
{
  static nostd::span<const std::pair<nostd::string_view, common::AttributeValue>> get(RArg &a)
  {
    return common::MakeAttributes(nostd::span<const std::pair<nostd::string_view, common::AttributeValue>>(a.kv.data(), a.kv.size()));
  }
};
template <> struct G<K_kvv> { static common::KeyValueIterableView<KvVec> get(RArg &a) { return common::MakeAttributes(a.kv); } };

typedef nostd::unique_ptr<logs::LogRecord> RecPtr;
struct SigEntry
{
  void (*emit)(logs::Logger &, RArgs &)             = nullptr;
  void (*emit_rec)(logs::Logger &, RecPtr &, RArgs &) = nullptr;
  void (*level)(logs::Logger &, int, RArgs &)        = nullptr;
};
static std::map<std::string, SigEntry> &sig_table()
{
  static std::map<std::string, SigEntry> t;
  return t;
}

template <int... Ks>
struct Sig
{
  template <size_t... I>
  static void emit_i(logs::Logger &lg, RArgs &a, std::index_sequence<I...>) { lg.EmitLogRecord(G<Ks>::get(*a[I])...); }
  static void emit(logs::Logger &lg, RArgs &a) { emit_i(lg, a, std::make_index_sequence<sizeof...(Ks)>{}); }
  template <size_t... I>
  static void emit_rec_i(logs::Logger &lg, RecPtr &r, RArgs &a, std::index_sequence<I...>) { lg.EmitLogRecord(std::move(r), G<Ks>::get(*a[I])...); }
  static void emit_rec(logs::Logger &lg, RecPtr &r, RArgs &a) { emit_rec_i(lg, r, a, std::make_index_sequence<sizeof...(Ks)>{}); }
  template <size_t... I>
  static void level_i(logs::Logger &lg, int lvl, RArgs &a, std::index_sequence<I...>)
  {
    switch (lvl)
    {
      case 0: lg.Trace(G<Ks>::get(*a[I])...); break;
      case 1: lg.Debug(G<Ks>::get(*a[I])...); break;
      case 2: lg.Info(G<Ks>::get(*a[I])...); break;
      case 3: lg.Warn(G<Ks>::get(*a[I])...); break;
      case 4: lg.Error(G<Ks>::get(*a[I])...); break;
      case 5: lg.Fatal(G<Ks>::get(*a[I])...); break;
    }
  }
  static void level(logs::Logger &lg, int lvl, RArgs &a) { level_i(lg, lvl, a, std::make_index_sequence<sizeof...(Ks)>{}); }
};

template <int... Ks>
static void reg_e(const char *name) { sig_table()[name].emit = &Sig<Ks...>::emit; }
template <int... Ks>
static void reg_r(const char *name) { sig_table()[name].emit_rec = &Sig<Ks...>::emit_rec; }
template <int... Ks>
static void reg_l(const char *name) { sig_table()[name].level = &Sig<Ks...>::level; }

#define SIG_0(name, ...) reg_e<__VA_ARGS__>(name);
#define SIG_1(name, ...) reg_e<__VA_ARGS__>(name); reg_r<__VA_ARGS__>(name);
#define SIG_2(name, ...) reg_e<__VA_ARGS__>(name); reg_l<__VA_ARGS__>(name);
#define SIG_3(name, ...) reg_e<__VA_ARGS__>(name); reg_r<__VA_ARGS__>(name); reg_l<__VA_ARGS__>(name);
#define SIG(fl, name, ...) SIG_##fl(name, __VA_ARGS__)
static void register_sigs()
{
#include "c13_sigs.inc"
}

static std::string sig_name(const RArgs &a)
{
  std::string s;
  for (size_t i = 0; i < a.size(); i++) { if (i) s += ","; s += kind_names[a[i]->kind]; }
  return s;
}

// LogRecordSetterTrait<T>::Set on an existing record (AP); obs / eidraw go through the LogRecord interface
static void apply_arg(logs::LogRecord *r, RArg &a)
{
  using logs::detail::LogRecordSetterTrait;
  switch (a.kind)
  {
    case K_sev: LogRecordSetterTrait<logs::Severity>::Set(r, G<K_sev>::get(a)); break;
    case K_eid: LogRecordSetterTrait<logs::EventId>::Set(r, G<K_eid>::get(a)); break;
    case K_bsv: LogRecordSetterTrait<nostd::string_view>::Set(r, G<K_bsv>::get(a)); break;
    case K_bcs: LogRecordSetterTrait<const char *>::Set(r, G<K_bcs>::get(a)); break;
    case K_bav: LogRecordSetterTrait<common::AttributeValue>::Set(r, G<K_bav>::get(a)); break;
    case K_ctx: LogRecordSetterTrait<trace::SpanContext>::Set(r, G<K_ctx>::get(a)); break;
    case K_sid: LogRecordSetterTrait<trace::SpanId>::Set(r, G<K_sid>::get(a)); break;
    case K_tid: LogRecordSetterTrait<trace::TraceId>::Set(r, G<K_tid>::get(a)); break;
    case K_tfl: LogRecordSetterTrait<trace::TraceFlags>::Set(r, G<K_tfl>::get(a)); break;
    case K_ts: LogRecordSetterTrait<common::SystemTimestamp>::Set(r, G<K_ts>::get(a)); break;
    case K_tp: LogRecordSetterTrait<std::chrono::system_clock::time_point>::Set(r, G<K_tp>::get(a)); break;
    case K_kvi: LogRecordSetterTrait<common::KeyValueIterable>::Set(r, G<K_kvi>::get(a)); break;
    case K_vec: LogRecordSetterTrait<KvVec>::Set(r, G<K_vec>::get(a)); break;
    case K_spn: LogRecordSetterTrait<nostd::span<const std::pair<nostd::string_view, common::AttributeValue>>>::Set(r, G<K_spn>::get(a)); break;
    case K_kvv: LogRecordSetterTrait<common::KeyValueIterableView<KvVec>>::Set(r, G<K_kvv>::get(a)); break;
    case K_obs: r->SetObservedTimestamp(mk_ts(a.z)); break;
    case K_eidraw: r->SetEventId(a.z, sv(*a.bufs.back())); break;
    default: break;
  }
}

// ------------------------------------------------------------------ one case
struct Token
{
  int thread;
  std::unique_ptr<trace::Scope> scope;
  nostd::unique_ptr<context::Token> token;
  bool live = true;
};

struct BadCase {};
struct IllCase {};

class Case
{
public:
  explicit Case(const Toks &t) : all_(t) {}
  std::string run()
  {
    std::string result;
    try { result = run_inner(); }
    catch (const BadCase &) { result = "BADCASE"; }
    catch (const IllCase &) { result = "ILL"; }
    cleanup();
    return result;
  }

private:
  const Toks &all_;
  World world_;
  Heap heap_;
  std::vector<nostd::shared_ptr<trace::Span>> spans_;
  std::vector<nostd::shared_ptr<trace::SpanContext>> ctxs_;
  std::shared_ptr<tsdk::TracerProvider> tprov_;
  std::vector<std::shared_ptr<Sink>> sinks_;
  std::unique_ptr<lsdk::LoggerProvider> prov_;
  std::vector<nostd::shared_ptr<logs::Logger>> loggers_;
  std::vector<bool> enabled_;
  std::vector<RecPtr> slots_;
  std::vector<std::unique_ptr<Token>> toks_;
  std::unique_ptr<Worker> workers_[3];
  bool has_batch_ = false;
  bool end_with_shutdown_ = false;   // the last operation was a burst that was not flushed
  std::string out_;

  void on(size_t t, const std::function<void()> &f)
  {
    if (t == 0) { f(); return; }
    if (!workers_[t]) workers_[t].reset(new Worker());
    workers_[t]->run(f);
  }
  static size_t nat(const Tok &t)
  {
    if (t.kind != Tok::INT || t.s[0] == '-') throw BadCase();
    return t.as_ull();
  }
  void emit_out(const Out &o) { if (!o.line.empty()) { out_ += o.line; out_ += " "; } out_ += "| "; }

  void print_active(Out &o)
  {
    context::ContextValue v = context::RuntimeContext::GetCurrent().GetValue(trace::kSpanKey);
    const trace::SpanContext *sc = nullptr;
    trace::SpanContext tmp(false, false);
    if (nostd::holds_alternative<nostd::shared_ptr<trace::Span>>(v))
    {
      auto &p = nostd::get<nostd::shared_ptr<trace::Span>>(v);
      if (p) { tmp = p->GetContext(); sc = &tmp; }
    }
    else if (nostd::holds_alternative<nostd::shared_ptr<trace::SpanContext>>(v))
    {
      auto &p = nostd::get<nostd::shared_ptr<trace::SpanContext>>(v);
      if (p) { tmp = *p; sc = &tmp; }
    }
    o.tag("A");
    if (!sc) { o.tag("none"); return; }
    o.bytes(sc->trace_id().Id().data(), 16).bytes(sc->span_id().Id().data(), 8).num(sc->trace_flags().flags());
  }
  void print_counts(Out &o)
  {
    if (has_batch_) prov_->ForceFlush();
    o.tag("N");
    for (auto &s : sinks_) o.unum(s->count());
  }
  enum SlotState { S_NULL, S_NOOP, S_LIVE };
  SlotState state(const RecPtr &p) const
  {
    if (!p) return S_NULL;
    return dynamic_cast<lsdk::Recordable *>(p.get()) ? S_LIVE : S_NOOP;
  }
  static bool all_ok(const RArgs &a) { for (auto &x : a) if (!x->ok) return false; return true; }
  static bool any_direct(const RArgs &a) { for (auto &x : a) if (x->kind == K_obs || x->kind == K_eidraw) return true; return false; }
  static int level_of(long long sev)
  {
    switch (sev) { case 1: return 0; case 5: return 1; case 9: return 2; case 13: return 3; case 17: return 4; case 21: return 5; default: return -1; }
  }

  void setup(const std::vector<Toks> &sec)
  {
    // heap
    {
      const Toks &s = sec[5];
      if (s.empty() || !s[0].is_tag("HP")) throw BadCase();
      for (auto &p : verif::split_toks(s, ",", 1))
      {
        if (p.empty()) continue;
        auto b = parse_buf(p, 0);
        if (!b) throw BadCase();
        heap_.push_back(std::move(b));
      }
      for (auto &b : heap_) if (b->tag == 'v' && !views_ok(heap_, *b)) throw IllCase();
      for (auto &b : heap_) if (b->tag == 'v') resolve_views(heap_, *b);
    }
    // spans
    {
      const Toks &s = sec[2];
      if (s.empty() || !s[0].is_tag("SP") || (s.size() - 1) % 4) throw BadCase();
      auto ids = new ScriptIds();
      auto smp = new ScriptSampler();
      tprov_ = std::make_shared<tsdk::TracerProvider>(std::unique_ptr<tsdk::SpanProcessor>(new NullSpanProcessor()),
                                                      rsdk::Resource::Create({}), std::unique_ptr<tsdk::Sampler>(smp),
                                                      std::unique_ptr<tsdk::IdGenerator>(ids));
      auto tracer = tprov_->GetTracer("c13");
      for (size_t i = 1; i + 3 < s.size(); i += 4)
      {
        if (s[i].kind != Tok::BYTES || s[i].s.size() != 16 || s[i + 1].kind != Tok::BYTES || s[i + 1].s.size() != 8 ||
            s[i + 2].kind != Tok::INT || s[i + 3].kind != Tok::TAG) throw BadCase();
        uint8_t fl = static_cast<uint8_t>(s[i + 2].as_ll());
        trace::SpanContext sc(mk_tid(s[i].s), mk_sid(s[i + 1].s), trace::TraceFlags(fl), false);
        nostd::shared_ptr<trace::Span> sp;
        if (s[i + 3].is_tag("D")) sp = nostd::shared_ptr<trace::Span>(new trace::DefaultSpan(sc));
        else
        {
          // a root span of the real tracer: ids from the script, sampled flag from the scripted sampler
          ids->tid = sc.trace_id(); ids->sid = sc.span_id();
          smp->next = (fl & 1) ? tsdk::Decision::RECORD_AND_SAMPLE : (s[i + 3].is_tag("N") ? tsdk::Decision::DROP : tsdk::Decision::RECORD_ONLY);
          trace::StartSpanOptions opt;
          opt.parent = context::Context{}.SetValue(trace::kIsRootSpanKey, true);
          sp = tracer->StartSpan("s", opt);
        }
        spans_.push_back(sp);
        ctxs_.push_back(nostd::shared_ptr<trace::SpanContext>(new trace::SpanContext(sp->GetContext())));
      }
    }
    // exporters / provider
    std::vector<std::unique_ptr<lsdk::LogRecordProcessor>> procs;
    {
      const Toks &s = sec[4];
      if (s.empty() || !s[0].is_tag("PR")) throw BadCase();
      for (size_t i = 1; i < s.size(); i++)
      {
        auto sk = parse_sink(s[i]);
        if (!sk) throw BadCase();
        sinks_.push_back(sk);
        if (sk->kind == 'B' || sk->kind == 'Q') has_batch_ = true;
        procs.push_back(make_processor(sinks_.back()));
      }
    }
    if (sec[3].size() != 2 || !sec[3][0].is_tag("RES") || sec[3][1].kind != Tok::BYTES) throw BadCase();
    const Toks &c = sec[0];
    if (c.size() < 2 || !c[0].is_tag("CFG") || c[1].kind != Tok::INT || (c.size() - 2) % 2) throw BadCase();
    scope::ScopeConfigurator<lsdk::LoggerConfig>::Builder b(c[1].as_ll() ? lsdk::LoggerConfig::Disabled() : lsdk::LoggerConfig::Enabled());
    for (size_t i = 2; i + 1 < c.size(); i += 2)
    {
      if (c[i].kind != Tok::BYTES || c[i + 1].kind != Tok::INT) throw BadCase();
      ExactBuf nm(c[i].s);
      b.AddConditionNameEquals(sv(nm), c[i + 1].as_ll() ? lsdk::LoggerConfig::Disabled() : lsdk::LoggerConfig::Enabled());
    }
    world_.t0 = std::chrono::system_clock::now();
    prov_.reset(new lsdk::LoggerProvider(std::move(procs), rsdk::Resource::Create({{"verif.id", sec[3][1].s}}),
                                         std::make_unique<scope::ScopeConfigurator<lsdk::LoggerConfig>>(b.Build())));
    world_.resource = &prov_->GetResource();
    // loggers
    {
      const Toks &s = sec[1];
      if (s.empty() || !s[0].is_tag("LG") || (s.size() - 1) % 4) throw BadCase();
      for (size_t i = 1; i + 3 < s.size(); i += 4)
      {
        for (size_t j = 0; j < 4; j++) if (s[i + j].kind != Tok::BYTES) throw BadCase();
        ExactBuf a(s[i].s), l(s[i + 1].s), v(s[i + 2].s), u(s[i + 3].s);
        auto lg = prov_->GetLogger(sv(a), sv(l), sv(v), sv(u));
        loggers_.push_back(lg);
        world_.scopes.push_back(&static_cast<lsdk::Logger *>(lg.get())->GetInstrumentationScope());
        auto probe = lg->CreateLogRecord();
        enabled_.push_back(state(probe) == S_LIVE);
      }
    }
    g_world = &world_;
  }

  std::string run_inner()
  {
    auto sec = verif::split_toks(all_, ";");
    if (sec.size() != 7) throw BadCase();
    setup(sec);
    const Toks &os = sec[6];
    if (os.empty() || !os[0].is_tag("OPS")) throw BadCase();
    for (auto &op : verif::split_toks(os, "|", 1))
    {
      if (op.empty()) continue;
      step(op);
    }
    // the case is over: close what is still open (innermost first, on the owning thread), deliver, read
    for (size_t i = toks_.size(); i-- > 0;) close_token(i);
    if (end_with_shutdown_) prov_->Shutdown(); else prov_->ForceFlush();
    Out o;
    for (auto &s : sinks_)
    {
      std::lock_guard<std::mutex> g(s->m);
      o.tag("P").tag(s->tag());
      if (s->renders())
      {
        o.unum(s->rendered.size());
        for (auto &l : s->rendered) o.add(l);
      }
      else
      {
        o.unum(s->kept.size());
        for (auto &r : s->kept)
        {
          if (s->kind == 'P') { auto *c = static_cast<CountingRecordable *>(r.get()); render(c->inner, c, o); }
          else render(*static_cast<lsdk::ReadWriteLogRecord *>(r.get()), nullptr, o);
        }
      }
    }
    o.tag("E");
    return out_ + o.line;
  }

  void close_token(size_t k)
  {
    Token *tk = toks_[k].get();
    if (!tk->live) return;
    on(tk->thread, [tk] { tk->scope.reset(); tk->token = nostd::unique_ptr<context::Token>(); });
    tk->live = false;
  }

  void check_tl(size_t t, size_t l) { if (!(t < 3 && l < loggers_.size())) throw IllCase(); }

  // logger l ->EmitLogRecord(args...) in one of its spellings, on thread t
  void variadic(size_t t, size_t l, const std::function<void(logs::Logger &)> &call)
  {
    Out o;
    on(t, [&] { print_active(o); call(*loggers_[l]); });
    print_counts(o);
    emit_out(o);
  }

  void step(const Toks &op)
  {
    const Tok &h = op[0];
    Out o;
    if (h.is_tag("SC") && op.size() == 4)
    {
      size_t t = nat(op[1]), s = nat(op[3]);
      const Tok &vk = op[2];
      bool needs = vk.is_tag("S") || vk.is_tag("C");
      if (!(vk.is_tag("S") || vk.is_tag("SN") || vk.is_tag("C") || vk.is_tag("CN") || vk.is_tag("B"))) throw BadCase();
      if (!(t < 3) || (needs && !(s < spans_.size()))) throw IllCase();
      std::unique_ptr<Token> tk(new Token());
      tk->thread = static_cast<int>(t);
      Token *p = tk.get();
      on(t, [&] {
        if (vk.is_tag("S")) p->scope.reset(new trace::Scope(spans_[s]));
        else
        {
          context::ContextValue v;
          if (vk.is_tag("SN")) v = nostd::shared_ptr<trace::Span>();
          else if (vk.is_tag("C")) v = ctxs_[s];
          else if (vk.is_tag("CN")) v = nostd::shared_ptr<trace::SpanContext>();
          else v = true;
          p->token = context::RuntimeContext::Attach(context::RuntimeContext::GetCurrent().SetValue(trace::kSpanKey, v));
        }
      });
      toks_.push_back(std::move(tk));
    }
    else if ((h.is_tag("AO") || h.is_tag("AB")) && op.size() == 2)
    {
      size_t t = nat(op[1]);
      if (!(t < 3)) throw IllCase();
      std::unique_ptr<Token> tk(new Token());
      tk->thread = static_cast<int>(t);
      Token *p = tk.get();
      bool bare = h.is_tag("AB");
      on(t, [&] {
        context::Context base = bare ? context::Context{} : context::RuntimeContext::GetCurrent();
        p->token = context::RuntimeContext::Attach(base.SetValue("other", true));
      });
      toks_.push_back(std::move(tk));
    }
    else if (h.is_tag("CL") && op.size() == 2)
    {
      size_t k = nat(op[1]);
      if (!(k < toks_.size() && toks_[k]->live)) throw IllCase();
      close_token(k);
    }
    else if (h.is_tag("CR") && op.size() == 3)
    {
      size_t t = nat(op[1]), l = nat(op[2]);
      check_tl(t, l);
      RecPtr r;
      on(t, [&] { print_active(o); r = loggers_[l]->CreateLogRecord(); });
      slots_.push_back(std::move(r));
    }
    else if (h.is_tag("AP") && op.size() >= 3)
    {
      size_t r = nat(op[1]);
      Toks rest(op.begin() + 2, op.end());
      auto a = parse_arg(rest, heap_);
      if (!a) throw BadCase();
      if (!a->ok) throw IllCase();
      if (!(r < slots_.size()) || state(slots_[r]) == S_NULL) throw IllCase();
      apply_arg(slots_[r].get(), *a);
    }
    else if (h.is_tag("EM") && op.size() == 4)
    {
      size_t t = nat(op[1]), l = nat(op[2]), r = nat(op[3]);
      check_tl(t, l);
      if (!(r < slots_.size())) throw IllCase();
      if (enabled_[l] && state(slots_[r]) == S_NOOP) throw IllCase();
      on(t, [&] { loggers_[l]->EmitLogRecord(std::move(slots_[r])); });
      print_counts(o);
    }
    else if (h.is_tag("EN") && op.size() == 3)
    {
      size_t t = nat(op[1]), l = nat(op[2]);
      check_tl(t, l);
      on(t, [&] { loggers_[l]->EmitLogRecord(RecPtr()); });
      print_counts(o);
    }
    else if (h.is_tag("EV") && op.size() >= 3)
    {
      size_t t = nat(op[1]), l = nat(op[2]);
      RArgs a;
      if (!parse_args(op, 3, heap_, a)) throw BadCase();
      if (!(t < 3 && l < loggers_.size() && all_ok(a) && !any_direct(a))) throw IllCase();
      auto it = sig_table().find(sig_name(a));
      if (it == sig_table().end() || !it->second.emit) throw BadCase();
      variadic(t, l, [&](logs::Logger &lg) { it->second.emit(lg, a); });
      return;
    }
    else if (h.is_tag("ER") && op.size() >= 4)
    {
      size_t t = nat(op[1]), l = nat(op[2]), r = nat(op[3]);
      RArgs a;
      if (!parse_args(op, 4, heap_, a)) throw BadCase();
      if (!(t < 3 && l < loggers_.size() && all_ok(a) && !any_direct(a))) throw IllCase();
      if (!(r < slots_.size())) throw IllCase();
      auto it = sig_table().find(sig_name(a));
      if (it == sig_table().end() || !it->second.emit_rec) throw BadCase();
      if (state(slots_[r]) == S_NOOP && enabled_[l]) throw IllCase();
      on(t, [&] { it->second.emit_rec(*loggers_[l], slots_[r], a); });
      print_counts(o);
    }
    else if (h.is_tag("LG") && op.size() >= 10)
    {
      size_t t = nat(op[1]), l = nat(op[2]), named = nat(op[3]), form = nat(op[4]);
      if (op[5].kind != Tok::INT || op[6].kind != Tok::INT || op[7].kind != Tok::BYTES || named > 1) throw BadCase();
      long long sev = op[5].as_ll();
      int64_t id = op[6].as_ll();
      size_t ma = nat(op[8]), mlen = nat(op[9]);
      RArg kv;
      if (!parse_kvs(op, 10, heap_, kv)) throw BadCase();
      if (form > 3) throw IllCase();
      bool msg_ok = view_ok(heap_, ma, mlen);
      bool kv_used = form >= 1;
      if (!(t < 3 && l < loggers_.size() && msg_ok && (!kv_used || kv.ok) && (!named || level_of(sev) >= 0))) throw IllCase();
      nostd::string_view msg(static_cast<char *>(heap_[ma]->p), mlen);
      common::KeyValueIterableView<KvVec> view(kv.kv);
      const common::KeyValueIterable &attrs = view;
      ExactBuf nm(op[7].s);
      logs::Severity s = static_cast<logs::Severity>(sev);
      int lvl = level_of(sev);
      variadic(t, l, [&](logs::Logger &lg) {
        if (!named)
        {
          if (form == 0) lg.Log(s, msg);
          else if (form == 1) lg.Log(s, msg, attrs);
          else if (form == 2) { logs::EventId e(id, sv(nm)); lg.Log(s, e, msg, attrs); }
          else lg.Log(s, id, msg, attrs);
          return;
        }
#define LEVEL_CALL(F)                                                        \
  if (form == 0) lg.F(msg);                                                  \
  else if (form == 1) lg.F(msg, attrs);                                      \
  else if (form == 2) { logs::EventId e(id, sv(nm)); lg.F(e, msg, attrs); }  \
  else lg.F(id, msg, attrs);
        switch (lvl)
        {
          case 0: LEVEL_CALL(Trace) break;
          case 1: LEVEL_CALL(Debug) break;
          case 2: LEVEL_CALL(Info) break;
          case 3: LEVEL_CALL(Warn) break;
          case 4: LEVEL_CALL(Error) break;
          case 5: LEVEL_CALL(Fatal) break;
        }
#undef LEVEL_CALL
      });
      return;
    }
    else if (h.is_tag("LV") && op.size() >= 4)
    {
      size_t t = nat(op[1]), l = nat(op[2]);
      if (op[3].kind != Tok::INT) throw BadCase();
      long long sev = op[3].as_ll();
      RArgs a;
      if (!parse_args(op, 4, heap_, a)) throw BadCase();
      bool has_sev = false;
      for (auto &x : a) if (x->kind == K_sev) has_sev = true;
      if (!(t < 3 && l < loggers_.size() && all_ok(a) && !any_direct(a) && level_of(sev) >= 0 && !has_sev)) throw IllCase();
      auto it = sig_table().find(sig_name(a));
      if (it == sig_table().end() || !it->second.level) throw BadCase();
      int lvl = level_of(sev);
      variadic(t, l, [&](logs::Logger &lg) { it->second.level(lg, lvl, a); });
      return;
    }
    else if (h.is_tag("MU") && op.size() >= 3)
    {
      size_t a = nat(op[1]);
      auto nb = parse_buf(op, 2);
      if (!nb) throw BadCase();
      if (!(a < heap_.size())) throw IllCase();
      Buf &old = *heap_[a];
      bool same = old.tag == nb->tag && old.n == nb->n && (old.tag != 'z' || old.akind == nb->akind) &&
                  (old.tag != 'v' || views_ok(heap_, *nb));
      if (!same) throw IllCase();
      // overwrite in place: the storage stays where it is
      if (old.tag == 'b' || old.tag == 'c') std::memcpy(old.p, nb->p, old.n);
      else if (old.tag == 'z') fill_z(old, op, 4);
      else { old.views = nb->views; resolve_views(heap_, old); }
    }
    else if (h.is_tag("AD") && op.size() == 2)
    {
      auto sk = parse_sink(op[1]);
      if (!sk) throw BadCase();
      sinks_.push_back(sk);
      if (sk->kind == 'B' || sk->kind == 'Q') has_batch_ = true;
      prov_->AddProcessor(make_processor(sinks_.back()));
    }
    else if (h.is_tag("BU") && op.size() >= 5)
    {
      // n times EmitLogRecord(args...) in a row with the reading exporters held back, then ForceFlush (or nothing: Shutdown)
      size_t t = nat(op[1]), l = nat(op[2]), n = nat(op[3]), fl = nat(op[4]);
      if (fl > 1) throw BadCase();
      RArgs a;
      if (!parse_args(op, 5, heap_, a)) throw BadCase();
      if (!(t < 3 && l < loggers_.size() && all_ok(a) && !any_direct(a) && n <= 32)) throw IllCase();   // half the queue: nothing can be dropped
      auto it = sig_table().find(sig_name(a));
      if (it == sig_table().end() || !it->second.emit) throw BadCase();
      g_gate.set(false);
      on(t, [&] { print_active(o); for (size_t i = 0; i < n; i++) it->second.emit(*loggers_[l], a); });
      g_gate.set(true);
      if (fl) print_counts(o); else end_with_shutdown_ = true;
    }
    else if (h.is_tag("NM") && op.size() == 2)
    {
      size_t l = nat(op[1]);
      if (!(l < loggers_.size())) throw IllCase();
      auto n = loggers_[l]->GetName();
      o.bytes(n.data(), n.size());
    }
    else throw BadCase();
    emit_out(o);
  }

  void cleanup()
  {
    g_gate.set(true);
    for (size_t i = toks_.size(); i-- > 0;) close_token(i);
    slots_.clear();
    for (auto &s : sinks_) { std::lock_guard<std::mutex> g(s->m); s->kept.clear(); }
    loggers_.clear();
    prov_.reset();
    sinks_.clear();
    for (auto &sp : spans_) sp->End();
    spans_.clear();
    ctxs_.clear();
    tprov_.reset();
    for (auto &w : workers_) w.reset();
    heap_.clear();
    g_world = nullptr;
  }
};

int main(int argc, char **argv)
{
  // the SDK's internal log goes to stdout by default and would corrupt the one-line-per-case protocol
  opentelemetry::sdk::common::internal_log::GlobalLogHandler::SetLogLevel(opentelemetry::sdk::common::internal_log::LogLevel::None);
  register_sigs();
  return verif::run_cases(argc, argv, [](const Toks &t, Out &o) {
    if (t.empty()) { o.tag("BADCASE"); return; }
    o.add(Case(t).run());
  });
}
