// C08 driver: metric series are keyed by attribute-set value; filters and limits lose nothing.
//   EQ cases build two MetricAttributes through the view's attributes processor (both construction paths) and compare them,
//   HM cases drive an AttributesHashMap directly (all GetOrSetDefault / Set overloads, Get, Has, Size, GetAllEnteries),
//   ST cases drive a SyncMetricStorage (explicit cardinality limit) with 1..4 collectors of mixed temporality,
//   MP cases drive a real MeterProvider + View (attribute allow-list) + MetricReaders + Counter.
// Case / observation format: see coq/C08/Glue.v.  The line printed is "<observation> || <walks>": the walks are the orders in
// which the implementation iterated its unordered_map tables (the model replays them; it checks each is a permutation of its own).
// Keys and string values are handed over as views that are NOT NUL-terminated (ExactBuf).
#include <fcntl.h>
#include <sys/types.h>
#include <sys/wait.h>
#include <unistd.h>
#include <algorithm>
#include <cmath>
#include <cstring>
#include <functional>
#include <list>
#include <map>
#include <memory>
#include <string>
#include <unordered_map>
#include <vector>

#include "common/verif_io.h"

#include "opentelemetry/common/key_value_iterable_view.h"
#include "opentelemetry/context/context.h"
#include "opentelemetry/metrics/meter.h"
#include "opentelemetry/metrics/sync_instruments.h"
#include "opentelemetry/sdk/common/global_log_handler.h"
#include "opentelemetry/sdk/metrics/aggregation/sum_aggregation.h"
#include "opentelemetry/sdk/metrics/data/metric_data.h"
#include "opentelemetry/sdk/metrics/data/point_data.h"
#include "opentelemetry/sdk/metrics/export/metric_producer.h"
#include "opentelemetry/sdk/metrics/instruments.h"
#include "opentelemetry/sdk/metrics/metric_reader.h"
#include "opentelemetry/sdk/metrics/state/attributes_hashmap.h"
#include "opentelemetry/sdk/metrics/state/metric_collector.h"
#include "opentelemetry/sdk/metrics/view/attributes_processor.h"
#include "opentelemetry/sdk/metrics/view/instrument_selector.h"
#include "opentelemetry/sdk/metrics/view/meter_selector.h"
#include "opentelemetry/sdk/metrics/view/view.h"
// the per-interval table of a storage is reachable only through private members (its iteration order is an input of the model)
#define private public
#include "opentelemetry/sdk/metrics/meter.h"
#include "opentelemetry/sdk/metrics/state/sync_metric_storage.h"
#undef private
#include "opentelemetry/sdk/metrics/meter_provider.h"

namespace nostd = opentelemetry::nostd;
namespace sdkm  = opentelemetry::sdk::metrics;
namespace sdkc  = opentelemetry::sdk::common;
using opentelemetry::common::AttributeValue;
using verif::Out;
using verif::Tok;

// ------------------------------------------------------------------ attribute pairs of a case, with the memory behind them
struct Kvs
{
  std::vector<std::shared_ptr<void>> keep;
  std::vector<std::pair<nostd::string_view, AttributeValue>> kv;

  nostd::string_view view(const std::string &s)
  {
    auto b = std::make_shared<verif::ExactBuf>(s);
    keep.push_back(b);
    return nostd::string_view(b->p, b->n);
  }
  template <class T>
  nostd::span<const T> arr(const std::vector<Tok> &t, size_t from, size_t n)
  {
    std::shared_ptr<T> a(new T[n ? n : 1], std::default_delete<T[]>());
    for (size_t i = 0; i < n; i++)
      a.get()[i] = std::is_signed<T>::value ? static_cast<T>(t[from + i].as_ll()) : static_cast<T>(t[from + i].as_ull());
    keep.push_back(a);
    return nostd::span<const T>(a.get(), n);
  }
};

static double bits_to_double(uint64_t b)
{
  double d;
  std::memcpy(&d, &b, sizeof d);
  return d;
}
static uint64_t double_to_bits(double d)
{
  uint64_t b;
  std::memcpy(&b, &d, sizeof b);
  return b;
}

// <n> { x<key> <value> } starting at t[pos]; advances pos
static bool parse_kvs(const std::vector<Tok> &t, size_t &pos, Kvs &out)
{
  if (pos >= t.size() || t[pos].kind != Tok::INT) return false;
  size_t n = size_t(t[pos++].as_ull());
  for (size_t i = 0; i < n; i++)
  {
    if (pos + 2 > t.size() || t[pos].kind != Tok::BYTES || t[pos + 1].kind != Tok::TAG) return false;
    nostd::string_view key = out.view(t[pos].s);
    const std::string ty   = t[pos + 1].s;
    pos += 2;
    if (pos >= t.size()) return false;
    if (ty == "b") out.kv.emplace_back(key, t[pos++].as_ll() != 0);
    else if (ty == "i32") out.kv.emplace_back(key, static_cast<int32_t>(t[pos++].as_ll()));
    else if (ty == "u32") out.kv.emplace_back(key, static_cast<uint32_t>(t[pos++].as_ull()));
    else if (ty == "i64") out.kv.emplace_back(key, static_cast<int64_t>(t[pos++].as_ll()));
    else if (ty == "u64") out.kv.emplace_back(key, static_cast<uint64_t>(t[pos++].as_ull()));
    else if (ty == "d") out.kv.emplace_back(key, bits_to_double(t[pos++].as_ull()));
    else if (ty == "sv")
    {
      if (t[pos].kind != Tok::BYTES) return false;
      out.kv.emplace_back(key, out.view(t[pos++].s));
    }
    else if (ty == "cs")
    {
      if (t[pos].kind != Tok::BYTES) return false;
      auto s = std::make_shared<std::string>(t[pos++].s);
      out.keep.push_back(s);
      out.kv.emplace_back(key, s->c_str());
    }
    else
    {
      if (t[pos].kind != Tok::INT) return false;
      size_t m = size_t(t[pos++].as_ull());
      if (pos + m > t.size()) return false;
      if (ty == "ab")
      {
        std::shared_ptr<bool> a(new bool[m ? m : 1], std::default_delete<bool[]>());
        for (size_t j = 0; j < m; j++) a.get()[j] = t[pos + j].as_ll() != 0;
        out.keep.push_back(a);
        out.kv.emplace_back(key, nostd::span<const bool>(a.get(), m));
      }
      else if (ty == "ai32") out.kv.emplace_back(key, out.arr<int32_t>(t, pos, m));
      else if (ty == "au32") out.kv.emplace_back(key, out.arr<uint32_t>(t, pos, m));
      else if (ty == "ai64") out.kv.emplace_back(key, out.arr<int64_t>(t, pos, m));
      else if (ty == "au64") out.kv.emplace_back(key, out.arr<uint64_t>(t, pos, m));
      else if (ty == "au8") out.kv.emplace_back(key, out.arr<uint8_t>(t, pos, m));
      else if (ty == "ad")
      {
        std::shared_ptr<double> a(new double[m ? m : 1], std::default_delete<double[]>());
        for (size_t j = 0; j < m; j++) a.get()[j] = bits_to_double(t[pos + j].as_ull());
        out.keep.push_back(a);
        out.kv.emplace_back(key, nostd::span<const double>(a.get(), m));
      }
      else if (ty == "asv")
      {
        std::shared_ptr<nostd::string_view> a(new nostd::string_view[m ? m : 1], std::default_delete<nostd::string_view[]>());
        for (size_t j = 0; j < m; j++)
        {
          if (t[pos + j].kind != Tok::BYTES) return false;
          a.get()[j] = out.view(t[pos + j].s);
        }
        out.keep.push_back(a);
        out.kv.emplace_back(key, nostd::span<const nostd::string_view>(a.get(), m));
      }
      else return false;
      pos += m;
    }
  }
  return true;
}

// in an isolated (ISO) run: tell the parent what has been observed so far, right before a call that may crash the process
static std::function<void(const Out &, const Out &)> g_checkpoint;

using KvView = opentelemetry::common::KeyValueIterableView<std::vector<std::pair<nostd::string_view, AttributeValue>>>;

// ------------------------------------------------------------------ printing owned attribute maps and tables
struct PrintVisitor
{
  Out &o;
  void operator()(bool v) { o.tag("b").num(v ? 1 : 0); }
  void operator()(int32_t v) { o.tag("i32").num(v); }
  void operator()(uint32_t v) { o.tag("u32").unum(v); }
  void operator()(int64_t v) { o.tag("i64").num(v); }
  void operator()(uint64_t v) { o.tag("u64").unum(v); }
  void operator()(double v) { o.tag("d").unum(double_to_bits(v)); }
  void operator()(const std::string &v) { o.tag("sv").bytes(v); }
  void operator()(const std::vector<bool> &v) { o.tag("ab").unum(v.size()); for (bool x : v) o.num(x ? 1 : 0); }
  void operator()(const std::vector<int32_t> &v) { o.tag("ai32").unum(v.size()); for (auto x : v) o.num(x); }
  void operator()(const std::vector<uint32_t> &v) { o.tag("au32").unum(v.size()); for (auto x : v) o.unum(x); }
  void operator()(const std::vector<int64_t> &v) { o.tag("ai64").unum(v.size()); for (auto x : v) o.num(x); }
  void operator()(const std::vector<uint64_t> &v) { o.tag("au64").unum(v.size()); for (auto x : v) o.unum(x); }
  void operator()(const std::vector<uint8_t> &v) { o.tag("au8").unum(v.size()); for (auto x : v) o.unum(x); }
  void operator()(const std::vector<double> &v) { o.tag("ad").unum(v.size()); for (auto x : v) o.unum(double_to_bits(x)); }
  void operator()(const std::vector<std::string> &v) { o.tag("asv").unum(v.size()); for (auto &x : v) o.bytes(x); }
};

static void print_attrs(const std::map<std::string, sdkc::OwnedAttributeValue> &m, Out &o)
{
  o.unum(m.size());
  for (const auto &kv : m)
  {
    o.bytes(kv.first);
    nostd::visit(PrintVisitor{o}, kv.second);
  }
}

// the sum of a point as an integer; a double sum that is not an integer below 2^53 cannot be compared exactly
static void print_sum(const sdkm::PointType &pt, Out &o)
{
  if (!nostd::holds_alternative<sdkm::SumPointData>(pt)) { o.tag("NOTSUM"); return; }
  const auto &v = nostd::get<sdkm::SumPointData>(pt).value_;
  if (nostd::holds_alternative<int64_t>(v)) o.num(nostd::get<int64_t>(v));
  else
  {
    double d = nostd::get<double>(v);
    if (d == std::floor(d) && std::fabs(d) < 9007199254740992.0) o.num(static_cast<long long>(d));
    else o.tag("INEXACT");
  }
}

struct Entry
{
  std::map<std::string, sdkc::OwnedAttributeValue> attrs;
  sdkm::PointType point;
};
static void print_table(const std::vector<Entry> &es, Out &o)
{
  o.unum(es.size());
  for (const auto &e : es)
  {
    print_attrs(e.attrs, o);
    print_sum(e.point, o);
  }
}
// nullptr aggregations (see HM cases) are not dereferenced
static std::vector<Entry> snapshot(const sdkm::AttributesHashMap &hm)
{
  std::vector<Entry> es;
  hm.GetAllEnteries([&](const sdkm::MetricAttributes &a, sdkm::Aggregation &agg) {
    es.push_back(Entry{a, agg.ToPoint()});
    return true;
  });
  return es;
}

// ------------------------------------------------------------------ filters
struct Filter
{
  bool none = true;
  std::unordered_map<std::string, bool> allow;
  std::unique_ptr<sdkm::AttributesProcessor> make() const
  {
    if (none) return std::unique_ptr<sdkm::AttributesProcessor>(new sdkm::DefaultAttributesProcessor());
    return std::unique_ptr<sdkm::AttributesProcessor>(new sdkm::FilteringAttributesProcessor(allow));
  }
};
// F0 | F x<key>*   occupying t[from..end)
static bool parse_filter(const std::vector<Tok> &t, size_t from, Filter &f)
{
  if (from >= t.size()) return false;
  if (t[from].is_tag("F0")) return from + 1 == t.size();
  if (!t[from].is_tag("F")) return false;
  f.none = false;
  for (size_t i = from + 1; i < t.size(); i++)
  {
    if (t[i].kind != Tok::BYTES) return false;
    f.allow[t[i].s] = true;
  }
  return true;
}

static std::unique_ptr<sdkm::Aggregation> fresh_sum(long long v = 0)
{
  std::unique_ptr<sdkm::Aggregation> a(new sdkm::LongSumAggregation(false));
  if (v != 0) a->Aggregate(static_cast<int64_t>(v));
  return a;
}

// ------------------------------------------------------------------ EQ
static void run_eq(const std::vector<std::vector<Tok>> &ch, Out &o)
{
  Filter f;
  if (ch.size() != 3 || !parse_filter(ch[0], 1, f)) { o.tag("BADCASE"); return; }
  Kvs a, b;
  size_t pa = 0, pb = 0;
  if (!parse_kvs(ch[1], pa, a) || pa != ch[1].size() || !parse_kvs(ch[2], pb, b) || pb != ch[2].size()) { o.tag("BADCASE"); return; }
  auto proc = f.make();
  KvView ia(a.kv), ib(b.kv);
  sdkm::MetricAttributes ma(ia, proc.get()), mb(ib, proc.get());
  o.tag("A"); print_attrs(ma, o);
  o.tag("B"); print_attrs(mb, o);
  bool base_eq = static_cast<const sdkc::OrderedAttributeMap &>(ma) == static_cast<const sdkc::OrderedAttributeMap &>(mb);
  o.boolean(base_eq);
  o.boolean(ma == mb);
  o.tag(!base_eq ? "h-" : (ma.GetHash() == mb.GetHash() && sdkm::MetricAttributesHash()(ma) == sdkm::MetricAttributesHash()(mb)) ? "h1" : "h0");
  {
    sdkm::AttributesHashMap hm(10);
    auto cb = []() { return fresh_sum(); };
    sdkm::Aggregation *p1 = hm.GetOrSetDefault(ia, proc.get(), cb);
    sdkm::Aggregation *p2 = hm.GetOrSetDefault(ib, proc.get(), cb);
    o.boolean(p1 == p2);
  }
  // the other construction path: processor->process(); without a filter also the null processor
  auto same = [](const sdkm::MetricAttributes &x, const sdkm::MetricAttributes &y) {
    Out ox, oy;
    print_attrs(x, ox);
    print_attrs(y, oy);
    return ox.line == oy.line;
  };
  auto via_a = proc->process(ia);
  auto via_b = proc->process(ib);
  bool paths = same(via_a, ma) && same(via_b, mb);
  bool phash = via_a.GetHash() == ma.GetHash() && via_b.GetHash() == mb.GetHash();
  if (f.none)
  {
    sdkm::MetricAttributes na(ia, nullptr), nb(ib);
    paths = paths && same(na, ma) && same(nb, mb);
    phash = phash && na.GetHash() == ma.GetHash() && nb.GetHash() == mb.GetHash();
  }
  o.boolean(paths);
  o.boolean(phash);
}

// ------------------------------------------------------------------ HM
static void run_hm(const std::vector<std::vector<Tok>> &ch, Out &o, Out &walks)
{
  Filter f;
  if (ch[0].size() < 3 || ch[0][1].kind != Tok::INT || !parse_filter(ch[0], 2, f)) { o.tag("BADCASE"); return; }
  sdkm::AttributesHashMap hm(size_t(ch[0][1].as_ull()));
  auto proc = f.make();
  auto cb   = []() { return fresh_sum(); };
  for (size_t i = 1; i < ch.size(); i++)
  {
    const auto &op = ch[i];
    if (i > 1) o.tag(";");
    if (op.empty()) { o.tag("BADCASE"); return; }
    if (op.size() == 1 && op[0].is_tag("Z")) { o.tag("size").unum(hm.Size()); continue; }
    if (op.size() == 1 && op[0].is_tag("D"))
    {
      auto es = snapshot(hm);
      o.tag("D"); print_table(es, o);
      walks.tag("W"); print_table(es, walks);
      continue;
    }
    bool gs = op[0].is_tag("G") || op[0].is_tag("S");
    size_t pos = gs ? 3 : 1;
    Kvs k;
    if (op.size() < pos || !parse_kvs(op, pos, k) || pos != op.size()) { o.tag("BADCASE"); return; }
    KvView it(k.kv);
    if (gs)
    {
      int how     = int(op[1].as_ll());
      long long d = op[2].as_ll();
      if (op[0].is_tag("G"))
      {
        sdkm::Aggregation *agg;
        if (how == 0) agg = hm.GetOrSetDefault(it, proc.get(), cb);
        else
        {
          sdkm::MetricAttributes attr(it, proc.get());
          if (how == 1) agg = hm.GetOrSetDefault(attr, cb);
          else agg = hm.GetOrSetDefault(std::move(attr), cb);
        }
        if (!agg) { o.tag("NULL"); return; }      // the table now holds a null aggregation: nothing more can be asked of it
        agg->Aggregate(static_cast<int64_t>(d));
        o.tag("-");
      }
      else
      {
        if (how == 0) hm.Set(it, proc.get(), fresh_sum(d));
        else
        {
          sdkm::MetricAttributes attr(it, proc.get());
          if (how == 1) hm.Set(attr, fresh_sum(d));
          else hm.Set(std::move(attr), fresh_sum(d));
        }
        o.tag("-");
      }
    }
    else if (op[0].is_tag("Q"))
    {
      sdkm::Aggregation *agg = hm.Get(sdkm::MetricAttributes(it, proc.get()));
      if (agg) { o.tag("v"); print_sum(agg->ToPoint(), o); }
      else o.tag("none");
    }
    else if (op[0].is_tag("H")) o.tag("has").boolean(hm.Has(sdkm::MetricAttributes(it, proc.get())));
    else { o.tag("BADCASE"); return; }
  }
}

// ------------------------------------------------------------------ ST
class Collector : public sdkm::CollectorHandle
{
public:
  explicit Collector(sdkm::AggregationTemporality t) : t_(t) {}
  sdkm::AggregationTemporality GetAggregationTemporality(sdkm::InstrumentType) noexcept override { return t_; }

private:
  sdkm::AggregationTemporality t_;
};

static sdkm::AggregationTemporality temporality(const Tok &t)
{
  return t.as_ll() == 0 ? sdkm::AggregationTemporality::kDelta : sdkm::AggregationTemporality::kCumulative;
}

static void run_st(const std::vector<std::vector<Tok>> &ch, Out &o, Out &walks)
{
  const auto &hd = ch[0];
  if (hd.size() < 6) { o.tag("BADCASE"); return; }
  bool is_long = hd[1].is_tag("L");
  bool mono    = hd[2].as_ll() != 0;
  size_t limit = size_t(hd[3].as_ull());
  size_t ncol  = size_t(hd[4].as_ull());
  Filter f;
  if (ncol < 1 || ncol > 4 || hd.size() < 5 + ncol + 1 || !parse_filter(hd, 5 + ncol, f)) { o.tag("BADCASE"); return; }
  auto proc = f.make();
  sdkm::InstrumentDescriptor desc{"ctr", "d", "u", mono ? sdkm::InstrumentType::kCounter : sdkm::InstrumentType::kUpDownCounter,
                                  is_long ? sdkm::InstrumentValueType::kLong : sdkm::InstrumentValueType::kDouble};
  sdkm::SyncMetricStorage st(desc, sdkm::AggregationType::kSum, proc.get(), nullptr, limit);
  std::vector<std::shared_ptr<sdkm::CollectorHandle>> cols;
  for (size_t i = 0; i < ncol; i++) cols.emplace_back(new Collector(temporality(hd[5 + i])));
  opentelemetry::context::Context ctx{};
  bool first = true;
  for (size_t i = 1; i < ch.size(); i++)
  {
    const auto &op = ch[i];
    if (op.size() == 2 && op[0].is_tag("R0"))
    {
      if (is_long) st.RecordLong(static_cast<int64_t>(op[1].as_ll()), ctx);
      else st.RecordDouble(static_cast<double>(op[1].as_ll()), ctx);
    }
    else if (op.size() >= 3 && op[0].is_tag("R"))
    {
      Kvs k;
      size_t pos = 2;
      if (!parse_kvs(op, pos, k) || pos != op.size()) { o.tag("BADCASE"); return; }
      KvView it(k.kv);
      if (is_long) st.RecordLong(static_cast<int64_t>(op[1].as_ll()), it, ctx);
      else st.RecordDouble(static_cast<double>(op[1].as_ll()), it, ctx);
    }
    else if (op.size() == 2 && op[0].is_tag("C"))
    {
      size_t c = size_t(op[1].as_ull());
      if (c >= ncol) { o.tag("BADCASE"); return; }
      if (!first) o.tag(";");
      first = false;
      walks.tag("W"); print_table(snapshot(*st.attributes_hashmap_), walks);
      if (g_checkpoint) g_checkpoint(o, walks);
      bool called = false;
      std::vector<Entry> es;
      st.Collect(cols[c].get(), nostd::span<std::shared_ptr<sdkm::CollectorHandle>>(cols.data(), cols.size()),
                 opentelemetry::common::SystemTimestamp{}, opentelemetry::common::SystemTimestamp{}, [&](sdkm::MetricData md) {
                   called = true;
                   for (auto &p : md.point_data_attr_) es.push_back(Entry{p.attributes, p.point_data});
                   return true;
                 });
      if (!called) o.tag("NOCB");
      else
      {
        o.tag("P"); print_table(es, o);
        walks.tag("W"); print_table(es, walks);
      }
    }
    else { o.tag("BADCASE"); return; }
  }
}

// ------------------------------------------------------------------ MP
class TestReader : public sdkm::MetricReader
{
public:
  explicit TestReader(sdkm::AggregationTemporality t) : t_(t) {}
  sdkm::AggregationTemporality GetAggregationTemporality(sdkm::InstrumentType) const noexcept override { return t_; }

private:
  bool OnForceFlush(std::chrono::microseconds) noexcept override { return true; }
  bool OnShutDown(std::chrono::microseconds) noexcept override { return true; }
  void OnInitialized() noexcept override {}
  sdkm::AggregationTemporality t_;
};

static void run_mp(const std::vector<std::vector<Tok>> &ch, Out &o, Out &walks)
{
  const auto &hd = ch[0];
  if (hd.size() < 4) { o.tag("BADCASE"); return; }
  bool is_long = hd[1].is_tag("L");
  size_t ncol  = size_t(hd[2].as_ull());
  Filter f;
  if (ncol < 1 || ncol > 4 || hd.size() < 3 + ncol + 1 || !parse_filter(hd, 3 + ncol, f)) { o.tag("BADCASE"); return; }

  sdkm::MeterProvider mp;
  std::vector<std::shared_ptr<sdkm::MetricReader>> readers;
  for (size_t i = 0; i < ncol; i++)
  {
    readers.emplace_back(new TestReader(temporality(hd[3 + i])));
    mp.AddMetricReader(readers.back());
  }
  const std::string name = "ctr", unit = "u";
  if (!f.none)
  {
    std::unique_ptr<sdkm::View> view{new sdkm::View("", "", unit, sdkm::AggregationType::kDefault, nullptr, f.make())};
    std::unique_ptr<sdkm::InstrumentSelector> is{new sdkm::InstrumentSelector(sdkm::InstrumentType::kCounter, name, unit)};
    std::unique_ptr<sdkm::MeterSelector> ms{new sdkm::MeterSelector("m", "1", "s")};
    mp.AddView(std::move(is), std::move(ms), std::move(view));
  }
  auto meter = mp.GetMeter("m", "1", "s");
  nostd::unique_ptr<opentelemetry::metrics::Counter<uint64_t>> cl;
  nostd::unique_ptr<opentelemetry::metrics::Counter<double>> cd;
  if (is_long) cl = meter->CreateUInt64Counter(name, "d", unit);
  else cd = meter->CreateDoubleCounter(name, "d", unit);
  // the storage behind the instrument (for the iteration order of its per-interval table only)
  auto *sdk_meter = static_cast<sdkm::Meter *>(meter.get());
  auto reg        = sdk_meter->storage_registry_.find(name);
  if (reg == sdk_meter->storage_registry_.end()) { o.tag("NOSTORAGE"); return; }
  auto *st = static_cast<sdkm::SyncMetricStorage *>(reg->second.get());
  opentelemetry::context::Context ctx{};
  bool first = true;
  for (size_t i = 1; i < ch.size(); i++)
  {
    const auto &op = ch[i];
    if (op.size() == 2 && op[0].is_tag("R0"))
    {
      if (op[1].as_ll() < 0) { o.tag("BADCASE"); return; }
      if (is_long) cl->Add(op[1].as_ull(), ctx);
      else cd->Add(static_cast<double>(op[1].as_ll()), ctx);
    }
    else if (op.size() >= 3 && op[0].is_tag("R"))
    {
      Kvs k;
      size_t pos = 2;
      if (op[1].as_ll() < 0 || !parse_kvs(op, pos, k) || pos != op.size()) { o.tag("BADCASE"); return; }
      KvView it(k.kv);
      if (is_long) cl->Add(op[1].as_ull(), it, ctx);
      else cd->Add(static_cast<double>(op[1].as_ll()), it, ctx);
    }
    else if (op.size() == 2 && op[0].is_tag("C"))
    {
      size_t c = size_t(op[1].as_ull());
      if (c >= ncol) { o.tag("BADCASE"); return; }
      if (!first) o.tag(";");
      first = false;
      walks.tag("W"); print_table(snapshot(*st->attributes_hashmap_), walks);
      if (g_checkpoint) g_checkpoint(o, walks);
      bool called = false;
      std::vector<Entry> es;
      readers[c]->Collect([&](sdkm::ResourceMetrics &rm) {
        for (const auto &sm : rm.scope_metric_data_)
          for (const auto &md : sm.metric_data_)
          {
            called = true;
            for (const auto &p : md.point_data_attr_) es.push_back(Entry{p.attributes, p.point_data});
          }
        return true;
      });
      if (!called) o.tag("NOCB");
      else
      {
        o.tag("P"); print_table(es, o);
        walks.tag("W"); print_table(es, walks);
      }
    }
    else { o.tag("BADCASE"); return; }
  }
}

static void run_one(const std::vector<Tok> &t, size_t from, Out &o)
{
  auto ch = verif::split_toks(t, "|", from);
  Out walks;
  if (ch.empty() || ch[0].empty()) o.tag("BADCASE");
  else if (ch[0][0].is_tag("EQ")) run_eq(ch, o);
  else if (ch[0][0].is_tag("HM")) run_hm(ch, o, walks);
  else if (ch[0][0].is_tag("ST")) run_st(ch, o, walks);
  else if (ch[0][0].is_tag("MP")) run_mp(ch, o, walks);
  else o.tag("BADCASE");
  o.tag("||");
  if (!walks.line.empty()) o.add(walks.line);
}

// ISO <case>: run the case in a child process, so that a crash of the code under test is an observation (CRASH) of this case.
// The child reports "C\n<observation so far>\n<walks so far>\n" before every Collect and "F\n<line>\n" at the end.
static void write_all(int fd, const std::string &s)
{
  size_t off = 0;
  while (off < s.size())
  {
    ssize_t w = write(fd, s.data() + off, s.size() - off);
    if (w <= 0) break;
    off += size_t(w);
  }
}
static void run_isolated(const std::vector<Tok> &t, Out &o)
{
  int fds[2];
  if (pipe(fds) != 0) { o.tag("BADCASE"); return; }
  std::fflush(stdout);
  pid_t pid = fork();
  if (pid < 0) { o.tag("BADCASE"); return; }
  if (pid == 0)
  {
    close(fds[0]);
    // the sanitizer's report of the crash is not part of the output
    int devnull = open("/dev/null", O_WRONLY);
    if (devnull >= 0) { dup2(devnull, 2); dup2(devnull, 1); }
    int wfd      = fds[1];
    g_checkpoint = [wfd](const Out &co, const Out &cw) { write_all(wfd, "C\n" + co.line + "\n" + cw.line + "\n"); };
    Out co;
    run_one(t, 1, co);
    write_all(wfd, "F\n" + co.line + "\n");
    close(wfd);
    _exit(0);
  }
  close(fds[1]);
  std::string got;
  char buf[65536];
  ssize_t r;
  while ((r = read(fds[0], buf, sizeof buf)) > 0) got.append(buf, size_t(r));
  close(fds[0]);
  int status = 0;
  waitpid(pid, &status, 0);
  std::vector<std::string> lines;
  {
    std::istringstream is(got);
    std::string l;
    while (std::getline(is, l)) lines.push_back(l);
  }
  std::string fin, co, cw;
  bool have_fin = false;
  for (size_t i = 0; i < lines.size();)
  {
    if (lines[i] == "F" && i + 1 < lines.size()) { fin = lines[i + 1]; have_fin = true; i += 2; }
    else if (lines[i] == "C" && i + 2 < lines.size()) { co = lines[i + 1]; cw = lines[i + 2]; i += 3; }
    else break;
  }
  if (WIFEXITED(status) && WEXITSTATUS(status) == 0 && have_fin) o.add(fin);
  else
  {
    if (!co.empty()) o.add(co);
    o.tag("CRASH").tag("||");
    if (!cw.empty()) o.add(cw);
  }
}

int main(int argc, char **argv)
{
  using namespace opentelemetry::sdk::common::internal_log;
  GlobalLogHandler::SetLogHandler(nostd::shared_ptr<LogHandler>(new NoopLogHandler()));
  GlobalLogHandler::SetLogLevel(LogLevel::None);
  return verif::run_cases(argc, argv, [](const std::vector<Tok> &t, Out &o) {
    if (!t.empty() && t[0].is_tag("ISO")) run_isolated(t, o);
    else run_one(t, 0, o);
  });
}
