// C11 driver: CircularBuffer / AtomicUniquePtr / SpinLockMutex from scratch copies whose std::atomic,
// std::this_thread are rewritten to the scheduler shim (tools/shimcopy.py), run under the schedule
// given in the case.  Prints "<summary> || <event trace>".
//
// case  RING <max_size> | p e1 e2 .. | p e1 .. | c k1 k2 .. | s t f t f ..
//       producers are threads 0..P-1 (one per "p" section, adding elements with the given positive ids in
//       order through Add(std::unique_ptr<T>&)), the consumer is thread P ("c" section: for each k
//       n = size(); Consume(min(n,k)) (k = 0: Consume(n)) collecting every element of the range),
//       "s" = schedule entries "<tid> <flag>" (flag 2 = spurious weak-CAS failure).
//       summary: R <per Add in case order: 1 added / 0 refused and caller still owns its element / 2 anomaly>
//                G <ids consumed, in order>  D <ids destroyed by the buffer's destructor> L <elements alive at the end>
//                X <elements destroyed more than once> Z <size() snapshots of the consumer>
// case  SPIN | l n | t n | ... | s ...   one thread per section: "l n" = n times { lock(); cs; unlock(); },
//       "t n" = n times { if (try_lock()) { cs; unlock(); } }.  cs = in_cs.fetch_add(1); in_cs.fetch_sub(1) on a
//       shim atomic, so that other threads can be scheduled inside the critical section.
//       summary: M <maximum number of threads seen inside the critical section> A <number of acquisitions>
#include <algorithm>
#include <map>
#include <memory>
#include <set>

#include "sched/sched_driver.h"

#define private public
#include "opentelemetry/sdk/common/circular_buffer.h"
#undef private
#define private public
#include "opentelemetry/common/spin_lock_mutex.h"
#undef private

using namespace verif;
using opentelemetry::sdk::common::AtomicUniquePtr;
using opentelemetry::sdk::common::CircularBuffer;
using opentelemetry::sdk::common::CircularBufferRange;

namespace
{
struct Elem
{
  static std::map<int, int> &destroyed()
  {
    static std::map<int, int> m;
    return m;
  }
  static int &alive()
  {
    static int a = 0;
    return a;
  }
  int id;
  explicit Elem(int i) : id(i) { alive()++; }
  ~Elem()
  {
    alive()--;
    destroyed()[id]++;
  }
};

void run_ring(const std::vector<std::vector<Tok>> &secs, Out &o)
{
  size_t max_size = (size_t)secs[0][1].as_ull();
  Sched &S        = Sched::I();
  S.reset();
  S.ptr_id = [](const void *p) { return p ? (long long)static_cast<const Elem *>(p)->id : 0LL; };
  auto buf = std::unique_ptr<CircularBuffer<Elem>>(new CircularBuffer<Elem>(max_size));
  S.name(&buf->head_, "head");
  S.name(&buf->tail_, "tail");
  for (size_t i = 0; i < buf->capacity_; i++) S.name(&buf->data_[i].ptr_, "slot " + std::to_string(i));

  std::vector<std::vector<int>> prod;
  std::vector<int> cons;
  bool have_cons = false;
  for (size_t i = 1; i < secs.size(); i++)
  {
    if (secs[i].empty()) continue;
    if (secs[i][0].is_tag("p"))
    {
      prod.emplace_back();
      for (size_t j = 1; j < secs[i].size(); j++) prod.back().push_back((int)secs[i][j].as_ll());
    }
    else if (secs[i][0].is_tag("c"))
    {
      have_cons = true;
      for (size_t j = 1; j < secs[i].size(); j++) cons.push_back((int)secs[i][j].as_ll());
    }
    else if (secs[i][0].is_tag("s"))
      S.set_schedule(parse_schedule(std::vector<Tok>(secs[i].begin() + 1, secs[i].end())));
  }
  std::vector<std::vector<int>> results(prod.size());
  std::vector<int> got, sizes;
  CircularBuffer<Elem> *b = buf.get();
  for (size_t p = 0; p < prod.size(); p++)
  {
    S.spawn([&, p] {
      for (int e : prod[p])
      {
        std::unique_ptr<Elem> ptr(new Elem(e));
        S.log("call add " + std::to_string(e));
        bool ok = b->Add(ptr);
        int r   = ok ? (ptr == nullptr ? 1 : 2) : ((ptr != nullptr && ptr->id == e) ? 0 : 2);
        S.log("ret add " + std::to_string(e) + " " + (ok ? "1" : "0"));
        results[p].push_back(r);
      }
    });
  }
  if (have_cons)
  {
    S.spawn([&] {
      for (int k : cons)
      {
        size_t n = b->size();
        sizes.push_back((int)n);
        size_t m = (k == 0 || (size_t)k > n) ? n : (size_t)k;
        S.log("call consume " + std::to_string(m));
        b->Consume(m, [&](CircularBufferRange<AtomicUniquePtr<Elem>> range) noexcept {
          range.ForEach([&](AtomicUniquePtr<Elem> &ptr) noexcept {
            std::unique_ptr<Elem> out;
            ptr.Swap(out);
            got.push_back(out ? out->id : 0);
            return true;
          });
        });
        S.log("ret consume " + std::to_string(m));
      }
    });
  }
  // a correct run of these tiny configurations needs a few hundred steps; a run that does not end (livelock of a
  // broken Add) is cut here and reported as STEPLIMIT with the trace so far
  S.set_step_limit(1200);
  S.run_all();
  // destruction by the controller thread (no other thread is alive): whatever is still queued is freed
  std::set<int> before;
  for (auto &kv : Elem::destroyed()) before.insert(kv.first);
  S.log("call destroy");
  buf.reset();
  S.log("ret destroy");
  o.tag("R");
  for (auto &r : results)
    for (int x : r) o.num(x);
  o.tag("G");
  for (int g : got) o.num(g);
  o.tag("D");
  for (auto &kv : Elem::destroyed())
    if (!before.count(kv.first)) o.num(kv.first);
  o.tag("L").num(Elem::alive());
  int dbl = 0;
  for (auto &kv : Elem::destroyed())
    if (kv.second > 1) dbl++;
  o.tag("X").num(dbl);
  o.tag("Z");
  for (int z : sizes) o.num(z);
  o.tag("||");
  o.add(S.log_line());
}

void run_spin(const std::vector<std::vector<Tok>> &secs, Out &o)
{
  Sched &S = Sched::I();
  S.reset();
  opentelemetry::common::SpinLockMutex mtx;
  verif::atomic<int> in_cs(0);
  S.name(&mtx.flag_, "flag");
  S.name(&in_cs, "incs");
  int max_in = 0, acq = 0;
  for (size_t i = 1; i < secs.size(); i++)
  {
    if (secs[i].empty()) continue;
    if (secs[i][0].is_tag("s"))
    {
      S.set_schedule(parse_schedule(std::vector<Tok>(secs[i].begin() + 1, secs[i].end())));
      continue;
    }
    bool is_try = secs[i][0].is_tag("t");
    int n       = secs[i].size() > 1 ? (int)secs[i][1].as_ll() : 1;
    S.spawn([&, is_try, n] {
      for (int k = 0; k < n; k++)
      {
        bool have;
        if (is_try)
        {
          S.log("call trylock");
          have = mtx.try_lock();
          S.log(std::string("ret trylock ") + (have ? "1" : "0"));
        }
        else
        {
          S.log("call lock");
          mtx.lock();
          S.log("ret lock");
          have = true;
        }
        if (have)
        {
          acq++;
          int v = in_cs.fetch_add(1) + 1;
          max_in = std::max(max_in, v);
          in_cs.fetch_sub(1);
          S.log("call unlock");
          mtx.unlock();
          S.log("ret unlock");
        }
      }
    });
  }
  S.set_step_limit(3000);
  S.run_all();
  o.tag("M").num(max_in).tag("A").num(acq);
  o.tag("||");
  o.add(S.log_line());
}
}  // namespace

int main(int argc, char **argv)
{
  return run_cases_forked(argc, argv, [](const std::vector<Tok> &t, Out &o) {
    if (t.empty())
    {
      o.tag("BADCASE");
      return;
    }
    auto secs = split_toks(t, "|");
    if (t[0].is_tag("RING") && secs[0].size() >= 2)
      run_ring(secs, o);
    else if (t[0].is_tag("SPIN"))
      run_spin(secs, o);
    else
      o.tag("BADCASE");
  });
}
