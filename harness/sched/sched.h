// Deterministic scheduler shim (engine E-sched, DESIGN.md 2.3).
//
// Unmodified SDK sources are copied to a scratch directory with a fixed token table applied
// (std::atomic< -> verif::atomic<, std::thread -> verif::thread, std::mutex -> verif::mutex,
// std::condition_variable -> verif::condition_variable, steady/system_clock::now() -> verif::*_now(),
// std::this_thread:: -> verif::this_thread::) by tools/shimcopy.py and compiled against this header.
//
// Logical threads are real std::threads run under a baton: exactly one runs at a time.  Every shim
// operation on a shared object is a *scheduling point*: the thread announces its pending operation and
// blocks until the schedule (a list of "<tid> <flag>" entries from the case file) picks it; the
// operation is then performed and logged.  Entries naming a thread that is finished, unknown or not
// enabled are skipped.  When the schedule is exhausted a deterministic fallback is used: the
// next enabled thread in round-robin order that is not an un-notified condition-variable waiter; if there is
// none, the next waiter in round-robin order is woken (a timed wait times out, an untimed one wakes spuriously).
// Time is virtual: it advances only when a timed wait times out (to that wait's deadline) and by 1us
// per clock read, so time-outs, spurious wake-ups and spurious weak-CAS failures are choices recorded
// in the schedule and replay exactly.  memory_order arguments are ignored (sequential consistency).
//
// flag of a schedule entry: 0 = normal; 1 = a condition-variable waiter picked with this flag times
// out (timed wait) instead of waking normally; 2 = a compare_exchange_weak picked with this flag fails
// spuriously.  Flags that do not apply to the pending operation are ignored.
#pragma once
#include <atomic>
#include <chrono>
#include <condition_variable>
#include <cstdint>
#include <cstdio>
#include <cstdlib>
#include <functional>
#include <map>
#include <memory>
#include <mutex>
#include <string>
#include <thread>
#include <type_traits>
#include <unistd.h>
#include <utility>
#include <vector>

namespace verif
{
class mutex;
class condition_variable;

enum PendKind { P_ANY, P_LOCK, P_JOIN, P_CVWAIT };
struct Pending
{
  PendKind kind = P_ANY;
  const void *obj = nullptr;  // mutex / cv
  int target      = -1;       // join target tid
  bool timed      = false;    // cv wait with a time-out
};

struct LThread
{
  int tid;
  std::thread real;
  std::function<void()> body;
  std::condition_variable cv;
  Pending pending;
  bool started  = false;
  bool finished = false;
  bool joined_real = false;
  int granted_flag = 0;
  bool cv_notified = false;  // set by notify while waiting on a cv
};

class Sched
{
public:
  static Sched &I()
  {
    static Sched s;
    return s;
  }

  // ---- configuration (controller thread, before run_all)
  void reset()
  {
    schedule_.clear();
    idx_ = 0;
    log_.clear();
    names_.clear();
    auto_names_ = 0;
    vclock_ns_  = 1000000000LL;
    steps_      = 0;
    deadlock_   = false;
    step_limit_hit_ = false;
    threads_.clear();
    current_ = -1;
    last_pick_ = -1;
    held_.clear();
  }
  void set_schedule(std::vector<std::pair<int, int>> s) { schedule_ = std::move(s); }
  void set_step_limit(long n) { step_limit_ = n; }
  void name(const void *addr, const std::string &n) { names_[addr] = n; }
  // how pointer values stored in atomics are printed (default: 0 for null, 1 otherwise)
  std::function<long long(const void *)> ptr_id = [](const void *p) { return p ? 1LL : 0LL; };

  // ---- logical threads
  int spawn(std::function<void()> body)
  {
    std::unique_lock<std::mutex> lk(mu_);
    int tid = static_cast<int>(threads_.size());
    threads_.emplace_back(new LThread());
    LThread *t = threads_.back().get();
    t->tid     = tid;
    t->body    = std::move(body);
    t->real    = std::thread([this, t] { this->thread_main(t); });
    return tid;
  }

  // controller: run until every logical thread has finished (or deadlock / step limit)
  void run_all()
  {
    std::unique_lock<std::mutex> lk(mu_);
    dispatch();
    done_cv_.wait(lk, [this] { return all_finished() || deadlock_ || step_limit_hit_; });
    if (deadlock_ || step_limit_hit_)
    {
      // cannot unwind blocked threads: report and leave the process
      flush_and_die(deadlock_ ? "DEADLOCK" : "STEPLIMIT");
    }
    lk.unlock();
    for (auto &t : threads_)
      if (t->real.joinable()) t->real.join();
  }

  static int self() { return tls_tid(); }
  int die_fd = 1;  // where DEADLOCK / STEPLIMIT reports go
  size_t die_log_cap = 3000;

  // ---- scheduling point: returns the flag of the entry that picked this thread
  int point(const Pending &p)
  {
    int me = tls_tid();
    if (me < 0) return 0;  // controller thread: no other thread may be live
    std::unique_lock<std::mutex> lk(mu_);
    LThread *t = threads_[me].get();
    t->pending = p;
    dispatch();
    t->cv.wait(lk, [this, me] { return current_ == me; });
    return t->granted_flag;
  }

  // ---- logging (called with the baton held, i.e. by the running thread)
  void log(const std::string &ev)
  {
    std::lock_guard<std::mutex> lk(log_mu_);
    log_.push_back(std::to_string(tls_tid()) + " " + ev);
  }
  std::string log_line() const
  {
    std::string r;
    for (auto &e : log_)
    {
      if (!r.empty()) r += " ; ";
      r += e;
    }
    return r;
  }
  const std::vector<std::string> &events() const { return log_; }

  std::string obj_name(const void *a)
  {
    auto it = names_.find(a);
    if (it != names_.end()) return it->second;
    std::string n = "o" + std::to_string(auto_names_++);
    names_[a]     = n;
    return n;
  }

  // ---- virtual time
  long long now_ns()
  {
    vclock_ns_ += 1000;
    return vclock_ns_;
  }
  long long peek_ns() const { return vclock_ns_; }
  void advance_to(long long ns)
  {
    if (ns > vclock_ns_) vclock_ns_ = ns;
  }

  // ---- mutex bookkeeping (baton held)
  bool is_held(const void *m) { return held_.count(m) && held_[m] >= 0; }
  void set_held(const void *m, int tid) { held_[m] = tid; }
  void clear_held(const void *m) { held_[m] = -1; }

  void notify_waiters(const void *cvobj)
  {
    for (auto &t : threads_)
      if (!t->finished && t->pending.kind == P_CVWAIT && t->pending.obj == cvobj) t->cv_notified = true;
  }
  bool take_notified()
  {
    LThread *t = threads_[tls_tid()].get();
    bool n     = t->cv_notified;
    t->cv_notified = false;
    return n;
  }
  bool thread_finished(int tid) { return tid >= 0 && tid < (int)threads_.size() && threads_[tid]->finished; }
  void join_real(int tid)
  {
    LThread *t = threads_[tid].get();
    // the real thread ends right after marking itself finished; joining it outside the baton is safe
    (void)t;
  }
  long steps() const { return steps_; }

  static int &tls_tid()
  {
    static thread_local int t = -1;
    return t;
  }

private:
  std::mutex mu_, log_mu_;
  std::condition_variable done_cv_;
  std::vector<std::unique_ptr<LThread>> threads_;
  std::vector<std::pair<int, int>> schedule_;
  size_t idx_ = 0;
  int current_ = -1;
  int last_pick_ = -1;
  std::vector<std::string> log_;
  std::map<const void *, std::string> names_;
  std::map<const void *, int> held_;
  int auto_names_ = 0;
  long long vclock_ns_ = 1000000000LL;
  long steps_ = 0, step_limit_ = 200000;
  bool deadlock_ = false, step_limit_hit_ = false;

  bool all_finished()
  {
    for (auto &t : threads_)
      if (!t->finished) return false;
    return true;
  }
  bool enabled(LThread *t)
  {
    if (t->finished) return false;
    switch (t->pending.kind)
    {
      case P_LOCK:
        return !is_held(t->pending.obj);
      case P_JOIN:
        return thread_finished(t->pending.target);
      default:
        return true;
    }
  }
  // choose the next thread and hand it the baton (mu_ held)
  void dispatch()
  {
    if (all_finished())
    {
      current_ = -1;
      done_cv_.notify_all();
      return;
    }
    if (++steps_ > step_limit_)
    {
      step_limit_hit_ = true;
      current_        = -1;
      done_cv_.notify_all();
      return;
    }
    int pick = -1, flag = 0;
    while (idx_ < schedule_.size())
    {
      auto e = schedule_[idx_++];
      if (e.first >= 0 && e.first < (int)threads_.size() && enabled(threads_[e.first].get()))
      {
        pick = e.first;
        flag = e.second;
        break;
      }
    }
    if (pick < 0)
    {
      // fair fallback: round-robin from the thread after the one that ran last
      int n = (int)threads_.size();
      for (int k = 1; k <= n && pick < 0; k++)
      {
        LThread *t = threads_[(last_pick_ + k) % n].get();
        if (enabled(t) && !(t->pending.kind == P_CVWAIT && !t->cv_notified)) pick = t->tid;
      }
      for (int k = 1; k <= n && pick < 0; k++)
      {
        LThread *t = threads_[(last_pick_ + k) % n].get();
        if (enabled(t))
        {
          pick = t->tid;
          flag = 1;  // wake an un-notified waiter: timed waits time out
        }
      }
    }
    if (pick < 0)
    {
      deadlock_ = true;
      current_  = -1;
      done_cv_.notify_all();
      return;
    }
    current_                     = pick;
    last_pick_                   = pick;
    threads_[pick]->granted_flag = flag;
    threads_[pick]->cv.notify_all();
  }
  void thread_main(LThread *t)
  {
    tls_tid() = t->tid;
    {
      std::unique_lock<std::mutex> lk(mu_);
      t->cv.wait(lk, [this, t] { return current_ == t->tid; });
      t->started = true;
    }
    t->body();
    {
      std::unique_lock<std::mutex> lk(mu_);
      t->finished = true;
      dispatch();
    }
  }
  [[noreturn]] void flush_and_die(const char *why)
  {
    // a run-away run (a call that never returns polls for ever) is reported with the first die_log_cap events: the
    // acceptors are prefix-closed, and the verdict is the DEADLOCK / STEPLIMIT tag itself
    std::string body;
    size_t n = 0;
    for (auto &e : log_)
    {
      if (n++ >= die_log_cap) break;
      if (!body.empty()) body += " ; ";
      body += e;
    }
    std::string s = std::string(why) + " || " + body + "\n";
    size_t off = 0;
    while (off < s.size())
    {
      ssize_t w = ::write(die_fd, s.data() + off, s.size() - off);
      if (w <= 0) break;
      off += (size_t)w;
    }
    std::_Exit(97);
  }
};

// ------------------------------------------------------------------------------ values -> text
template <class T, class = void>
struct ValStr
{
  static std::string s(const T &) { return "?"; }
};
template <class T>
struct ValStr<T, typename std::enable_if<std::is_integral<T>::value>::type>
{
  static std::string s(const T &v) { return std::to_string((long long)v); }
};
template <>
struct ValStr<bool, void>
{
  static std::string s(const bool &v) { return v ? "1" : "0"; }
};
template <class T>
struct ValStr<T *, void>
{
  static std::string s(T *const &v) { return std::to_string(Sched::I().ptr_id((const void *)v)); }
};
template <class T>
struct ValStr<T, typename std::enable_if<std::is_enum<T>::value>::type>
{
  static std::string s(const T &v) { return std::to_string((long long)v); }
};

// ------------------------------------------------------------------------------ atomic
template <class T>
class atomic
{
public:
  atomic() noexcept : v_() {}
  constexpr atomic(T v) noexcept : v_(v) {}
  atomic(const atomic &)            = delete;
  atomic &operator=(const atomic &) = delete;

  T load(std::memory_order = std::memory_order_seq_cst) const noexcept
  {
    pt();
    T r = v_;
    lg("ld", ValStr<T>::s(r));
    return r;
  }
  void store(T d, std::memory_order = std::memory_order_seq_cst) noexcept
  {
    pt();
    v_ = d;
    lg("st", ValStr<T>::s(d));
  }
  T exchange(T d, std::memory_order = std::memory_order_seq_cst) noexcept
  {
    pt();
    T old = v_;
    v_    = d;
    lg("xchg", ValStr<T>::s(d) + " " + ValStr<T>::s(old));
    return old;
  }
  bool compare_exchange_strong(T &expected, T desired, std::memory_order = std::memory_order_seq_cst,
                               std::memory_order = std::memory_order_seq_cst) noexcept
  {
    pt();
    return cas("cass", expected, desired, false);
  }
  bool compare_exchange_weak(T &expected, T desired, std::memory_order = std::memory_order_seq_cst,
                             std::memory_order = std::memory_order_seq_cst) noexcept
  {
    int flag = pt();
    return cas("casw", expected, desired, flag == 2);
  }
  template <class U = T>
  typename std::enable_if<std::is_integral<U>::value, T>::type fetch_add(
      T d, std::memory_order = std::memory_order_seq_cst) noexcept
  {
    pt();
    T old = v_;
    v_    = (T)(v_ + d);
    lg("fadd", ValStr<T>::s(d) + " " + ValStr<T>::s(old));
    return old;
  }
  template <class U = T>
  typename std::enable_if<std::is_integral<U>::value, T>::type fetch_sub(
      T d, std::memory_order = std::memory_order_seq_cst) noexcept
  {
    pt();
    T old = v_;
    v_    = (T)(v_ - d);
    lg("fsub", ValStr<T>::s(d) + " " + ValStr<T>::s(old));
    return old;
  }
  operator T() const noexcept { return load(); }
  T operator=(T d) noexcept
  {
    store(d);
    return d;
  }
  template <class U = T>
  typename std::enable_if<std::is_integral<U>::value, T>::type operator+=(T d) noexcept
  {
    return (T)(fetch_add(d) + d);
  }
  template <class U = T>
  typename std::enable_if<std::is_integral<U>::value, T>::type operator++() noexcept
  {
    return (T)(fetch_add(1) + 1);
  }
  template <class U = T>
  typename std::enable_if<std::is_integral<U>::value, T>::type operator++(int) noexcept
  {
    return fetch_add(1);
  }
  // unlogged access for the harness
  T raw() const { return v_; }

private:
  T v_;
  int pt() const { return Sched::I().point(Pending{}); }
  void lg(const char *op, const std::string &rest) const
  {
    Sched::I().log(std::string(op) + " " + Sched::I().obj_name(this) + " " + rest);
  }
  bool cas(const char *op, T &expected, T desired, bool spurious) noexcept
  {
    T seen = v_;
    bool ok = !spurious && seen == expected;
    lg(op, ValStr<T>::s(expected) + " " + ValStr<T>::s(desired) + " " + ValStr<T>::s(seen) + " " + (ok ? "1" : "0"));
    if (ok)
      v_ = desired;
    else
      expected = seen;
    return ok;
  }
};

// ------------------------------------------------------------------------------ atomic_flag
class atomic_flag
{
public:
  atomic_flag() noexcept : v_(false) {}
  atomic_flag(int v) noexcept : v_(v != 0) {}   // "= ATOMIC_FLAG_INIT"
  atomic_flag(const atomic_flag &)            = delete;
  atomic_flag &operator=(const atomic_flag &) = delete;
  bool test_and_set(std::memory_order = std::memory_order_seq_cst) noexcept
  {
    Sched::I().point(Pending{});
    bool old = v_;
    v_       = true;
    Sched::I().log("tas " + Sched::I().obj_name(this) + " " + (old ? "1" : "0"));
    return old;
  }
  void clear(std::memory_order = std::memory_order_seq_cst) noexcept
  {
    Sched::I().point(Pending{});
    v_ = false;
    Sched::I().log("clr " + Sched::I().obj_name(this));
  }

private:
  bool v_;
};

// ------------------------------------------------------------------------------ mutex
class mutex
{
public:
  mutex() noexcept {}
  mutex(const mutex &)            = delete;
  mutex &operator=(const mutex &) = delete;
  void lock()
  {
    Pending p;
    p.kind = P_LOCK;
    p.obj  = this;
    Sched::I().point(p);
    Sched::I().set_held(this, Sched::self());
    Sched::I().log("lock " + Sched::I().obj_name(this));
  }
  bool try_lock()
  {
    Sched::I().point(Pending{});
    bool ok = !Sched::I().is_held(this);
    if (ok) Sched::I().set_held(this, Sched::self());
    Sched::I().log("trylock " + Sched::I().obj_name(this) + (ok ? " 1" : " 0"));
    return ok;
  }
  void unlock()
  {
    Sched::I().clear_held(this);
    Sched::I().log("unlock " + Sched::I().obj_name(this));
  }
};

enum class cv_status { no_timeout, timeout };

// ------------------------------------------------------------------------------ condition variable
class condition_variable
{
public:
  condition_variable() noexcept {}
  condition_variable(const condition_variable &)            = delete;
  condition_variable &operator=(const condition_variable &) = delete;

  void notify_one() noexcept { notify_all(); }
  void notify_all() noexcept
  {
    Sched::I().notify_waiters(this);
    Sched::I().log("notify " + Sched::I().obj_name(this));
  }
  void wait(std::unique_lock<mutex> &lk) { wait_step(lk, false, 0); }
  template <class Pred>
  void wait(std::unique_lock<mutex> &lk, Pred pred)
  {
    while (!pred()) wait_step(lk, false, 0);
  }
  template <class Rep, class Period>
  cv_status wait_for(std::unique_lock<mutex> &lk, const std::chrono::duration<Rep, Period> &d)
  {
    return wait_step(lk, true, deadline_of(d)) ? cv_status::timeout : cv_status::no_timeout;
  }
  template <class Rep, class Period, class Pred>
  bool wait_for(std::unique_lock<mutex> &lk, const std::chrono::duration<Rep, Period> &d, Pred pred)
  {
    long long dl = deadline_of(d);
    while (!pred())
    {
      if (wait_step(lk, true, dl)) return pred();
    }
    return true;
  }
  template <class Clock, class Dur>
  cv_status wait_until(std::unique_lock<mutex> &lk, const std::chrono::time_point<Clock, Dur> &tp)
  {
    long long dl = std::chrono::duration_cast<std::chrono::nanoseconds>(tp.time_since_epoch()).count();
    return wait_step(lk, true, dl) ? cv_status::timeout : cv_status::no_timeout;
  }
  template <class Clock, class Dur, class Pred>
  bool wait_until(std::unique_lock<mutex> &lk, const std::chrono::time_point<Clock, Dur> &tp, Pred pred)
  {
    long long dl = std::chrono::duration_cast<std::chrono::nanoseconds>(tp.time_since_epoch()).count();
    while (!pred())
    {
      if (wait_step(lk, true, dl)) return pred();
    }
    return true;
  }

private:
  template <class Rep, class Period>
  static long long deadline_of(const std::chrono::duration<Rep, Period> &d)
  {
    long long now = Sched::I().peek_ns();
    long double ns = std::chrono::duration<long double, std::nano>(d).count();
    if (ns <= 0) return now;
    if (ns > 4.0e18L - (long double)now) return (long long)4000000000000000000LL;
    return now + (long long)ns;
  }
  // one wait: release the mutex, block until picked, re-acquire.  returns true on time-out
  bool wait_step(std::unique_lock<mutex> &lk, bool timed, long long deadline_ns)
  {
    Sched &S = Sched::I();
    std::string n = S.obj_name(this);
    bool expired = timed && deadline_ns <= S.peek_ns();
    lk.unlock();
    bool timeout = false;
    if (expired)
    {
      S.log("wait " + n + " expired");
      timeout = true;
    }
    else
    {
      Pending p;
      p.kind  = P_CVWAIT;
      p.obj   = this;
      p.timed = timed;
      int flag = S.point(p);
      bool notified = S.take_notified();
      timeout = timed && flag == 1;
      if (timeout) S.advance_to(deadline_ns);
      S.log("wake " + n + " " + (timeout ? "timeout" : (notified ? "notified" : "spurious")));
    }
    lk.lock();
    return timeout;
  }
};

// ------------------------------------------------------------------------------ thread
class thread
{
public:
  using id = int;
  thread() noexcept : tid_(-1) {}
  template <class F, class... A>
  explicit thread(F &&f, A &&...a)
  {
    // the callable may be move-only (e.g. a lambda that captured a promise): keep it behind a shared_ptr
    auto bound = std::bind(std::forward<F>(f), std::forward<A>(a)...);
    auto fn    = std::make_shared<decltype(bound)>(std::move(bound));
    tid_       = Sched::I().spawn([fn]() { (*fn)(); });
    Sched::I().log("spawn " + std::to_string(tid_));
  }
  thread(thread &&o) noexcept : tid_(o.tid_) { o.tid_ = -1; }
  thread &operator=(thread &&o) noexcept
  {
    if (tid_ >= 0) std::terminate();
    tid_   = o.tid_;
    o.tid_ = -1;
    return *this;
  }
  thread(const thread &)            = delete;
  thread &operator=(const thread &) = delete;
  ~thread()
  {
    if (tid_ >= 0) std::terminate();
  }
  bool joinable() const noexcept { return tid_ >= 0; }
  id get_id() const noexcept { return tid_; }
  void join()
  {
    Pending p;
    p.kind   = P_JOIN;
    p.target = tid_;
    Sched::I().point(p);
    Sched::I().log("join " + std::to_string(tid_));
    tid_ = -1;
  }
  void detach() { tid_ = -1; }
  static unsigned hardware_concurrency() noexcept { return 4; }

private:
  int tid_;
};

// ------------------------------------------------------------------------------ promise / future (void only)
enum class future_status { ready, timeout, deferred };
struct FutState
{
  bool ready = false;
};
template <class T>
class future;
template <class T>
class promise;
template <>
class future<void>
{
public:
  future() noexcept {}
  explicit future(std::shared_ptr<FutState> s) : st_(std::move(s)) {}
  future(future &&)            = default;
  future &operator=(future &&) = default;
  bool valid() const noexcept { return (bool)st_; }
  template <class Rep, class Period>
  future_status wait_for(const std::chrono::duration<Rep, Period> &d)
  {
    Sched &S = Sched::I();
    long long now = S.peek_ns();
    long double ns = std::chrono::duration<long double, std::nano>(d).count();
    long long dl = ns <= 0 ? now : (ns > 4.0e18L - (long double)now ? 4000000000000000000LL : now + (long long)ns);
    for (;;)
    {
      if (st_->ready)
      {
        S.log("fut ready");
        return future_status::ready;
      }
      if (dl <= S.peek_ns())
      {
        S.log("fut timeout");
        return future_status::timeout;
      }
      Pending p;
      p.kind  = P_CVWAIT;
      p.obj   = st_.get();
      p.timed = true;
      int flag = S.point(p);
      S.take_notified();
      if (!st_->ready && flag == 1) S.advance_to(dl);
    }
  }
  void wait()
  {
    while (!st_->ready)
    {
      Pending p;
      p.kind = P_CVWAIT;
      p.obj  = st_.get();
      Sched::I().point(p);
      Sched::I().take_notified();
    }
    Sched::I().log("fut ready");
  }
  void get() { wait(); }

private:
  std::shared_ptr<FutState> st_;
};
template <>
class promise<void>
{
public:
  promise() : st_(std::make_shared<FutState>()) {}
  promise(promise &&)            = default;
  promise &operator=(promise &&) = default;
  promise(const promise &)       = delete;
  future<void> get_future() { return future<void>(st_); }
  void set_value()
  {
    st_->ready = true;
    Sched::I().notify_waiters(st_.get());
    Sched::I().log("setvalue");
  }

private:
  std::shared_ptr<FutState> st_;
};

namespace this_thread
{
inline void yield() noexcept
{
  Sched::I().point(Pending{});
  Sched::I().log("yield");
}
inline int get_id() noexcept { return Sched::self(); }
template <class Rep, class Period>
inline void sleep_for(const std::chrono::duration<Rep, Period> &d)
{
  Sched::I().point(Pending{});
  long long ns = std::chrono::duration_cast<std::chrono::nanoseconds>(d).count();
  Sched::I().advance_to(Sched::I().peek_ns() + (ns > 0 ? ns : 0));
  Sched::I().log("sleep");
}
}  // namespace this_thread

inline std::chrono::steady_clock::time_point steady_now()
{
  return std::chrono::steady_clock::time_point(
      std::chrono::duration_cast<std::chrono::steady_clock::duration>(std::chrono::nanoseconds(Sched::I().now_ns())));
}
inline std::chrono::system_clock::time_point system_now()
{
  return std::chrono::system_clock::time_point(
      std::chrono::duration_cast<std::chrono::system_clock::duration>(std::chrono::nanoseconds(Sched::I().now_ns())));
}
}  // namespace verif
