// Proxy placed in front of the batch processors' `buffer_` by tools/shimcopy.py (rule `buffer_.` ->
// `verif::bufproxy(buffer_).`): every queue call becomes ONE scheduling point and ONE logged event, i.e. the
// queue is used as the abstract bounded queue whose linearizability is the subject of C11 (the ring itself
// keeps std::atomic in these builds, so no scheduling point falls inside a queue call).
#pragma once
#include <utility>
#include "sched/sched.h"

namespace verif
{
template <class B>
struct BufProxy
{
  B &b;
  template <class P>
  bool Add(P &&p)
  {
    Sched::I().point(Pending{});
    long long id = Sched::I().ptr_id((const void *)p.get());
    bool r       = b.Add(std::forward<P>(p));
    Sched::I().log("buf add " + std::to_string(id) + " " + (r ? "1" : "0"));
    return r;
  }
  size_t size() const
  {
    Sched::I().point(Pending{});
    size_t n = b.size();
    Sched::I().log("buf size " + std::to_string(n));
    return n;
  }
  bool empty() const
  {
    Sched::I().point(Pending{});
    bool e = b.empty();
    Sched::I().log(std::string("buf empty ") + (e ? "1" : "0"));
    return e;
  }
  template <class N, class CB>
  void Consume(N n, CB cb)
  {
    Sched::I().point(Pending{});
    Sched::I().log("buf consume " + std::to_string((size_t)n));
    b.Consume(n, cb);
  }
  size_t max_size() const { return b.max_size(); }
  // diagnostic counters (monotone totals): passed through without a scheduling point or an event; if the code started to
  // decide anything on them, the decisions would still have to be accepted event by event
  auto consumption_count() const -> decltype(b.consumption_count()) { return b.consumption_count(); }
  auto production_count() const -> decltype(b.production_count()) { return b.production_count(); }
};
template <class B>
BufProxy<B> bufproxy(B &b)
{
  return BufProxy<B>{b};
}
template <class B>
BufProxy<const B> bufproxy(const B &b)
{
  return BufProxy<const B>{b};
}
}  // namespace verif
