// Case runner for scheduler-shim drivers: every case runs in a forked child (the shim's logical
// threads cannot be unwound after a deadlock, and each case needs a fresh scheduler), the parent
// prints exactly one line per case.  A child that dies without printing a line yields
// "CRASH <status>" so that line numbers stay aligned with the case file.
#pragma once
#include <sys/types.h>
#include <sys/wait.h>
#include <unistd.h>

#include "common/verif_io.h"
#include "sched/sched.h"

namespace verif
{
// parse "<tid> <flag> <tid> <flag> ..." (integers) into schedule entries
inline std::vector<std::pair<int, int>> parse_schedule(const std::vector<Tok> &v)
{
  std::vector<std::pair<int, int>> s;
  for (size_t i = 0; i + 1 < v.size(); i += 2) s.emplace_back((int)v[i].as_ll(), (int)v[i + 1].as_ll());
  return s;
}

template <class F>
int run_cases_forked(int argc, char **argv, F f)
{
  if (argc < 2) { std::fprintf(stderr, "usage: %s CASES\n", argv[0]); return 2; }
  std::ifstream in(argv[1]);
  if (!in) { std::fprintf(stderr, "cannot open %s\n", argv[1]); return 2; }
  std::string line;
  while (std::getline(in, line))
  {
    int fds[2];
    if (pipe(fds) != 0) return 2;
    std::cout.flush();
    pid_t pid = fork();
    if (pid == 0)
    {
      close(fds[0]);
      Sched::I().die_fd = fds[1];
      Out o;
      f(parse_line(line), o);
      std::string s = o.line + "\n";
      size_t off = 0;
      while (off < s.size())
      {
        ssize_t w = write(fds[1], s.data() + off, s.size() - off);
        if (w <= 0) break;
        off += (size_t)w;
      }
      close(fds[1]);
      std::exit(0);  // normal exit so that LeakSanitizer reports leaks of this case
    }
    close(fds[1]);
    std::string got;
    char buf[65536];
    ssize_t r;
    while ((r = read(fds[0], buf, sizeof buf)) > 0) got.append(buf, (size_t)r);
    close(fds[0]);
    int status = 0;
    waitpid(pid, &status, 0);
    bool clean = WIFEXITED(status) && WEXITSTATUS(status) == 0;
    size_t nl = got.find('\n');
    if (nl != std::string::npos && clean)
      std::cout << got.substr(0, nl) << "\n";
    else
    {
      int code = WIFEXITED(status) ? WEXITSTATUS(status) : 1000 + (WIFSIGNALED(status) ? WTERMSIG(status) : 0);
      std::string partial = nl != std::string::npos ? got.substr(0, nl) : std::string();
      std::cout << "CRASH " << code << (partial.empty() ? "" : " ; ") << partial << "\n";
    }
  }
  std::cout.flush();
  return 0;
}
}  // namespace verif
