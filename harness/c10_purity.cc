// C10 purity probe: what the C10 model takes for granted about sharing - Context values are immutable (any number
// of threads may read them, derive children from them, copy and destroy them; the reference counts are the only
// legitimate shared writes) and the runtime context is strictly per thread - executed by several real threads under
// ThreadSanitizer.  A run-time probe of a modelling assumption, NOT a theorem.  Generic part: harness/purity/purity_probe.h.
// Case: PURITY <bindings of the shared parent> <threads> <rounds> <iters>
#include <map>
#include <string>
#include <thread>
#include <vector>
#include "opentelemetry/context/context.h"
#include "opentelemetry/context/runtime_context.h"
#include "opentelemetry/trace/context.h"
#include "opentelemetry/trace/default_span.h"
#include "opentelemetry/trace/scope.h"
#include "opentelemetry/trace/span_context.h"
#include "opentelemetry/trace/tracer.h"
#include "purity/purity_probe.h"

namespace nostd   = opentelemetry::nostd;
namespace trace   = opentelemetry::trace;
namespace context = opentelemetry::context;
using context::Context;
using context::ContextValue;
using context::RuntimeContext;

namespace
{
std::string key_of(int i) { return "binding-" + std::to_string(i % 5) + (i % 2 ? "" : std::string("\0x", 2)); }

std::string show(const ContextValue &v)
{
  if (nostd::holds_alternative<int64_t>(v)) return "i" + std::to_string(nostd::get<int64_t>(v));
  if (nostd::holds_alternative<bool>(v)) return nostd::get<bool>(v) ? "bT" : "bF";
  if (nostd::holds_alternative<nostd::shared_ptr<trace::Span>>(v)) return "span";
  if (nostd::holds_alternative<nostd::monostate>(v)) return "-";
  return "?";
}

class C10World : public purity::World
{
public:
  explicit C10World(int n) : n_(n)
  {
    for (int i = 0; i < 6; i++)
      spans_.push_back(nostd::shared_ptr<trace::Span>(new trace::DefaultSpan(trace::SpanContext::GetInvalid())));
    // the shared parent: n bindings over 5 keys (so keys are shadowed), one of them the active span
    Context c;
    for (int i = 0; i < n; i++) c = c.SetValue(key_of(i), ContextValue(int64_t(i)));
    parent_ = trace::SetSpan(c, spans_[0]);
    // distinct shared contexts that the threads attach on their own stacks
    for (int i = 0; i < 7; i++) ctxs_.push_back(parent_.SetValue("frame", ContextValue(int64_t(100 + i))));
    // tokens created by THIS (the building) thread and explicitly detached: they stay alive in the World, every thread may
    // hand them to Detach (foreign on its stack), and they are destroyed by the building thread with an empty stack
    for (int i = 0; i < 2; i++)
    {
      old_tokens_.push_back(RuntimeContext::Attach(ctxs_[5 + i]));
      RuntimeContext::Detach(*old_tokens_.back());
    }
  }

  size_t n_ops() const override { return 11; }
  const char *op_name(size_t i) const override
  {
    static const char *names[] = {"GetValue(present/shadowed)", "GetValue/HasKey(absent, empty, prefix)", "SetValue child of shared parent",
                                  "SetValues child of shared parent", "copy / compare / destroy shared contexts", "GetSpan / SetSpan on shared context",
                                  "RuntimeContext::GetValue/SetValue(explicit shared context)", "stack: nested attach / in-order detach",
                                  "stack: scopes + out-of-order detach", "stack: foreign tokens of another thread",
                                  "stack: tokens created on a child thread, destroyed here"};
    return names[i];
  }

  // which shared context thread t (-1 = reference run) uses at step j: different threads, different contexts
  const Context &pick(int t, int j) const { return ctxs_[size_t((t + 1) * 2 + j) % 5]; }

  // SetValue / SetValues are not declared const although they only read the parent: called on the SHARED parent object itself
  Context &shared_parent() const { return const_cast<Context &>(parent_); }

  static void expect(std::string &o, bool ok, const char *what)
  {
    if (!ok && o == "ok") o = std::string("FAILED: ") + what;
  }

  std::string run_op(size_t i, int t) const override
  {
    switch (i)
    {
      case 0: {
        std::string o;
        for (int k = 0; k < 5; k++) o += show(parent_.GetValue(key_of(k))) + (parent_.HasKey(key_of(k)) ? "+" : "-") + ",";
        return o + show(ctxs_[3].GetValue("frame"));
      }
      case 1: {
        std::string o;
        o += show(parent_.GetValue("binding-9")) + (parent_.HasKey("binding-") ? "+" : "-");
        o += show(parent_.GetValue("")) + show(parent_.GetValue("binding-1x")) + show(parent_.GetValue(std::string("binding-0\0", 10)));
        o += show(Context().GetValue("binding-1"));
        return o;
      }
      case 2: {
        Context child = shared_parent().SetValue(key_of(1), ContextValue(int64_t(-7)));   // each thread its own children
        Context grand = child.SetValue("own", ContextValue(true));
        return show(child.GetValue(key_of(1))) + show(parent_.GetValue(key_of(1))) + show(grand.GetValue(key_of(2))) +
               show(grand.GetValue("own")) + show(child.GetValue("own")) + (grand == child ? "=" : "!");
      }
      case 3: {
        std::map<std::string, ContextValue> m{{key_of(0), ContextValue(int64_t(-1))}, {"zz", ContextValue(int64_t(-2))}};
        std::map<std::string, ContextValue> none;
        Context child = shared_parent().SetValues(m);
        Context same  = shared_parent().SetValues(none);
        return show(child.GetValue(key_of(0))) + show(child.GetValue("zz")) + show(child.GetValue(key_of(3))) + show(parent_.GetValue("zz")) +
               show(same.GetValue(key_of(0))) + show(Context(m).GetValue(key_of(3)));
      }
      case 4: {
        std::string o;
        {
          std::vector<Context> copies(ctxs_.begin(), ctxs_.end());   // refcount increments on shared nodes
          Context a = parent_, b = a;
          o += (a == parent_ && b == a) ? "=" : "!";
          o += (copies[2] == ctxs_[2] && !(copies[2] == ctxs_[3])) ? "=" : "!";
          a = copies[1];                                              // assignment: release one, take another
          o += show(a.GetValue("frame"));
        }   // all copies destroyed here
        return o + show(ctxs_[1].GetValue("frame"));
      }
      case 5: {
        Context base = parent_;
        Context with = trace::SetSpan(base, spans_[3]);
        return std::string(trace::GetSpan(parent_).get() == spans_[0].get() ? "0" : "?") + (trace::GetSpan(with).get() == spans_[3].get() ? "3" : "?") +
               (trace::GetSpan(Context())->GetContext().IsValid() ? "v" : "i") + (trace::IsRootSpan(parent_) ? "r" : "n");
      }
      case 6: {
        Context c   = ctxs_[2];
        Context out = RuntimeContext::SetValue("rk", ContextValue(int64_t(5)), &c);
        return show(RuntimeContext::GetValue("frame", &c)) + show(RuntimeContext::GetValue("rk", &out)) + show(RuntimeContext::GetValue("rk", &c));
      }
      case 7: {   // every thread its own depth and its own contexts; after every step GetCurrent is what THIS program says
        std::string o = "ok";
        expect(o, RuntimeContext::GetCurrent() == Context(), "stack not empty at start");
        int depth = 2 + (t + 1) % 4;
        std::vector<nostd::unique_ptr<context::Token>> toks;
        for (int j = 0; j < depth; j++)
        {
          toks.push_back(RuntimeContext::Attach(pick(t, j)));
          expect(o, RuntimeContext::GetCurrent() == pick(t, j), "attached context is not current");
          expect(o, show(RuntimeContext::GetValue("frame")) == show(pick(t, j).GetValue("frame")), "current value differs");
        }
        for (int j = depth - 1; j >= 0; j--)
        {
          expect(o, RuntimeContext::Detach(*toks[size_t(j)]), "detach of the top token failed");
          expect(o, j == 0 ? RuntimeContext::GetCurrent() == Context() : RuntimeContext::GetCurrent() == pick(t, j - 1), "detach did not restore the previous context");
        }
        toks.clear();   // destructors: foreign by now (empty stack, non-root contexts)
        expect(o, RuntimeContext::GetCurrent() == Context(), "stack not empty at the end");
        return o;
      }
      case 8: {
        std::string o = "ok";
        auto base = RuntimeContext::Attach(pick(t, 0));
        {
          trace::Scope s1(spans_[size_t(1 + (t + 1) % 4)]);
          expect(o, trace::Tracer::GetCurrentSpan().get() == spans_[size_t(1 + (t + 1) % 4)].get(), "scope did not activate its span");
          {
            trace::Scope s2(spans_[5]);
            expect(o, trace::Tracer::GetCurrentSpan().get() == spans_[5].get(), "inner scope did not activate its span");
            expect(o, show(RuntimeContext::GetValue("frame")) == show(pick(t, 0).GetValue("frame")), "scope lost the values of its context");
          }
          expect(o, trace::Tracer::GetCurrentSpan().get() == spans_[size_t(1 + (t + 1) % 4)].get(), "inner scope release did not re-activate the outer span");
          auto t1 = RuntimeContext::Attach(pick(t, 1));
          auto t2 = RuntimeContext::Attach(pick(t, 2));
          expect(o, RuntimeContext::Detach(*t1), "out-of-order detach failed");   // unwinds t2's frame as well
          expect(o, trace::Tracer::GetCurrentSpan().get() == spans_[size_t(1 + (t + 1) % 4)].get(), "out-of-order detach did not unwind to the scope");
          expect(o, !RuntimeContext::Detach(*t2), "unwound token still detachable");
        }
        expect(o, RuntimeContext::GetCurrent() == pick(t, 0), "scope release did not restore the base context");
        expect(o, trace::Tracer::GetCurrentSpan().get() == spans_[0].get(), "previous span not active again");
        expect(o, RuntimeContext::Detach(*base), "detach of the base failed");
        expect(o, RuntimeContext::GetCurrent() == Context(), "stack not empty at the end");
        return o;
      }
      case 9: {   // tokens that another thread created (and still owns) are foreign here
        std::string o = "ok";
        auto mine = RuntimeContext::Attach(pick(t, 3));
        for (auto &tk : old_tokens_)
        {
          expect(o, !RuntimeContext::Detach(*tk), "token of another thread detached something here");
          expect(o, RuntimeContext::GetCurrent() == pick(t, 3), "token of another thread changed this thread's stack");
        }
        expect(o, RuntimeContext::Detach(*mine), "detach failed");
        return o;
      }
      default: {   // tokens created on a child thread (its stack dies with it) and destroyed on this thread
        std::string o = "ok";
        auto mine = RuntimeContext::Attach(pick(t, 4));
        std::vector<nostd::unique_ptr<context::Token>> theirs;
        bool child_ok = true;
        std::thread child([&] {
          child_ok = RuntimeContext::GetCurrent() == Context();           // nothing of the parent thread is visible
          theirs.push_back(RuntimeContext::Attach(ctxs_[5]));
          theirs.push_back(RuntimeContext::Attach(ctxs_[6]));
          child_ok = child_ok && RuntimeContext::GetCurrent() == ctxs_[6];
        });
        child.join();
        expect(o, child_ok, "child thread saw the parent's stack");
        expect(o, RuntimeContext::GetCurrent() == pick(t, 4), "child thread's attaches are visible here");
        theirs.clear();   // ~Token on THIS thread: must be a no-op for this thread's stack
        expect(o, RuntimeContext::GetCurrent() == pick(t, 4), "destroying another thread's tokens changed this thread's stack");
        expect(o, RuntimeContext::Detach(*mine), "detach failed");
        expect(o, RuntimeContext::GetCurrent() == Context(), "stack not empty at the end");
        return o;
      }
    }
  }

private:
  int n_;
  std::vector<nostd::shared_ptr<trace::Span>> spans_;
  Context parent_;
  std::vector<Context> ctxs_;
  std::vector<nostd::unique_ptr<context::Token>> old_tokens_;
};
}  // namespace

int main(int argc, char **argv)
{
  return purity::main_probe(argc, argv, [](int size) { return std::unique_ptr<purity::World>(new C10World(size)); });
}
