// C16 driver under the deterministic scheduler shim (E-sched): concurrent Inject.  The propagators have no synchronisation of
// their own, so no scratch copy is needed: every TextMapCarrier::Set of the driver's carrier is a scheduling point
// (verif::this_thread::yield() before the value is copied), which lets a schedule switch threads between the moment a
// propagator has rendered a header value and the moment the carrier stores it.
//
//   PINJ <S|M|J> | <ctx: x<tid16> x<sid8> <flags> <remote> x<tracestate>> | <ctx> [| <ctx>] | s <tid> <flag> ...
//   one logical thread per ctx, each with its own propagator object use and its own carrier; afterwards (single-threaded)
//   every carrier is extracted.  Observation: the extraction parts of all threads, then  ; H x<key> x<value> ... per thread.
#include <map>
#include <memory>
#include "opentelemetry/context/context.h"
#include "opentelemetry/context/propagation/text_map_propagator.h"
#include "opentelemetry/trace/context.h"
#include "opentelemetry/trace/default_span.h"
#include "opentelemetry/trace/propagation/b3_propagator.h"
#include "opentelemetry/trace/propagation/jaeger.h"
#include "opentelemetry/trace/span_context.h"
#include "opentelemetry/trace/trace_state.h"
#include "sched/sched_driver.h"

namespace nostd   = opentelemetry::nostd;
namespace trace   = opentelemetry::trace;
namespace context = opentelemetry::context;
using verif::Out;
using verif::Sched;
using verif::Tok;
typedef std::vector<Tok> Toks;

class Carrier : public context::propagation::TextMapCarrier
{
public:
  std::map<std::string, std::string> h;
  nostd::string_view Get(nostd::string_view key) const noexcept override
  {
    auto it = h.find(std::string(key.data(), key.size()));
    if (it == h.end()) return "";
    return nostd::string_view(it->second.data(), it->second.size());
  }
  void Set(nostd::string_view key, nostd::string_view value) noexcept override
  {
    verif::this_thread::yield();   // scheduling point: the views are read only after another thread may have run
    h[std::string(key.data(), key.size())] = std::string(value.data(), value.size());
  }
};

static bool is_ctx(const Toks &t)
{
  return t.size() == 5 && t[0].kind == Tok::BYTES && t[0].s.size() == 16 && t[1].kind == Tok::BYTES && t[1].s.size() == 8 &&
         t[2].kind == Tok::INT && t[3].kind == Tok::INT && t[4].kind == Tok::BYTES;
}

static trace::SpanContext make_ctx(const Toks &t)
{
  trace::TraceId tid(nostd::span<const uint8_t, 16>(reinterpret_cast<const uint8_t *>(t[0].s.data()), 16));
  trace::SpanId sid(nostd::span<const uint8_t, 8>(reinterpret_cast<const uint8_t *>(t[1].s.data()), 8));
  auto ts = trace::TraceState::FromHeader(t[4].s);
  return trace::SpanContext(tid, sid, trace::TraceFlags(uint8_t(t[2].as_ll())), t[3].as_ll() == 1, ts);
}

static void print_extract(context::propagation::TextMapPropagator &prop, Carrier &c, Out &o)
{
  nostd::shared_ptr<trace::Span> sentinel{new trace::DefaultSpan(trace::SpanContext::GetInvalid())};
  context::Context root;
  context::Context in  = trace::SetSpan(root, sentinel);
  context::Context out = prop.Extract(c, in);
  auto sp              = trace::GetSpan(out);
  auto sc              = sp->GetContext();
  if (sp.get() == sentinel.get()) { o.tag("INVALID").boolean(out == in); return; }
  char tid[16], sid[8];
  sc.trace_id().CopyBytesTo(nostd::span<uint8_t, 16>(reinterpret_cast<uint8_t *>(tid), 16));
  sc.span_id().CopyBytesTo(nostd::span<uint8_t, 8>(reinterpret_cast<uint8_t *>(sid), 8));
  o.tag("OK").bytes(tid, 16).bytes(sid, 8).num(sc.trace_flags().flags()).boolean(sc.IsRemote()).bytes(sc.trace_state()->ToHeader());
}

static void run_pinj(const Toks &t, Out &o)
{
  auto secs = verif::split_toks(t, "|", 1);
  if (secs.size() < 3 || secs[0].size() != 1) { o.tag("BADCASE"); return; }
  Sched &S = Sched::I();
  S.reset();
  std::vector<trace::SpanContext> ctxs;
  for (size_t i = 1; i < secs.size(); i++)
  {
    if (!secs[i].empty() && secs[i][0].is_tag("s"))
    {
      S.set_schedule(verif::parse_schedule(Toks(secs[i].begin() + 1, secs[i].end())));
      break;
    }
    if (!is_ctx(secs[i])) { o.tag("BADCASE"); return; }
    ctxs.push_back(make_ctx(secs[i]));
  }
  if (ctxs.empty()) { o.tag("BADCASE"); return; }
  trace::propagation::B3Propagator b3s;
  trace::propagation::B3PropagatorMultiHeader b3m;
  trace::propagation::JaegerPropagator jg;
  context::propagation::TextMapPropagator *p =
      secs[0][0].is_tag("S") ? static_cast<context::propagation::TextMapPropagator *>(&b3s)
      : secs[0][0].is_tag("M") ? static_cast<context::propagation::TextMapPropagator *>(&b3m)
      : secs[0][0].is_tag("J") ? static_cast<context::propagation::TextMapPropagator *>(&jg) : nullptr;
  if (!p) { o.tag("BADCASE"); return; }
  std::vector<Carrier> carriers(ctxs.size());
  for (size_t i = 0; i < ctxs.size(); i++)
    S.spawn([&, i] {
      nostd::shared_ptr<trace::Span> sp{new trace::DefaultSpan(ctxs[i])};
      context::Context root;
      context::Context ctx = trace::SetSpan(root, sp);
      p->Inject(carriers[i], ctx);
    });
  S.set_step_limit(20000);
  S.run_all();
  // single-threaded from here: Set is not called any more
  for (size_t i = 0; i < ctxs.size(); i++) print_extract(*p, carriers[i], o);
  for (size_t i = 0; i < ctxs.size(); i++)
  {
    o.tag(";");
    if (carriers[i].h.empty()) { o.tag("NOHDR"); continue; }
    o.tag("H");
    for (auto &kv : carriers[i].h) o.bytes(kv.first).bytes(kv.second);
  }
}

int main(int argc, char **argv)
{
  return verif::run_cases_forked(argc, argv, [](const Toks &t, Out &o) {
    if (!t.empty() && t[0].is_tag("PINJ")) run_pinj(t, o);
    else o.tag("BADCASE");
  });
}
