// C12 driver: the four built-in samplers through Sampler::ShouldSample / GetDescription, the
// threshold_ member of TraceIdRatioBasedSampler right after construction, and the sampled flag /
// trace state of spans started through a real sdk Tracer.  Case format: see coq/C12/Glue.v.
#include "opentelemetry/sdk/common/global_log_handler.h"
#include <cmath>
#include <cstring>
#include <map>
#include <memory>
#include <string>
#include <utility>
#include <vector>
#include "common/verif_io.h"

#include "opentelemetry/common/key_value_iterable_view.h"
#include "opentelemetry/sdk/resource/resource.h"
#include "opentelemetry/sdk/trace/id_generator.h"
#include "opentelemetry/sdk/trace/processor.h"
#include "opentelemetry/sdk/trace/sampler.h"
#include "opentelemetry/sdk/trace/samplers/always_off.h"
#include "opentelemetry/sdk/trace/samplers/always_on.h"
#include "opentelemetry/sdk/trace/samplers/parent.h"
#include "opentelemetry/sdk/trace/tracer.h"
#include "opentelemetry/sdk/trace/tracer_context.h"
#include "opentelemetry/context/context.h"
#include "opentelemetry/context/runtime_context.h"
#include "opentelemetry/trace/context.h"
#include "opentelemetry/trace/default_span.h"
#include "opentelemetry/trace/span_context.h"
#include "opentelemetry/trace/span_context_kv_iterable_view.h"
#include "opentelemetry/trace/span_metadata.h"
#include "opentelemetry/trace/span_startoptions.h"
#include "opentelemetry/trace/trace_id.h"
#include "opentelemetry/trace/trace_state.h"
#include "opentelemetry/version.h"

// threshold_ is a private const member with no accessor; it is the state the property anchors
// ("ratio mapped to [0, 2^64-1]"), so the driver reads it directly.  Everything trace_id_ratio.h
// includes has been included above (all '#pragma once'), so only that one class is affected.
#define private public
#include "opentelemetry/sdk/trace/samplers/trace_id_ratio.h"
#undef private

namespace nostd     = opentelemetry::nostd;
namespace trace_api = opentelemetry::trace;
namespace sdktrace  = opentelemetry::sdk::trace;
using verif::Out;
using verif::Tok;
using Toks = std::vector<Tok>;

static double double_of_bits(const Tok &t)
{
  uint64_t b = t.as_ull();
  double d;
  std::memcpy(&d, &b, 8);
  return d;
}

// forwards to the wrapped sampler and counts the calls
class Counting : public sdktrace::Sampler
{
public:
  explicit Counting(std::shared_ptr<sdktrace::Sampler> s) : inner(std::move(s)) {}
  sdktrace::SamplingResult ShouldSample(const trace_api::SpanContext &parent, trace_api::TraceId tid, nostd::string_view name,
                                        trace_api::SpanKind kind, const opentelemetry::common::KeyValueIterable &attrs,
                                        const trace_api::SpanContextKeyValueIterable &links) noexcept override
  {
    calls++;
    return inner->ShouldSample(parent, tid, name, kind, attrs, links);
  }
  nostd::string_view GetDescription() const noexcept override { return inner->GetDescription(); }
  std::shared_ptr<sdktrace::Sampler> inner;
  long long calls = 0;
};

// PB* (ON | OFF | RATIO bits); nullptr on malformed input or a NaN ratio (outside the domain: the
// constructor would convert NaN to uint64_t, which is undefined behaviour)
static std::shared_ptr<sdktrace::Sampler> make_sampler(const Toks &t, size_t i = 0)
{
  if (i >= t.size()) return nullptr;
  if (t[i].is_tag("PB"))
  {
    auto d = make_sampler(t, i + 1);
    if (!d) return nullptr;
    return std::make_shared<sdktrace::ParentBasedSampler>(d);
  }
  if (t[i].is_tag("ON") && i + 1 == t.size()) return std::make_shared<sdktrace::AlwaysOnSampler>();
  if (t[i].is_tag("OFF") && i + 1 == t.size()) return std::make_shared<sdktrace::AlwaysOffSampler>();
  if (t[i].is_tag("RATIO") && i + 2 == t.size() && t[i + 1].kind == Tok::INT)
  {
    double r = double_of_bits(t[i + 1]);
    if (std::isnan(r)) return nullptr;
    return std::make_shared<sdktrace::TraceIdRatioBasedSampler>(r);
  }
  return nullptr;
}

// Sampler handed to TracerContext (unique_ptr): shares the object built above
class Shared : public Counting
{
public:
  using Counting::Counting;
};

struct Ctx
{
  bool ok = false;
  trace_api::SpanContext sc = trace_api::SpanContext::GetInvalid();
};

static Ctx make_ctx(const Toks &t)
{
  Ctx c;
  if (t.size() != 5 || t[0].kind != Tok::BYTES || t[0].s.size() != 16 || t[1].kind != Tok::BYTES || t[1].s.size() != 8 ||
      t[2].kind != Tok::INT || t[3].kind != Tok::INT || t[4].kind != Tok::BYTES)
    return c;
  trace_api::TraceId tid(nostd::span<const uint8_t, 16>(reinterpret_cast<const uint8_t *>(t[0].s.data()), 16));
  trace_api::SpanId sid(nostd::span<const uint8_t, 8>(reinterpret_cast<const uint8_t *>(t[1].s.data()), 8));
  verif::ExactBuf h(t[4].s);
  auto ts = t[4].s.empty() ? trace_api::TraceState::GetDefault() : trace_api::TraceState::FromHeader(nostd::string_view(h.p, h.n));
  c.sc    = trace_api::SpanContext(tid, sid, trace_api::TraceFlags(uint8_t(t[2].as_ll())), t[3].as_ll() != 0, ts);
  c.ok    = true;
  return c;
}

static bool make_tid(const Tok &t, trace_api::TraceId &out)
{
  if (t.kind != Tok::BYTES || t.s.size() != 16) return false;
  out = trace_api::TraceId(nostd::span<const uint8_t, 16>(reinterpret_cast<const uint8_t *>(t.s.data()), 16));
  return true;
}

// the arguments the built-in samplers ignore
struct Extra
{
  bool ok = false;
  std::unique_ptr<verif::ExactBuf> name;
  trace_api::SpanKind kind = trace_api::SpanKind::kInternal;
  std::map<std::string, int> attrs;
  std::vector<std::pair<trace_api::SpanContext, std::map<std::string, std::string>>> links;
};

static void make_extra(const Toks &t, size_t i, Extra &x)
{
  if (t.size() != i + 4 || t[i].kind != Tok::BYTES || t[i + 1].kind != Tok::INT || t[i + 2].kind != Tok::INT || t[i + 3].kind != Tok::INT) return;
  x.name.reset(new verif::ExactBuf(t[i].s));
  x.kind = static_cast<trace_api::SpanKind>(t[i + 1].as_ll());
  for (long long k = 0; k < t[i + 2].as_ll(); k++) x.attrs["attr" + std::to_string(k)] = int(k);
  for (long long k = 0; k < t[i + 3].as_ll(); k++)
  {
    uint8_t tb[16] = {0}, sb[8] = {0};
    tb[15] = uint8_t(k + 1); sb[7] = uint8_t(k + 1);
    x.links.push_back({trace_api::SpanContext(trace_api::TraceId(tb), trace_api::SpanId(sb), trace_api::TraceFlags(uint8_t(k & 1)), (k & 2) != 0),
                       {{"link", std::to_string(k)}}});
  }
  x.ok = true;
}

static void print_result(sdktrace::SamplingResult &r, Out &o)
{
  switch (r.decision)
  {
    case sdktrace::Decision::DROP: o.tag("DROP"); break;
    case sdktrace::Decision::RECORD_ONLY: o.tag("RECORD_ONLY"); break;
    case sdktrace::Decision::RECORD_AND_SAMPLE: o.tag("RECORD_AND_SAMPLE"); break;
    default: o.tag("BAD_DECISION");
  }
  if (r.attributes) o.tag("UNEXPECTED_ATTRIBUTES");
  if (r.trace_state) o.bytes(r.trace_state->ToHeader()); else o.tag("NULL");
}

static sdktrace::SamplingResult call(sdktrace::Sampler &s, const trace_api::SpanContext &parent, trace_api::TraceId tid, Extra &x)
{
  opentelemetry::common::KeyValueIterableView<std::map<std::string, int>> av{x.attrs};
  trace_api::SpanContextKeyValueIterableView<decltype(x.links)> lv{x.links};
  return s.ShouldSample(parent, tid, nostd::string_view(x.name->p, x.name->n), x.kind, av, lv);
}

class FixedIdGenerator : public sdktrace::IdGenerator
{
public:
  FixedIdGenerator(trace_api::TraceId t, bool random) : sdktrace::IdGenerator(random), tid(t) {}
  trace_api::SpanId GenerateSpanId() noexcept override
  {
    static const uint8_t b[8] = {0x11, 0x22, 0x33, 0x44, 0x55, 0x66, 0x77, 0x88};
    return trace_api::SpanId(b);
  }
  trace_api::TraceId GenerateTraceId() noexcept override { return tid; }
  trace_api::TraceId tid;
};

static void one_case(const Toks &t, Out &o)
{
  if (t.empty()) { o.tag("BADCASE"); return; }
  if (t[0].is_tag("THR") && t.size() == 2 && t[1].kind == Tok::INT)
  {
    double r = double_of_bits(t[1]);
    if (std::isnan(r)) { o.tag("BADCASE"); return; }
    sdktrace::TraceIdRatioBasedSampler s(r);
    o.unum(s.threshold_);
    return;
  }
  if (t[0].is_tag("MONO") && t.size() == 4 && t[1].kind == Tok::INT && t[2].kind == Tok::INT)
  {
    double r1 = double_of_bits(t[1]), r2 = double_of_bits(t[2]);
    trace_api::TraceId tid;
    if (std::isnan(r1) || std::isnan(r2) || !make_tid(t[3], tid)) { o.tag("BADCASE"); return; }
    sdktrace::TraceIdRatioBasedSampler s1(r1), s2(r2);
    Extra x;
    make_extra({Tok{Tok::BYTES, "mono"}, Tok{Tok::INT, "0"}, Tok{Tok::INT, "0"}, Tok{Tok::INT, "0"}}, 0, x);
    auto a = call(s1, trace_api::SpanContext::GetInvalid(), tid, x);
    auto b = call(s2, trace_api::SpanContext::GetInvalid(), tid, x);
    o.unum(s1.threshold_).unum(s2.threshold_);
    Out oa, ob;
    print_result(a, oa); print_result(b, ob);
    // decisions only (the trace state of a ratio sampler is observed by SS / DEP cases)
    o.tag(oa.line.substr(0, oa.line.find(' '))).tag(ob.line.substr(0, ob.line.find(' ')));
    return;
  }
  if (t[0].is_tag("DESC"))
  {
    auto s = make_sampler(Toks(t.begin() + 1, t.end()));
    if (!s) { o.tag("BADCASE"); return; }
    auto d = s->GetDescription();
    o.bytes(std::string(d.data(), d.size()));
    return;
  }
  auto parts = verif::split_toks(t, "|", 1);
  if ((t[0].is_tag("SS") || t[0].is_tag("PB")) && parts.size() == 3 && parts[2].size() == 5)
  {
    auto s = make_sampler(parts[0]);
    Ctx p  = make_ctx(parts[1]);
    trace_api::TraceId tid;
    Extra x;
    make_extra(parts[2], 1, x);
    if (!s || !p.ok || !make_tid(parts[2][0], tid) || !x.ok) { o.tag("BADCASE"); return; }
    if (t[0].is_tag("SS"))
    {
      auto r = call(*s, p.sc, tid, x);
      print_result(r, o);
    }
    else
    {
      auto counting = std::make_shared<Counting>(s);
      sdktrace::ParentBasedSampler pb(counting);
      auto r = call(pb, p.sc, tid, x);
      long long calls = counting->calls;
      auto rd = call(*s, p.sc, tid, x);
      print_result(r, o);
      o.num(calls);
      print_result(rd, o);
    }
    return;
  }
  if (t[0].is_tag("DEP") && parts.size() == 3 && parts[0].size() == 2 && parts[1].size() == 9 && parts[2].size() == 9 && parts[0][0].kind == Tok::INT)
  {
    double r = double_of_bits(parts[0][0]);
    trace_api::TraceId tid;
    Ctx p1 = make_ctx(Toks(parts[1].begin(), parts[1].begin() + 5)), p2 = make_ctx(Toks(parts[2].begin(), parts[2].begin() + 5));
    Extra x1, x2;
    make_extra(parts[1], 5, x1);
    make_extra(parts[2], 5, x2);
    if (std::isnan(r) || !make_tid(parts[0][1], tid) || !p1.ok || !p2.ok || !x1.ok || !x2.ok) { o.tag("BADCASE"); return; }
    // two participants of the trace: separately constructed samplers of the same ratio
    sdktrace::TraceIdRatioBasedSampler sa(r);
    auto ra = call(sa, p1.sc, tid, x1);
    sdktrace::TraceIdRatioBasedSampler sb(r);
    auto rb = call(sb, p2.sc, tid, x2);
    print_result(ra, o);
    print_result(rb, o);
    return;
  }
  if (t[0].is_tag("SPAN") && parts.size() == 3 && parts[2].size() == 6 && parts[2][1].kind == Tok::INT)
  {
    auto s = make_sampler(parts[0]);
    Ctx p  = make_ctx(parts[1]);
    trace_api::TraceId gen;
    Extra x;
    make_extra(parts[2], 2, x);
    if (!s || !p.ok || !make_tid(parts[2][0], gen) || !x.ok) { o.tag("BADCASE"); return; }
    auto make_tracer = [&](trace_api::TraceId id) {
      std::vector<std::unique_ptr<sdktrace::SpanProcessor>> procs;
      auto ctx = std::make_shared<sdktrace::TracerContext>(
          std::move(procs), opentelemetry::sdk::resource::Resource::Create({}), std::unique_ptr<sdktrace::Sampler>(new Shared(s)),
          std::unique_ptr<sdktrace::IdGenerator>(new FixedIdGenerator(id, parts[2][1].as_ll() != 0)));
      return std::make_shared<sdktrace::Tracer>(ctx);
    };
    auto tracer = make_tracer(gen);
    trace_api::StartSpanOptions opts;
    opts.parent = p.sc;
    opts.kind   = x.kind;
    opentelemetry::common::KeyValueIterableView<std::map<std::string, int>> av{x.attrs};
    trace_api::SpanContextKeyValueIterableView<decltype(x.links)> lv{x.links};
    auto span = tracer->StartSpan(nostd::string_view(x.name->p, x.name->n), av, lv, opts);
    auto sc   = span->GetContext();
    char tb[16];
    sc.trace_id().CopyBytesTo(nostd::span<uint8_t, 16>(reinterpret_cast<uint8_t *>(tb), 16));
    o.bytes(tb, 16).num(sc.trace_flags().flags()).bytes(sc.trace_state()->ToHeader()).boolean(span->IsRecording());
    // another participant: the root span of the same trace on a second tracer with the same sampler
    auto tracer2 = make_tracer(sc.trace_id());
    trace_api::StartSpanOptions root_opts;
    root_opts.kind = x.kind;
    auto root = tracer2->StartSpan(nostd::string_view(x.name->p, x.name->n), av, lv, root_opts);
    o.num(root->GetContext().trace_flags().flags());
    root->End();
    span->End();
    return;
  }
  if (t[0].is_tag("SPANCX") && parts.size() == 4 && parts[1].size() >= 2 && parts[1][0].kind == Tok::INT && !parts[2].empty() &&
      parts[3].size() == 6 && parts[3][1].kind == Tok::INT)
  {
    // a context with the is_root_span marker (0 unset, 1 true, 2 set to false) and a span (NONE or a DefaultSpan of <p>)
    auto make_context = [](opentelemetry::context::Context base, long long marker, const Toks &sp, bool &ok) {
      if (marker == 1) base = base.SetValue(trace_api::kIsRootSpanKey, true);
      else if (marker == 2) base = base.SetValue(trace_api::kIsRootSpanKey, false);
      else if (marker != 0) ok = false;
      if (sp.size() == 1 && sp[0].is_tag("NONE")) return base;
      Ctx c = make_ctx(sp);
      if (!c.ok) { ok = false; return base; }
      nostd::shared_ptr<trace_api::Span> span(new trace_api::DefaultSpan(c.sc));
      return trace_api::SetSpan(base, span);      // does not clear the marker: Context values are inherited
    };
    trace_api::TraceId gen;
    Extra x;
    make_extra(parts[3], 2, x);
    bool ok = true;
    auto cur = make_context(opentelemetry::context::Context{}, parts[1][0].as_ll(), Toks(parts[1].begin() + 1, parts[1].end()), ok);
    // the tracer's sampler: the delegate of the outermost ParentBased (the root sampler) is wrapped in a call counter
    std::shared_ptr<Counting> counter;
    std::shared_ptr<sdktrace::Sampler> s;
    if (parts[0].size() >= 2 && parts[0][0].is_tag("PB"))
    {
      auto d = make_sampler(parts[0], 1);
      if (d) { counter = std::make_shared<Counting>(d); s = std::make_shared<sdktrace::ParentBasedSampler>(counter); }
    }
    else s = make_sampler(parts[0]);
    if (!s || !ok || !make_tid(parts[3][0], gen) || !x.ok) { o.tag("BADCASE"); return; }
    trace_api::StartSpanOptions opts;
    opts.kind = x.kind;
    const Toks &a = parts[2];
    if (a[0].is_tag("IMPL") && a.size() == 1) {}
    else if (a[0].is_tag("CUR") && a.size() == 1) opts.parent = cur;
    else if (a[0].is_tag("SC"))
    {
      Ctx c = make_ctx(Toks(a.begin() + 1, a.end()));
      if (!c.ok) { o.tag("BADCASE"); return; }
      opts.parent = c.sc;
    }
    else if (a[0].is_tag("CX") && a.size() >= 3 && a[1].kind == Tok::INT)
    {
      auto cx = make_context(opentelemetry::context::Context{}, a[1].as_ll(), Toks(a.begin() + 2, a.end()), ok);
      if (!ok) { o.tag("BADCASE"); return; }
      opts.parent = cx;
    }
    else { o.tag("BADCASE"); return; }
    std::vector<std::unique_ptr<sdktrace::SpanProcessor>> procs;
    auto tctx = std::make_shared<sdktrace::TracerContext>(
        std::move(procs), opentelemetry::sdk::resource::Resource::Create({}), std::unique_ptr<sdktrace::Sampler>(new Shared(s)),
        std::unique_ptr<sdktrace::IdGenerator>(new FixedIdGenerator(gen, parts[3][1].as_ll() != 0)));
    auto tracer = std::make_shared<sdktrace::Tracer>(tctx);
    opentelemetry::common::KeyValueIterableView<std::map<std::string, int>> av{x.attrs};
    trace_api::SpanContextKeyValueIterableView<decltype(x.links)> lv{x.links};
    {
      auto token = opentelemetry::context::RuntimeContext::Attach(cur);
      auto span  = tracer->StartSpan(nostd::string_view(x.name->p, x.name->n), av, lv, opts);
      auto sc    = span->GetContext();
      char tb[16];
      sc.trace_id().CopyBytesTo(nostd::span<uint8_t, 16>(reinterpret_cast<uint8_t *>(tb), 16));
      o.bytes(tb, 16).num(sc.trace_flags().flags()).bytes(sc.trace_state()->ToHeader()).boolean(span->IsRecording());
      o.num(counter ? counter->calls : 0);
      span->End();
      opentelemetry::context::RuntimeContext::Detach(*token);
    }
    return;
  }
  o.tag("BADCASE");
}

int main(int argc, char **argv)
{
  // the SDK's internal log goes to stdout by default and would corrupt the one-line-per-case protocol
  opentelemetry::sdk::common::internal_log::GlobalLogHandler::SetLogLevel(opentelemetry::sdk::common::internal_log::LogLevel::None);
  return verif::run_cases(argc, argv, one_case);
}
