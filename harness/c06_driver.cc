// C06 driver: counters and up-down counters behind a MeterProvider with several own MetricReaders of mixed temporality.
// Public SDK API only.  Case and observation formats: coq/C06/Glue.v.
//
//   SEQ  <readers> | <views> | <meters> | <ops>                       the script's Add / Collect calls in order
//   RACE <readers> | <views> | <meters> | <news> | <adds> | <collectors>   recorder threads race collector threads
//
// Timestamps are never printed: a MetricData's end_ts is checked to lie inside the wall-clock bracket of the Collect call
// that produced it and is then named by the script position of that call; a start_ts is named by looking it up among the
// SDK start time (0) and the end timestamps seen so far (-1: a time the reader has never been shown).
#include "c06_common.h"

static int64_t now_ns()
{
  return std::chrono::duration_cast<std::chrono::nanoseconds>(std::chrono::system_clock::now().time_since_epoch()).count();
}


// ------------------------------------------------------------------------------------------------ SEQ
static void run_seq(const Toks &t, Out &o)
{
  auto secs = verif::split_toks(t, "|", 1);
  if (secs.size() != 4) { o.tag("BADCASE"); return; }
  Sdk s;
  if (!setup(secs[0], secs[1], secs[2], s)) { o.tag("BADCASE"); return; }
  std::map<int64_t, long long> times;   // wall clock ns -> logical time
  times[s.start_ns] = 0;
  Out body;
  bool first = true;
  long long pos = 0;
  if (!secs[3].empty())
    for (auto &op : verif::split_toks(secs[3], ";"))
    {
      pos++;
      if (op.empty()) { o.tag("BADCASE"); return; }
      if (op[0].is_tag("N"))
      {
        if (!do_new(s, op)) { o.tag("BADCASE"); return; }
      }
      else if (op[0].is_tag("A") || op[0].is_tag("K"))
      {
        AddOp a;
        if (!parse_add(op, 0, a) || !do_add(s, a)) { o.tag("BADCASE"); return; }
      }
      else if (op[0].is_tag("C") && op.size() == 2 && op[1].kind == Tok::INT)
      {
        long long r = op[1].as_ll();
        if (r < 0 || r >= (long long)s.readers.size()) { o.tag("BADCASE"); return; }
        int64_t before = now_ns();
        auto streams   = collect(s, size_t(r));
        int64_t after  = now_ns();
        if (!first) body.tag("|");
        first = false;
        body.num(r);
        std::vector<long long> ends;
        for (auto &st : streams)
        {
          long long e = pos;
          if (st.end_ns < before || st.end_ns > after) e = -2;             // not taken during this Collect
          else
          {
            auto it = times.find(st.end_ns);
            if (it != times.end() && it->second != pos) e = -3;            // clock tie with an earlier collection
            else times[st.end_ns] = pos;
          }
          ends.push_back(e);
        }
        for (size_t i = 0; i < streams.size(); i++)
        {
          auto &st = streams[i];
          auto it  = times.find(st.start_ns);
          body.tag(";").num(st.meter).bytes(st.name);
          bool mono = false, dbl = false;
          if (!st.pts.empty()) { mono = st.pts[0].mono; dbl = st.pts[0].dbl; }
          bool mixed = false;
          for (auto &p : st.pts) mixed = mixed || p.mono != mono || p.dbl != dbl || p.bad;
          if (st.pts.empty())
          {
            // no point to read the kind from: the MetricData's instrument descriptor says it
            mono = st.desc_mono; dbl = st.desc_dbl;
          }
          body.boolean(mono).boolean(dbl).num(st.delta ? 0 : 1);
          body.num(it == times.end() ? -1 : it->second).num(ends[i]);
          if (mixed) body.tag("BADPOINT");
          for (auto &p : st.pts)
          {
            body.tag(",");
            print_key(body, p.key);
            body.num(p.v);
          }
        }
      }
      else { o.tag("BADCASE"); return; }
    }
  o.line = body.line;
}

// ------------------------------------------------------------------------------------------------ RACE
struct Seen
{
  std::vector<std::vector<Stream>> collections;   // what one reader was given, in order
};

static void run_race(const Toks &t, Out &o)
{
  auto secs = verif::split_toks(t, "|", 1);
  if (secs.size() != 6) { o.tag("BADCASE"); return; }
  Sdk s;
  if (!setup(secs[0], secs[1], secs[2], s)) { o.tag("BADCASE"); return; }
  if (!secs[3].empty())
    for (auto &op : verif::split_toks(secs[3], ";"))
      if (!do_new(s, op)) { o.tag("BADCASE"); return; }
  std::map<long long, std::vector<AddOp>> recorders;
  if (!secs[4].empty())
    for (auto &op : verif::split_toks(secs[4], ";"))
    {
      AddOp a;
      if (op.empty() || op[0].kind != Tok::INT || !parse_add(op, 1, a) || a.h >= s.handles.size()) { o.tag("BADCASE"); return; }
      recorders[op[0].as_ll()].push_back(std::move(a));
    }
  std::vector<std::pair<size_t, long long>> collectors;
  if (!secs[5].empty())
    for (auto &op : verif::split_toks(secs[5], ";"))
    {
      if (op.size() != 2 || op[0].kind != Tok::INT || op[1].kind != Tok::INT) { o.tag("BADCASE"); return; }
      long long r = op[0].as_ll();
      if (r < 0 || r >= (long long)s.readers.size()) { o.tag("BADCASE"); return; }
      collectors.emplace_back(size_t(r), op[1].as_ll());
    }
  std::vector<Seen> seen(s.readers.size());
  std::vector<std::vector<std::vector<Stream>>> by_collector(collectors.size());
  std::atomic<bool> go{false};
  std::atomic<bool> failed{false};
  std::vector<std::thread> threads;
  for (auto &rec : recorders)
    threads.emplace_back([&s, &rec, &go, &failed]() {
      while (!go.load(std::memory_order_acquire)) std::this_thread::yield();
      for (auto &a : rec.second)
        if (!do_add(s, a)) failed = true;
    });
  // two collector threads never share a reader's bookkeeping: each keeps its own list, merged after the join in the
  // order of their (disjoint per reader) collections; a reader is driven by at most one collector thread
  std::vector<bool> used(s.readers.size(), false);
  for (auto &c : collectors)
  {
    if (used[c.first]) { go = true; for (auto &th : threads) th.join(); o.tag("BADCASE"); return; }
    used[c.first] = true;
  }
  for (size_t i = 0; i < collectors.size(); i++)
    threads.emplace_back([&s, &collectors, &by_collector, &go, i]() {
      while (!go.load(std::memory_order_acquire)) std::this_thread::yield();
      for (long long k = 0; k < collectors[i].second; k++)
      {
        by_collector[i].push_back(collect(s, collectors[i].first));
        std::this_thread::yield();
      }
    });
  go.store(true, std::memory_order_release);
  for (auto &th : threads) th.join();
  if (failed) { o.tag("BADCASE"); return; }
  for (size_t i = 0; i < collectors.size(); i++)
    for (auto &c : by_collector[i]) seen[collectors[i].first].collections.push_back(std::move(c));
  for (size_t r = 0; r < s.readers.size(); r++) seen[r].collections.push_back(collect(s, r));

  bool flags = true;
  // (reader, meter, stream, key) -> total
  std::map<std::tuple<size_t, long long, std::string, Key>, long long> totals;
  for (size_t r = 0; r < s.readers.size(); r++)
  {
    std::map<std::pair<long long, std::string>, int64_t> prev_end;
    for (size_t ci = 0; ci < seen[r].collections.size(); ci++)
    {
      bool last = ci + 1 == seen[r].collections.size();
      for (auto &st : seen[r].collections[ci])
      {
        auto id = std::make_pair(st.meter, st.name);
        if (st.delta != s.reader_delta[r]) flags = false;
        if (st.delta)
        {
          auto it         = prev_end.find(id);
          int64_t expect  = it == prev_end.end() ? s.start_ns : it->second;
          if (st.start_ns != expect) flags = false;
        }
        else if (st.start_ns != s.start_ns) flags = false;
        if (st.end_ns < st.start_ns) flags = false;
        prev_end[id] = st.end_ns;
        for (auto &p : st.pts)
        {
          if (p.bad) flags = false;
          auto key = std::make_tuple(r, st.meter, st.name, p.key);
          if (st.delta) totals[key] += p.v;
          else if (last) totals[key] = p.v;
          else totals.emplace(key, 0);
        }
      }
    }
  }
  o.tag("F").boolean(flags);
  for (auto &kv : totals)
  {
    o.tag(";").num((long long)std::get<0>(kv.first)).num(std::get<1>(kv.first)).bytes(std::get<2>(kv.first));
    print_key(o, std::get<3>(kv.first));
    o.num(kv.second);
  }
}

int main(int argc, char **argv)
{
  using namespace opentelemetry::sdk::common::internal_log;
  GlobalLogHandler::SetLogHandler(nostd::shared_ptr<LogHandler>(new NoopLogHandler()));
  GlobalLogHandler::SetLogLevel(LogLevel::None);
  return verif::run_cases(argc, argv, [](const Toks &t, Out &o) {
    if (t.empty()) { o.tag("BADCASE"); return; }
    if (t[0].is_tag("SEQ")) run_seq(t, o);
    else if (t[0].is_tag("RACE")) run_race(t, o);
    else o.tag("BADCASE");
  });
}
