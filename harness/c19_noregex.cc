// The hand-written (non-std::regex) variant of InstrumentMetaDataValidator, compiled from the same source file of the
// tree under test with OPENTELEMETRY_HAVE_WORKING_REGEX forced to 0 and the class renamed, so that both variants can be
// compared in one binary (harness/c19_driver.cc).
#include <algorithm>
#include <cctype>
#include <iterator>
#include <string>
#include "opentelemetry/common/macros.h"
#include "opentelemetry/nostd/string_view.h"
#include "opentelemetry/version.h"

#undef OPENTELEMETRY_HAVE_WORKING_REGEX
#define OPENTELEMETRY_HAVE_WORKING_REGEX 0
#define InstrumentMetaDataValidator InstrumentMetaDataValidatorNoRegex
#include "opentelemetry/sdk/metrics/instrument_metadata_validator.h"
#include "src/metrics/instrument_metadata_validator.cc"
#undef InstrumentMetaDataValidator

namespace verif
{
bool noregex_validate_name(opentelemetry::nostd::string_view s)
{
  static const opentelemetry::sdk::metrics::InstrumentMetaDataValidatorNoRegex v;
  return v.ValidateName(s);
}
bool noregex_validate_unit(opentelemetry::nostd::string_view s)
{
  static const opentelemetry::sdk::metrics::InstrumentMetaDataValidatorNoRegex v;
  return v.ValidateUnit(s);
}
}  // namespace verif
