// C09 purity probe: the operations the C09/C14 models treat as pure functions of immutable values
// (TraceState::ToHeader/Get/Set/Delete/..., SpanContext accessors, HttpTraceContext::Inject of a shared
// Context into per-thread carriers, Extract from a shared carrier) executed by several real threads on
// SHARED objects under ThreadSanitizer.  Generic part: harness/purity/purity_probe.h.
// Case: PURITY <members> <threads> <rounds> <iters>      members = entries of the shared trace state
#include <map>
#include "opentelemetry/context/context.h"
#include "opentelemetry/context/propagation/text_map_propagator.h"
#include "opentelemetry/trace/context.h"
#include "opentelemetry/trace/default_span.h"
#include "opentelemetry/trace/propagation/http_trace_context.h"
#include "opentelemetry/trace/span_context.h"
#include "opentelemetry/trace/trace_state.h"
#include "purity/purity_probe.h"

namespace nostd   = opentelemetry::nostd;
namespace trace   = opentelemetry::trace;
namespace context = opentelemetry::context;

namespace
{
class Carrier : public context::propagation::TextMapCarrier
{
public:
  std::map<std::string, std::string> h;
  nostd::string_view Get(nostd::string_view key) const noexcept override
  {
    auto it = h.find(std::string(key));
    if (it == h.end()) return "";
    return it->second;
  }
  void Set(nostd::string_view key, nostd::string_view value) noexcept override
  {
    h[std::string(key)] = std::string(value);
  }
  std::string dump() const
  {
    std::string o;
    for (auto &kv : h) o += kv.first + ":" + kv.second + ";";
    return o;
  }
};

std::string key_of(int i) { return "vendor-number-" + std::to_string(i) + "-tenant@sys" + std::to_string(i % 7); }
std::string val_of(int i) { return "opaque-value-" + std::to_string(i) + "-0123456789abcdef"; }

std::string show(const trace::SpanContext &sc)
{
  char tid[32], sid[16], fl[2];
  sc.trace_id().ToLowerBase16(nostd::span<char, 32>(tid, 32));
  sc.span_id().ToLowerBase16(nostd::span<char, 16>(sid, 16));
  sc.trace_flags().ToLowerBase16(nostd::span<char, 2>(fl, 2));
  return std::string(tid, 32) + "/" + std::string(sid, 16) + "/" + std::string(fl, 2) + "/" +
         (sc.IsValid() ? "v" : "-") + (sc.IsRemote() ? "r" : "-") + (sc.IsSampled() ? "s" : "-") + "/" +
         sc.trace_state()->ToHeader();
}

class C09World : public purity::World
{
public:
  explicit C09World(int members) : n_(members)
  {
    std::string h;
    for (int i = 0; i < members; i++) h += (i ? "," : "") + key_of(i) + "=" + val_of(i);
    header_ = h;
    ts_     = trace::TraceState::FromHeader(h);
    uint8_t tid[16], sid[8];
    for (int i = 0; i < 16; i++) tid[i] = uint8_t(0xa0 + i);
    for (int i = 0; i < 8; i++) sid[i] = uint8_t(0x1b + 3 * i);
    sc_ = std::unique_ptr<trace::SpanContext>(new trace::SpanContext(
        trace::TraceId(nostd::span<const uint8_t, 16>(tid, 16)), trace::SpanId(nostd::span<const uint8_t, 8>(sid, 8)),
        trace::TraceFlags(0xfa), false, ts_));
    nostd::shared_ptr<trace::Span> sp{new trace::DefaultSpan(*sc_)};
    context::Context root;
    ctx_ = trace::SetSpan(root, sp);
    carrier_.Set("traceparent", "  00-a0a1a2a3a4a5a6a7a8a9aaabacadaeaf-1b1e2124272a2d30-0A\t");
    if (members > 0) carrier_.Set("tracestate", " " + h + " ");
  }

  size_t n_ops() const override { return 12; }
  const char *op_name(size_t i) const override
  {
    static const char *names[] = {"TraceState::ToHeader", "TraceState::Get",      "TraceState::Set(existing)",
                                  "TraceState::Set(new)", "TraceState::Delete",   "TraceState::GetAllEntries/Empty",
                                  "SpanContext accessors", "HttpTraceContext::Inject", "HttpTraceContext::Extract",
                                  "TraceState::FromHeader(ToHeader)", "Inject+Extract round trip", "GetSpan(context)"};
    return names[i];
  }

  std::string run_op(size_t i, int) const override
  {
    trace::propagation::HttpTraceContext prop;
    switch (i)
    {
      case 0:
        return ts_->ToHeader();
      case 1: {
        std::string o, v;
        for (int k = 0; k <= n_; k += (n_ > 4 ? n_ / 4 : 1))
          o += (ts_->Get(key_of(k), v) ? v : std::string("<none>")) + "|";
        return o;
      }
      case 2:
        return ts_->Set(key_of(n_ / 2), "replaced")->ToHeader();
      case 3:
        return ts_->Set("fresh", "value")->ToHeader();
      case 4:
        return ts_->Delete(key_of(0))->ToHeader() + "#" + ts_->Delete("absent")->ToHeader();
      case 5: {
        std::string o = ts_->Empty() ? "E" : "N";
        ts_->GetAllEntries([&o](nostd::string_view k, nostd::string_view v) noexcept {
          o += std::string(k) + "=" + std::string(v) + ";";
          return true;
        });
        return o;
      }
      case 6:
        return show(*sc_);
      case 7: {
        Carrier c;   // per-thread carrier, shared Context
        prop.Inject(c, ctx_);
        return c.dump();
      }
      case 8: {
        context::Context in = ctx_;
        context::Context out = prop.Extract(carrier_, in);   // shared carrier, const access
        return show(trace::GetSpan(out)->GetContext());
      }
      case 9:
        return trace::TraceState::FromHeader(ts_->ToHeader())->ToHeader();
      case 10: {
        Carrier c;
        prop.Inject(c, ctx_);
        context::Context in;
        context::Context out = prop.Extract(c, in);
        return c.dump() + "=>" + show(trace::GetSpan(out)->GetContext());
      }
      default:
        return show(trace::GetSpan(ctx_)->GetContext());
    }
  }

private:
  int n_;
  std::string header_;
  nostd::shared_ptr<trace::TraceState> ts_;
  std::unique_ptr<trace::SpanContext> sc_;
  context::Context ctx_;
  Carrier carrier_;
};
}  // namespace

int main(int argc, char **argv)
{
  return purity::main_probe(argc, argv, [](int size) { return std::unique_ptr<purity::World>(new C09World(size)); });
}
