// C14 purity probe: every const operation of trace::TraceState that the C14 model treats as a pure function
// of immutable values, executed by several real threads on SHARED objects under ThreadSanitizer
// (Get, Set of an existing / new key, Delete, ToHeader, GetAllEntries, Empty, the static validators,
// FromHeader on a shared header string, the shared GetDefault() singleton).  A run-time probe of a modelling
// assumption, not a theorem.  Generic part: harness/purity/purity_probe.h.
// Case: PURITY <members> <threads> <rounds> <iters>      members = entries of the shared trace state (0..32)
#include <string>
#include "opentelemetry/nostd/shared_ptr.h"
#include "opentelemetry/nostd/string_view.h"
#include "opentelemetry/trace/trace_state.h"
#include "purity/purity_probe.h"

namespace nostd = opentelemetry::nostd;
namespace trace = opentelemetry::trace;

namespace
{
std::string key_of(int i) { return "vendor-number-" + std::to_string(i) + "-tenant@sys" + std::to_string(i % 7); }
std::string val_of(int i) { return "Opaque value " + std::to_string(i) + " 0123456789abcdef"; }

std::string entries(const nostd::shared_ptr<trace::TraceState> &ts)
{
  std::string o = ts->Empty() ? "E:" : "N:";
  ts->GetAllEntries([&o](nostd::string_view k, nostd::string_view v) noexcept {
    o += std::string(k.data(), k.size()) + "=" + std::string(v.data(), v.size()) + ";";
    return true;
  });
  return o;
}

class C14World : public purity::World
{
public:
  explicit C14World(int members) : n_(members)
  {
    for (int i = 0; i < members; i++) header_ += (i ? " , " : "") + key_of(i) + "=" + val_of(i);
    bad_header_ = header_ + (members ? "," : "") + "Bad Key=1";
    ts_         = trace::TraceState::FromHeader(header_);
    value_only_ = "Prod value";                 // a legal value, an illegal key
    long_key_   = std::string(256, 'k');
    shared_key_ = key_of(members / 2);
  }

  size_t n_ops() const override { return 12; }
  const char *op_name(size_t i) const override
  {
    static const char *names[] = {"ToHeader",
                                  "Get(present/absent/invalid)",
                                  "Set(existing key)",
                                  "Set(new key)",
                                  "Delete(present/absent/invalid)",
                                  "GetAllEntries/Empty",
                                  "IsValidKey/IsValidValue",
                                  "FromHeader(shared header)",
                                  "FromHeader(ToHeader())",
                                  "Set/Delete chain",
                                  "GetDefault() singleton",
                                  "FromHeader(shared invalid header)"};
    return names[i];
  }

  std::string run_op(size_t i, int) const override
  {
    switch (i)
    {
      case 0:
        return ts_->ToHeader();
      case 1: {
        std::string o;
        for (int k = 0; k <= n_; k += (n_ > 4 ? n_ / 4 : 1))
        {
          std::string v = "<unset>";
          o += (ts_->Get(key_of(k), v) ? v : std::string("<none>")) + "|";
        }
        std::string v = "<unset>";
        o += ts_->Get(value_only_, v) ? "found" : "invalid";
        o += ts_->Get(shared_key_, v) ? ("/" + v) : std::string("/none");
        return o;
      }
      case 2:
        return entries(ts_->Set(shared_key_, "replaced")) + "#" + entries(ts_->Set(key_of(0), value_only_));
      case 3:
        return entries(ts_->Set("fresh", "value")) + "#" + entries(ts_->Set(long_key_, value_only_)) + "#" +
               entries(ts_->Set(value_only_, "x"));
      case 4:
        return entries(ts_->Delete(key_of(0))) + "#" + entries(ts_->Delete("absent")) + "#" +
               entries(ts_->Delete(value_only_)) + "#" + entries(ts_->Delete(shared_key_));
      case 5:
        return entries(ts_);
      case 6: {
        std::string o;
        o += trace::TraceState::IsValidKey(shared_key_) ? "1" : "0";
        o += trace::TraceState::IsValidValue(value_only_) ? "1" : "0";
        o += trace::TraceState::IsValidKey(long_key_) ? "1" : "0";
        o += trace::TraceState::IsValidKey("Upper") ? "1" : "0";
        o += trace::TraceState::IsValidValue("trailing ") ? "1" : "0";
        o += trace::TraceState::IsValidValue(long_key_) ? "1" : "0";
        o += trace::TraceState::IsValidKey(nostd::string_view(long_key_.data(), 255)) ? "1" : "0";
        return o;
      }
      case 7:
        return entries(trace::TraceState::FromHeader(header_));   // shared header bytes, const access
      case 8:
        return trace::TraceState::FromHeader(ts_->ToHeader())->ToHeader();
      case 9: {
        auto a = ts_->Set("a", "1");
        auto b = a->Set(shared_key_, "2")->Delete("a");
        return entries(a) + "#" + entries(b) + "#" + ts_->ToHeader();
      }
      case 10: {
        auto d = trace::TraceState::GetDefault();
        std::string v = "<unset>";
        return d->ToHeader() + (d->Empty() ? "E" : "N") + (d->Get("a", v) ? "1" : "0") + "#" + entries(d->Set("a", "1")) + "#" +
               entries(d->Delete("a"));
      }
      default:
        return entries(trace::TraceState::FromHeader(bad_header_));
    }
  }

private:
  int n_;
  std::string header_, bad_header_, value_only_, long_key_, shared_key_;
  nostd::shared_ptr<trace::TraceState> ts_;
};
}  // namespace

int main(int argc, char **argv)
{
  return purity::main_probe(argc, argv, [](int size) { return std::unique_ptr<purity::World>(new C14World(size)); });
}
