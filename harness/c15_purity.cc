// C15 purity probe: the operations the C15 model treats as pure functions of immutable values
// (Baggage::GetValue/Set/Delete/ToHeader/GetAllEntries on a SHARED baggage, FromHeader on a shared header
// string, BaggagePropagator / CompositePropagator Inject of one shared Context into per-thread carriers and
// Extract from a shared carrier into a shared Context) executed by several real threads under ThreadSanitizer.
// A run-time probe of the model's purity assumption, not a theorem.  Generic part: harness/purity/purity_probe.h.
// Case: PURITY <entries> <threads> <rounds> <iters>      entries = entries of the shared baggage
#include <map>
#include <memory>
#include <vector>
#include "opentelemetry/baggage/baggage.h"
#include "opentelemetry/baggage/baggage_context.h"
#include "opentelemetry/baggage/propagation/baggage_propagator.h"
#include "opentelemetry/context/context.h"
#include "opentelemetry/context/propagation/composite_propagator.h"
#include "opentelemetry/context/propagation/text_map_propagator.h"
#include "opentelemetry/trace/context.h"
#include "opentelemetry/trace/default_span.h"
#include "opentelemetry/trace/propagation/b3_propagator.h"
#include "opentelemetry/trace/propagation/http_trace_context.h"
#include "opentelemetry/trace/propagation/jaeger.h"
#include "opentelemetry/trace/span_context.h"
#include "purity/purity_probe.h"

namespace nostd   = opentelemetry::nostd;
namespace trace   = opentelemetry::trace;
namespace context = opentelemetry::context;
namespace baggage = opentelemetry::baggage;
using context::propagation::TextMapPropagator;

namespace
{
class Carrier : public context::propagation::TextMapCarrier
{
public:
  std::map<std::string, std::string> h;
  nostd::string_view Get(nostd::string_view key) const noexcept override
  {
    auto it = h.find(std::string(key));
    if (it == h.end()) return "";
    return it->second;
  }
  void Set(nostd::string_view key, nostd::string_view value) noexcept override
  {
    h[std::string(key)] = std::string(value);
  }
  std::string dump() const
  {
    std::string o;
    for (auto &kv : h) o += kv.first + ":" + kv.second + "\n";
    return o;
  }
};

// keys and values that need percent-encoding; every third value carries a ;metadata part
std::string key_of(int i) { return "user key/" + std::to_string(i) + "=%"; }
std::string val_of(int i)
{
  switch (i % 3)
  {
    case 0:
      return "value, with=specials %+ " + std::to_string(i);
    case 1:
      return "v" + std::to_string(i) + ";meta=" + std::to_string(i) + ";flag";
    default:
      return "plain-" + std::to_string(i);
  }
}

std::string show(const baggage::Baggage &b)
{
  std::string o;
  b.GetAllEntries([&o](nostd::string_view k, nostd::string_view v) {
    o += std::string(k) + "=>" + std::string(v) + "\n";
    return true;
  });
  return o;
}

std::string show(const context::Context &c)
{
  std::string o;
  if (c.HasKey(trace::kSpanKey))
  {
    auto sc = trace::GetSpan(c)->GetContext();
    char tid[32], sid[16];
    sc.trace_id().ToLowerBase16(nostd::span<char, 32>(tid, 32));
    sc.span_id().ToLowerBase16(nostd::span<char, 16>(sid, 16));
    o += "span " + std::string(tid, 32) + "/" + std::string(sid, 16) + "/" + std::to_string(sc.trace_flags().flags()) +
         (sc.IsRemote() ? "r" : "-") + "/" + sc.trace_state()->ToHeader() + "\n";
  }
  else o += "nospan\n";
  if (c.HasKey(baggage::kBaggageHeader)) o += "bag\n" + show(*baggage::GetBaggage(c));
  else o += "nobag\n";
  return o;
}

std::unique_ptr<context::propagation::CompositePropagator> make_composite()
{
  std::vector<std::unique_ptr<TextMapPropagator>> ps;
  ps.push_back(std::unique_ptr<TextMapPropagator>(new trace::propagation::HttpTraceContext()));
  ps.push_back(std::unique_ptr<TextMapPropagator>(new baggage::propagation::BaggagePropagator()));
  ps.push_back(std::unique_ptr<TextMapPropagator>(new trace::propagation::B3Propagator()));
  ps.push_back(std::unique_ptr<TextMapPropagator>(new trace::propagation::B3PropagatorMultiHeader()));
  ps.push_back(std::unique_ptr<TextMapPropagator>(new trace::propagation::JaegerPropagator()));
  return std::unique_ptr<context::propagation::CompositePropagator>(
      new context::propagation::CompositePropagator(std::move(ps)));
}

class C15World : public purity::World
{
public:
  explicit C15World(int entries) : n_(entries)
  {
    bag_ = nostd::shared_ptr<baggage::Baggage>(new baggage::Baggage());
    for (int i = entries - 1; i >= 0; i--) bag_ = bag_->Set(key_of(i), val_of(i));
    // a header with white space, empty / invalid members around what ToHeader writes
    header_ = "  " + bag_->ToHeader() + " , novalue ,bad=%zz,, tail=%7e ;m ";
    uint8_t tid[16], sid[8];
    for (int i = 0; i < 16; i++) tid[i] = uint8_t(0xa0 + i);
    for (int i = 0; i < 8; i++) sid[i] = uint8_t(0x1b + 3 * i);
    nostd::shared_ptr<trace::Span> sp{new trace::DefaultSpan(trace::SpanContext(
        trace::TraceId(nostd::span<const uint8_t, 16>(tid, 16)), trace::SpanId(nostd::span<const uint8_t, 8>(sid, 8)),
        trace::TraceFlags(1), false, trace::TraceState::FromHeader("vendor=opaque")))};
    context::Context root;
    context::Context with_span = trace::SetSpan(root, sp);
    ctx_      = baggage::SetBaggage(with_span, bag_);
    composite_ = make_composite();
    bagprop_.reset(new baggage::propagation::BaggagePropagator());
    carrier_.Set("baggage", header_);
    carrier_.Set("traceparent", "00-0af7651916cd43dd8448eb211c80319c-b7ad6b7169203331-01");
    carrier_.Set("tracestate", "a=1,b=2");
    carrier_.Set("b3", "1af7651916cd43dd8448eb211c80319c-c7ad6b7169203331-1");
    carrier_.Set("uber-trace-id", "2af7651916cd43dd8448eb211c80319c:d7ad6b7169203331:0:01");
  }

  size_t n_ops() const override { return 16; }
  const char *op_name(size_t i) const override
  {
    static const char *names[] = {"Baggage::ToHeader",
                                  "Baggage::GetValue",
                                  "Baggage::Set(existing)",
                                  "Baggage::Set(new)",
                                  "Baggage::Set(invalid)",
                                  "Baggage::Delete",
                                  "Baggage::GetAllEntries",
                                  "Baggage::FromHeader(shared string)",
                                  "Baggage::FromHeader(ToHeader)",
                                  "BaggagePropagator::Inject",
                                  "BaggagePropagator::Extract",
                                  "CompositePropagator::Inject",
                                  "CompositePropagator::Extract",
                                  "Composite Inject+Extract round trip",
                                  "GetBaggage(context)",
                                  "Baggage::GetDefault/FromHeader(too long)"};
    return names[i];
  }

  std::string run_op(size_t i, int) const override
  {
    // the shared objects: used through the library's (non-const) entry points, never written by the probe
    baggage::Baggage &bag                  = *bag_;
    context::Context &ctx                  = const_cast<context::Context &>(ctx_);
    TextMapPropagator &bagprop             = *bagprop_;
    TextMapPropagator &comp                = *composite_;
    switch (i)
    {
      case 0:
        return bag.ToHeader();
      case 1: {
        std::string o, v;
        for (int k = 0; k <= n_; k += (n_ > 4 ? n_ / 4 : 1))
          o += (bag.GetValue(key_of(k), v) ? v : std::string("<none>")) + "|";
        return o;
      }
      case 2:
        return show(*bag.Set(key_of(n_ / 2), "replaced;m"));
      case 3:
        return show(*bag.Set("fresh key", "fresh value, 100%"));
      case 4:
        return show(*bag.Set("", "v")) + "#" + show(*bag.Set("k", std::string("a\x01z")));
      case 5:
        return show(*bag.Delete(key_of(0))) + "#" + show(*bag.Delete("absent"));
      case 6:
        return show(bag);
      case 7:
        return show(*baggage::Baggage::FromHeader(header_));
      case 8:
        return baggage::Baggage::FromHeader(bag.ToHeader())->ToHeader();
      case 9: {
        Carrier c;   // per-thread carrier, shared Context, shared propagator
        bagprop.Inject(c, ctx);
        return c.dump();
      }
      case 10: {
        context::Context out = bagprop.Extract(carrier_, ctx);   // shared carrier, shared Context
        return show(out);
      }
      case 11: {
        Carrier c;
        comp.Inject(c, ctx);
        return c.dump();
      }
      case 12: {
        context::Context out = comp.Extract(carrier_, ctx);
        return show(out);
      }
      case 13: {
        Carrier c;
        comp.Inject(c, ctx);
        context::Context in;
        context::Context out = comp.Extract(c, in);
        return c.dump() + "=>" + show(out);
      }
      case 14:
        return show(*baggage::GetBaggage(ctx)) + "#" + show(ctx);
      default: {
        context::Context empty;
        return show(*baggage::Baggage::GetDefault()) + "#" + show(*baggage::GetBaggage(empty)) + "#" +
               show(*baggage::Baggage::FromHeader(std::string(9000, 'a')));
      }
    }
  }

private:
  int n_;
  nostd::shared_ptr<baggage::Baggage> bag_;
  std::string header_;
  context::Context ctx_;
  std::unique_ptr<context::propagation::CompositePropagator> composite_;
  std::unique_ptr<TextMapPropagator> bagprop_;
  Carrier carrier_;
};
}  // namespace

int main(int argc, char **argv)
{
  return purity::main_probe(argc, argv, [](int size) { return std::unique_ptr<purity::World>(new C15World(size)); });
}
