// C06 independence probe: a run-time check (NOT a theorem) of what the C06 models assume about the metrics SDK beyond one
// storage's lock discipline: distinct storages are independent - recording on one instrument / view stream shares no hidden
// mutable state with recording on another - and the thread-safe operations (Add on any instrument from any thread, Collect)
// are safe together.  Several REAL threads released by a barrier record through Add (attributes given as KeyValueIterable and
// as initializer lists, all four instrument kinds), each on its OWN instrument (config 0), with two view streams per
// instrument (config 1), sharing instruments while one more thread collects (config 2), across two meters (config 3).  After
// the threads have joined every reader collects; the per-reader totals (sum of the delta points / last cumulative point, per
// meter, stream and attribute set) must equal those of the same Adds made by one thread.  Built with clang -fsanitize=thread
// together with the SDK sources: an unsynchronised pair of accesses is reported by ThreadSanitizer whenever both execute
// without a happens-before edge (two different storages' locks establish none), no particular interleaving is needed.
// Case: PURITY <config> <threads> <rounds> <iters>      observation: PURE | DIFFERS x<hex description>   (RACE: tools/purity.py)
#include <algorithm>
#include <map>
#include <memory>
#include <string>
#include <thread>
#include <tuple>
#include <vector>

#include "opentelemetry/common/key_value_iterable_view.h"
#include "opentelemetry/metrics/sync_instruments.h"
#include "opentelemetry/sdk/common/global_log_handler.h"
#include "opentelemetry/sdk/metrics/meter_provider.h"
#include "opentelemetry/sdk/metrics/metric_reader.h"
#include "opentelemetry/sdk/metrics/view/instrument_selector.h"
#include "opentelemetry/sdk/metrics/view/meter_selector.h"
#include "opentelemetry/sdk/metrics/view/view.h"
#include "purity/purity_probe.h"

namespace nostd  = opentelemetry::nostd;
namespace common = opentelemetry::common;
namespace msdk   = opentelemetry::sdk::metrics;
namespace mapi   = opentelemetry::metrics;

namespace
{
class Reader : public msdk::MetricReader
{
public:
  explicit Reader(msdk::AggregationTemporality t) : t_(t) {}
  msdk::AggregationTemporality GetAggregationTemporality(msdk::InstrumentType) const noexcept override { return t_; }

private:
  bool OnForceFlush(std::chrono::microseconds) noexcept override { return true; }
  bool OnShutDown(std::chrono::microseconds) noexcept override { return true; }
  msdk::AggregationTemporality t_;
};

struct Instr
{
  int kind = 0;   // 0 uint64 counter, 1 double counter, 2 int64 up-down, 3 double up-down
  nostd::unique_ptr<mapi::Counter<uint64_t>> lc;
  nostd::unique_ptr<mapi::Counter<double>> dc;
  nostd::unique_ptr<mapi::UpDownCounter<int64_t>> lu;
  nostd::unique_ptr<mapi::UpDownCounter<double>> du;
};

// (reader, scope, stream, attributes) -> total
typedef std::map<std::tuple<int, std::string, std::string, std::string>, long long> Totals;

struct World
{
  std::shared_ptr<msdk::MeterProvider> provider;
  std::vector<std::shared_ptr<Reader>> readers;
  std::vector<std::unique_ptr<Instr>> instr;
  Totals totals;

  World(int config, int threads)
  {
    std::unique_ptr<msdk::ViewRegistry> views(new msdk::ViewRegistry());
    int ninstr = config == 2 ? std::max(1, threads / 2) : threads;
    if (config == 1)
      for (int i = 0; i < ninstr; i++)
        for (int v = 0; v < 2; v++)
        {
          auto type = (i % 4 < 2) ? msdk::InstrumentType::kCounter : msdk::InstrumentType::kUpDownCounter;
          std::unique_ptr<msdk::InstrumentSelector> is(new msdk::InstrumentSelector(type, "i" + std::to_string(i), ""));
          std::unique_ptr<msdk::MeterSelector> ms(new msdk::MeterSelector("", "", ""));
          std::unique_ptr<msdk::View> view(new msdk::View("i" + std::to_string(i) + "v" + std::to_string(v)));
          views->AddView(std::move(is), std::move(ms), std::move(view));
        }
    provider = std::make_shared<msdk::MeterProvider>(std::move(views));
    readers.emplace_back(new Reader(msdk::AggregationTemporality::kDelta));
    readers.emplace_back(new Reader(msdk::AggregationTemporality::kCumulative));
    for (auto &r : readers) provider->AddMetricReader(r);
    for (int i = 0; i < ninstr; i++)
    {
      auto meter = provider->GetMeter(config == 3 ? "m" + std::to_string(i % 2) : std::string("m0"));
      std::unique_ptr<Instr> in(new Instr());
      in->kind         = i % 4;
      std::string name = "i" + std::to_string(i);
      switch (in->kind)
      {
        case 0: in->lc = meter->CreateUInt64Counter(name, "", ""); break;
        case 1: in->dc = meter->CreateDoubleCounter(name, "", ""); break;
        case 2: in->lu = meter->CreateInt64UpDownCounter(name, "", ""); break;
        default: in->du = meter->CreateDoubleUpDownCounter(name, "", ""); break;
      }
      instr.push_back(std::move(in));
    }
  }

  Instr &instrument_of(int config, int thread) { return *instr[size_t(config == 2 ? thread % int(instr.size()) : thread)]; }

  // what thread t records in one iteration: three Adds with thread-specific attribute sets, one without attributes
  void record(int config, int t, int it)
  {
    Instr &in      = instrument_of(config, t);
    std::string ts = std::to_string(t);
    std::string ka = "a" + ts, kb = "b" + ts, kc = "c" + ts, va = "1", vb = "2", vc = std::to_string(it % 3);
    std::vector<std::pair<nostd::string_view, common::AttributeValue>> kv = {
        {nostd::string_view(ka), common::AttributeValue(nostd::string_view(va))},
        {nostd::string_view(kb), common::AttributeValue(nostd::string_view(vb))},
        {nostd::string_view(kc), common::AttributeValue(nostd::string_view(vc))}};
    common::KeyValueIterableView<std::vector<std::pair<nostd::string_view, common::AttributeValue>>> view(kv);
    opentelemetry::context::Context ctx{};
    switch (in.kind)
    {
      case 0:
        in.lc->Add(uint64_t(3), view);
        in.lc->Add(uint64_t(2), {{ka.c_str(), va.c_str()}, {"z", ts.c_str()}});
        in.lc->Add(uint64_t(1), view, ctx);
        in.lc->Add(uint64_t(1));
        break;
      case 1:
        in.dc->Add(3.0, view);
        in.dc->Add(2.0, {{ka.c_str(), va.c_str()}, {"z", ts.c_str()}});
        in.dc->Add(1.0, view, ctx);
        in.dc->Add(1.0);
        break;
      case 2:
        in.lu->Add(int64_t(3), view);
        in.lu->Add(int64_t(2), {{ka.c_str(), va.c_str()}, {"z", ts.c_str()}});
        in.lu->Add(int64_t(-1), view, ctx);
        in.lu->Add(int64_t(1));
        break;
      default:
        in.du->Add(3.0, view);
        in.du->Add(2.0, {{ka.c_str(), va.c_str()}, {"z", ts.c_str()}});
        in.du->Add(-1.0, view, ctx);
        in.du->Add(1.0);
        break;
    }
  }

  void collect(int r, bool last)
  {
    bool delta = r == 0;
    readers[size_t(r)]->Collect([&](msdk::ResourceMetrics &rm) {
      for (auto &sm : rm.scope_metric_data_)
        for (auto &md : sm.metric_data_)
          for (auto &p : md.point_data_attr_)
          {
            std::string key;
            for (auto &kv : p.attributes)
            {
              key += kv.first + "=";
              if (nostd::holds_alternative<std::string>(kv.second)) key += nostd::get<std::string>(kv.second);
              else key += "?";
              key += ",";
            }
            long long v = 0;
            if (nostd::holds_alternative<msdk::SumPointData>(p.point_data))
            {
              auto &sp = nostd::get<msdk::SumPointData>(p.point_data);
              if (nostd::holds_alternative<int64_t>(sp.value_)) v = nostd::get<int64_t>(sp.value_);
              else v = (long long)nostd::get<double>(sp.value_);
            }
            else v = -999999;
            auto id = std::make_tuple(r, sm.scope_->GetName(), md.instrument_descriptor.name_, key);
            if (delta) totals[id] += v;
            else if (last) totals[id] = v;
            else totals.emplace(id, 0);
          }
      return true;
    });
  }

  std::string dump()
  {
    std::string o;
    for (auto &kv : totals)
      o += std::to_string(std::get<0>(kv.first)) + "/" + std::get<1>(kv.first) + "/" + std::get<2>(kv.first) + "/" +
           std::get<3>(kv.first) + ":" + std::to_string(kv.second) + ";";
    return o;
  }
};
}  // namespace

int main(int argc, char **argv)
{
  using namespace opentelemetry::sdk::common::internal_log;
  GlobalLogHandler::SetLogHandler(nostd::shared_ptr<LogHandler>(new NoopLogHandler()));
  GlobalLogHandler::SetLogLevel(LogLevel::None);
  if (argc != 5) { std::printf("BADCASE\n"); return 0; }
  const int config = std::atoi(argv[1]), threads = std::atoi(argv[2]), rounds = std::atoi(argv[3]), iters = std::atoi(argv[4]);
  if (config < 0 || config > 3 || threads < 1 || threads > 8 || rounds < 1 || iters < 1) { std::printf("BADCASE\n"); return 0; }
  // reference: the same Adds by one thread
  std::string ref;
  {
    World w(config, threads);
    for (int t = 0; t < threads; t++)
      for (int it = 0; it < iters; it++) w.record(config, t, it);
    w.collect(0, true);
    w.collect(1, true);
    ref = w.dump();
  }
  std::string mismatch;
  for (int r = 0; r < rounds && mismatch.empty(); r++)
  {
    World w(config, threads);
    bool with_collector = config == 2;
    purity::Barrier bar(threads + (with_collector ? 1 : 0));
    std::vector<std::thread> ts;
    for (int t = 0; t < threads; t++)
      ts.emplace_back([&, t] {
        bar.wait();
        for (int it = 0; it < iters; it++) w.record(config, t, it);
      });
    if (with_collector)
      ts.emplace_back([&] {
        bar.wait();
        for (int k = 0; k < 3; k++) w.collect(0, false);   // only this thread touches reader 0 and the totals until the join
      });
    for (auto &t : ts) t.join();
    w.collect(0, true);
    w.collect(1, true);
    std::string got = w.dump();
    if (got != ref) mismatch = "config=" + std::to_string(config) + " round=" + std::to_string(r) + " got=" + got.substr(0, 700) + " want=" + ref.substr(0, 700);
  }
  if (mismatch.empty()) std::printf("PURE\n");
  else std::printf("DIFFERS %s\n", purity::hex(mismatch.substr(0, 1500)).c_str());
  return 0;
}
