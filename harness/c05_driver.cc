// C05 driver: sdk Tracer::StartSpan through the public API with a scripted IdGenerator, a spying wrapper
// around the configured Sampler (built-in ones, a scripted one, ParentBased around either), the three
// parenting mechanisms (explicit SpanContext, explicit Context incl. the root marker, active span of the
// calling thread via Scope / WithActiveSpan / Attach), several threads in lock step (each with its own
// thread_local runtime-context stack), and a recording exporter behind a SimpleSpanProcessor.
// Case and observation format: see coq/C05/Glue.v.
#include "opentelemetry/sdk/common/global_log_handler.h"
#include <cmath>
#include <condition_variable>
#include <cstring>
#include <functional>
#include <map>
#include <memory>
#include <mutex>
#include <string>
#include <thread>
#include <utility>
#include <vector>
#include "common/verif_io.h"

#include "opentelemetry/context/context.h"
#include "opentelemetry/context/runtime_context.h"
#include "opentelemetry/sdk/instrumentationscope/scope_configurator.h"
#include "opentelemetry/sdk/resource/resource.h"
#include "opentelemetry/sdk/trace/exporter.h"
#include "opentelemetry/sdk/trace/id_generator.h"
#include "opentelemetry/sdk/trace/processor.h"
#include "opentelemetry/sdk/trace/random_id_generator.h"
#include "opentelemetry/sdk/trace/sampler.h"
#include "opentelemetry/sdk/trace/samplers/always_off.h"
#include "opentelemetry/sdk/trace/samplers/always_on.h"
#include "opentelemetry/sdk/trace/samplers/parent.h"
#include "opentelemetry/sdk/trace/samplers/trace_id_ratio.h"
#include "opentelemetry/sdk/trace/simple_processor.h"
#include "opentelemetry/sdk/trace/span_data.h"
#include "opentelemetry/sdk/trace/tracer.h"
#include "opentelemetry/sdk/trace/tracer_config.h"
#include "opentelemetry/sdk/trace/tracer_context.h"
#include "opentelemetry/trace/context.h"
#include "opentelemetry/trace/default_span.h"
#include "opentelemetry/trace/scope.h"
#include "opentelemetry/trace/span_context.h"
#include "opentelemetry/trace/span_metadata.h"
#include "opentelemetry/trace/span_startoptions.h"
#include "opentelemetry/trace/trace_state.h"
#include "opentelemetry/trace/tracer.h"
#include "opentelemetry/version.h"

namespace nostd     = opentelemetry::nostd;
namespace trace_api = opentelemetry::trace;
namespace context   = opentelemetry::context;
namespace sdktrace  = opentelemetry::sdk::trace;
namespace scope_ns  = opentelemetry::sdk::instrumentationscope;
using context::Context;
using context::ContextValue;
using context::RuntimeContext;
using verif::ExactBuf;
using verif::Out;
using verif::Tok;
using Toks = std::vector<Tok>;

// ---------------------------------------------------------------- printing
// Default-generator cases: the ids of the SDK's RandomIdGenerator cannot be predicted, so every id it hands out is
// renamed, when printed, to the id written in the StartSpan operation that drew it - first come first served; a zero
// id is never renamed.  If (and only if) the real ids are non-zero and pairwise distinct, the observation is the one
// a scripted generator returning the written ids would give; a zero or repeated real id shows up as such.
struct Renamer
{
  std::mutex m;
  std::map<std::string, std::string> sid, tid;
  std::string map_id(std::map<std::string, std::string> &tbl, const uint8_t *p, size_t n)
  {
    std::lock_guard<std::mutex> g(m);
    std::string k(reinterpret_cast<const char *>(p), n);
    auto it = tbl.find(k);
    return it == tbl.end() ? k : it->second;
  }
  void learn(std::map<std::string, std::string> &tbl, const uint8_t *real, const uint8_t *written, size_t n)
  {
    std::lock_guard<std::mutex> g(m);
    std::string k(reinterpret_cast<const char *>(real), n);
    if (k == std::string(n, '\0')) return;
    tbl.emplace(k, std::string(reinterpret_cast<const char *>(written), n));   // keeps the first renaming
  }
};
static Renamer *g_ren = nullptr;   // non-null while a default-generator case runs

static void out_tid(const trace_api::TraceId &t, Out &o)
{
  uint8_t b[16];
  t.CopyBytesTo(nostd::span<uint8_t, 16>(b, 16));
  if (g_ren) o.bytes(g_ren->map_id(g_ren->tid, b, 16)); else o.bytes(b, 16);
}
static void out_sid(const trace_api::SpanId &s, Out &o)
{
  uint8_t b[8];
  s.CopyBytesTo(nostd::span<uint8_t, 8>(b, 8));
  if (g_ren) o.bytes(g_ren->map_id(g_ren->sid, b, 8)); else o.bytes(b, 8);
}

static void print_ctx(const trace_api::SpanContext &sc, Out &o)
{
  out_tid(sc.trace_id(), o);
  out_sid(sc.span_id(), o);
  o.num(sc.trace_flags().flags()).boolean(sc.IsRemote());
  auto ts = sc.trace_state();
  o.bytes(ts ? ts->ToHeader() : std::string());
}

static const char *decision_name(sdktrace::Decision d)
{
  switch (d)
  {
    case sdktrace::Decision::DROP: return "DROP";
    case sdktrace::Decision::RECORD_ONLY: return "RECORD_ONLY";
    case sdktrace::Decision::RECORD_AND_SAMPLE: return "RECORD_AND_SAMPLE";
  }
  return "BAD_DECISION";
}

// ---------------------------------------------------------------- oracles
class ScriptedIdGenerator : public sdktrace::IdGenerator
{
public:
  explicit ScriptedIdGenerator(bool random) : sdktrace::IdGenerator(random) {}
  trace_api::SpanId GenerateSpanId() noexcept override { sid_calls++; return trace_api::SpanId(next_sid); }
  trace_api::TraceId GenerateTraceId() noexcept override { tid_calls++; return trace_api::TraceId(next_tid); }
  uint8_t next_sid[8]  = {0};
  uint8_t next_tid[16] = {0};
  long long sid_calls = 0, tid_calls = 0;
};

// the SDK's default generator (RandomIdGenerator over sdk/src/common/random.cc), called on the thread that starts the
// span; counts the calls and teaches the renamer which written id each real id stands for
class CountingRandomIdGenerator : public ScriptedIdGenerator
{
public:
  explicit CountingRandomIdGenerator(Renamer *r) : ScriptedIdGenerator(true), ren(r) {}
  trace_api::SpanId GenerateSpanId() noexcept override
  {
    sid_calls++;
    auto id = inner.GenerateSpanId();
    uint8_t b[8];
    id.CopyBytesTo(nostd::span<uint8_t, 8>(b, 8));
    ren->learn(ren->sid, b, next_sid, 8);
    return id;
  }
  trace_api::TraceId GenerateTraceId() noexcept override
  {
    tid_calls++;
    auto id = inner.GenerateTraceId();
    uint8_t b[16];
    id.CopyBytesTo(nostd::span<uint8_t, 16>(b, 16));
    ren->learn(ren->tid, b, next_tid, 16);
    return id;
  }
  sdktrace::RandomIdGenerator inner;
  Renamer *ren;
};

struct Scripted
{
  sdktrace::Decision decision = sdktrace::Decision::DROP;
  bool has_ts                 = false;
  std::string ts;
  bool has_attrs = false;
  std::vector<int64_t> attrs;
};

// the harness' own sampler: answers what the current operation says
class ScriptedSampler : public sdktrace::Sampler
{
public:
  sdktrace::SamplingResult ShouldSample(const trace_api::SpanContext &, trace_api::TraceId, nostd::string_view, trace_api::SpanKind,
                                        const opentelemetry::common::KeyValueIterable &,
                                        const trace_api::SpanContextKeyValueIterable &) noexcept override
  {
    sdktrace::SamplingResult r;
    r.decision = cur.decision;
    if (cur.has_ts)
    {
      ExactBuf h(cur.ts);
      r.trace_state = trace_api::TraceState::FromHeader(nostd::string_view(h.p, h.n));
    }
    if (cur.has_attrs)
    {
      auto *m = new std::map<std::string, opentelemetry::common::AttributeValue>();
      for (size_t i = 0; i < cur.attrs.size(); i++) (*m)["s" + std::to_string(i)] = cur.attrs[i];
      r.attributes.reset(m);
    }
    return r;
  }
  nostd::string_view GetDescription() const noexcept override { return "Scripted"; }
  Scripted cur;
};

// wraps the configured sampler: records what it was asked and what it answered
class Spy : public sdktrace::Sampler
{
public:
  explicit Spy(std::shared_ptr<sdktrace::Sampler> s) : inner(std::move(s)) {}
  sdktrace::SamplingResult ShouldSample(const trace_api::SpanContext &parent, trace_api::TraceId tid, nostd::string_view name,
                                        trace_api::SpanKind kind, const opentelemetry::common::KeyValueIterable &attrs,
                                        const trace_api::SpanContextKeyValueIterable &links) noexcept override
  {
    auto r = inner->ShouldSample(parent, tid, name, kind, attrs, links);
    calls++;
    Out o;
    o.tag("P");
    print_ctx(parent, o);
    out_tid(tid, o);
    o.tag("R").tag(decision_name(r.decision));
    if (r.trace_state) o.bytes(r.trace_state->ToHeader()); else o.tag("NULL");
    o.num(r.attributes ? (long long)r.attributes->size() : -1);
    log = o.line;
    return r;
  }
  nostd::string_view GetDescription() const noexcept override { return inner->GetDescription(); }
  std::shared_ptr<sdktrace::Sampler> inner;
  long long calls = 0;
  std::string log;
};

// PB* (ON | OFF | RATIO bits | SCRIPT)
static std::shared_ptr<sdktrace::Sampler> make_sampler(const Toks &t, size_t i, std::shared_ptr<ScriptedSampler> &scripted)
{
  if (i >= t.size()) return nullptr;
  if (t[i].is_tag("PB"))
  {
    auto d = make_sampler(t, i + 1, scripted);
    if (!d) return nullptr;
    return std::make_shared<sdktrace::ParentBasedSampler>(d);
  }
  if (t[i].is_tag("ON") && i + 1 == t.size()) return std::make_shared<sdktrace::AlwaysOnSampler>();
  if (t[i].is_tag("OFF") && i + 1 == t.size()) return std::make_shared<sdktrace::AlwaysOffSampler>();
  if (t[i].is_tag("SCRIPT") && i + 1 == t.size())
  {
    scripted = std::make_shared<ScriptedSampler>();
    return scripted;
  }
  if (t[i].is_tag("RATIO") && i + 2 == t.size() && t[i + 1].kind == Tok::INT)
  {
    uint64_t b = t[i + 1].as_ull();
    double r;
    std::memcpy(&r, &b, 8);
    if (std::isnan(r)) return nullptr;
    return std::make_shared<sdktrace::TraceIdRatioBasedSampler>(r);
  }
  return nullptr;
}

// ---------------------------------------------------------------- exporter
struct ExportLog
{
  std::mutex m;
  std::vector<std::string> recs;
};

class RecordingExporter : public sdktrace::SpanExporter
{
public:
  explicit RecordingExporter(std::shared_ptr<ExportLog> l) : log(std::move(l)) {}
  std::unique_ptr<sdktrace::Recordable> MakeRecordable() noexcept override
  {
    return std::unique_ptr<sdktrace::Recordable>(new sdktrace::SpanData());
  }
  opentelemetry::sdk::common::ExportResult Export(const nostd::span<std::unique_ptr<sdktrace::Recordable>> &spans) noexcept override
  {
    for (auto &r : spans)
    {
      auto *d = static_cast<sdktrace::SpanData *>(r.get());
      Out o;
      o.tag("X");
      auto name = d->GetName();
      o.tag(std::string(name.data(), name.size()));
      out_tid(d->GetTraceId(), o);
      out_sid(d->GetSpanId(), o);
      out_sid(d->GetParentSpanId(), o);
      o.num(d->GetFlags().flags()).num(d->GetSpanContext().trace_flags().flags());
      o.boolean(d->GetSpanContext().IsRemote());
      auto ts = d->GetSpanContext().trace_state();
      o.bytes(ts ? ts->ToHeader() : std::string());
      std::map<std::string, long long> sorted;
      bool other = false;
      for (auto &kv : d->GetAttributes())
      {
        if (nostd::holds_alternative<int64_t>(kv.second)) sorted[kv.first] = nostd::get<int64_t>(kv.second);
        else other = true;
      }
      o.num((long long)sorted.size() + (other ? 1000 : 0));
      for (auto &kv : sorted) o.num(kv.second);
      std::lock_guard<std::mutex> g(log->m);
      log->recs.push_back(o.line);
    }
    return opentelemetry::sdk::common::ExportResult::kSuccess;
  }
  bool ForceFlush(std::chrono::microseconds) noexcept override { return true; }
  bool Shutdown(std::chrono::microseconds) noexcept override { return true; }
  std::shared_ptr<ExportLog> log;
};

// ---------------------------------------------------------------- lock-step worker threads
struct Worker
{
  std::thread th;
  std::mutex m;
  std::condition_variable cv;
  std::function<void()> job;
  bool has = false, done = false, quit = false;
  void start()
  {
    th = std::thread([this] {
      std::unique_lock<std::mutex> l(m);
      for (;;)
      {
        cv.wait(l, [this] { return has || quit; });
        if (has)
        {
          job();
          has  = false;
          done = true;
          cv.notify_all();
        }
        else if (quit) return;
      }
    });
  }
  void run(std::function<void()> f)
  {
    std::unique_lock<std::mutex> l(m);
    job  = std::move(f);
    has  = true;
    done = false;
    cv.notify_all();
    cv.wait(l, [this] { return done; });
  }
  void stop()
  {
    {
      std::unique_lock<std::mutex> l(m);
      quit = true;
      cv.notify_all();
    }
    th.join();
  }
};

// ---------------------------------------------------------------- the world of one case
struct TokEntry
{
  enum St { DEAD, LIVE, SCOPE } st = DEAD;
  nostd::unique_ptr<context::Token> own;
  std::unique_ptr<trace_api::Scope> scope;
};

struct World
{
  std::vector<Context> pool;
  std::vector<TokEntry> toks;
  std::vector<nostd::shared_ptr<trace_api::Span>> spans;
  std::shared_ptr<sdktrace::Tracer> tracer;
  ScriptedIdGenerator *gen = nullptr;
  Spy *spy                 = nullptr;
  std::shared_ptr<ScriptedSampler> scripted;
  std::shared_ptr<ExportLog> xlog;
  Context &ctx(size_t i) { return i < pool.size() ? pool[i] : pool[0]; }
};

static nostd::string_view view(const ExactBuf &b) { return nostd::string_view(b.p, b.n); }

static bool make_ctx(const Toks &t, size_t i, trace_api::SpanContext &out)
{
  if (i + 5 > t.size() || t[i].kind != Tok::BYTES || t[i].s.size() != 16 || t[i + 1].kind != Tok::BYTES || t[i + 1].s.size() != 8 ||
      t[i + 2].kind != Tok::INT || t[i + 3].kind != Tok::INT || t[i + 4].kind != Tok::BYTES)
    return false;
  long long f = t[i + 2].as_ll(), rem = t[i + 3].as_ll();
  if (f < 0 || f > 255 || rem < 0 || rem > 1) return false;
  trace_api::TraceId tid(nostd::span<const uint8_t, 16>(reinterpret_cast<const uint8_t *>(t[i].s.data()), 16));
  trace_api::SpanId sid(nostd::span<const uint8_t, 8>(reinterpret_cast<const uint8_t *>(t[i + 1].s.data()), 8));
  ExactBuf h(t[i + 4].s);
  auto ts = trace_api::TraceState::FromHeader(nostd::string_view(h.p, h.n));
  out     = trace_api::SpanContext(tid, sid, trace_api::TraceFlags(uint8_t(f)), rem != 0, ts);
  return true;
}

static void drain_exports(World &w, Out &o)
{
  std::lock_guard<std::mutex> g(w.xlog->m);
  for (auto &r : w.xlog->recs) o.add(r);
  w.xlog->recs.clear();
}

// value of a context entry; ok=false: malformed, badref=true: names a span that does not exist
static ContextValue mkval(World &w, const Tok &kind, const Tok &num, bool &ok, bool &badref)
{
  ok = num.kind == Tok::INT && kind.kind == Tok::TAG && kind.s.size() == 1;
  if (!ok) return ContextValue{};
  switch (kind.s[0])
  {
    case 'm': ok = num.as_ll() == 0; return ContextValue{};
    case 'b': ok = num.as_ll() == 0 || num.as_ll() == 1; return ContextValue(bool(num.as_ll() != 0));
    case 'i': return ContextValue(int64_t(num.as_ll()));
    case 'u': ok = num.s[0] != '-'; return ContextValue(uint64_t(num.as_ull()));
    case 's':
      ok = num.s[0] != '-' && num.as_ull() < 1000000;
      if (ok && num.as_ull() >= w.spans.size()) { badref = true; return ContextValue{}; }
      return ok ? ContextValue(w.spans[num.as_ull()]) : ContextValue{};
    default: ok = false; return ContextValue{};
  }
}

// one operation, executed on the calling (worker) thread; a[0] is the operation name
static bool run_op(World &w, const Toks &a, Out &o)
{
  const std::string &op = a[0].s;
  size_t n                = a.size();
  auto is_idx             = [&](size_t i) { return i < n && a[i].kind == Tok::INT && a[i].s[0] != '-'; };
  auto idx                = [&](size_t i) { return size_t(a[i].as_ull()); };
  if (op == "ST")
  {
    trace_api::StartSpanOptions opts;
    size_t i = 2;
    // the span active on this thread, through the public API, just before the call
    o.tag("A");
    print_ctx(trace_api::Tracer::GetCurrentSpan()->GetContext(), o);
    if (n < 2) return false;
    if (a[1].is_tag("DEF")) {}
    else if (a[1].is_tag("SC"))
    {
      trace_api::SpanContext sc = trace_api::SpanContext::GetInvalid();
      if (!make_ctx(a, 2, sc)) return false;
      opts.parent = sc;
      i           = 7;
    }
    else if (a[1].is_tag("CX") || a[1].is_tag("CXCUR"))
    {
      Context c;
      if (a[1].is_tag("CX"))
      {
        if (!is_idx(2)) return false;
        c = w.ctx(idx(2));
        i = 3;
      }
      else c = RuntimeContext::GetCurrent();
      o.tag("C");
      print_ctx(trace_api::GetSpan(c)->GetContext(), o);
      o.boolean(trace_api::IsRootSpan(c));
      opts.parent = c;
    }
    else return false;
    // G sid tid R dec ts n vals
    if (i + 7 > n || !a[i].is_tag("G") || a[i + 1].kind != Tok::BYTES || a[i + 1].s.size() != 8 || a[i + 2].kind != Tok::BYTES ||
        a[i + 2].s.size() != 16 || !a[i + 3].is_tag("R") || a[i + 6].kind != Tok::INT)
      return false;
    std::memcpy(w.gen->next_sid, a[i + 1].s.data(), 8);
    std::memcpy(w.gen->next_tid, a[i + 2].s.data(), 16);
    w.gen->sid_calls = w.gen->tid_calls = 0;
    Scripted s;
    if (a[i + 4].is_tag("DROP")) s.decision = sdktrace::Decision::DROP;
    else if (a[i + 4].is_tag("RECORD_ONLY")) s.decision = sdktrace::Decision::RECORD_ONLY;
    else if (a[i + 4].is_tag("RECORD_AND_SAMPLE")) s.decision = sdktrace::Decision::RECORD_AND_SAMPLE;
    else return false;
    if (a[i + 5].kind == Tok::BYTES) { s.has_ts = true; s.ts = a[i + 5].s; }
    else if (!a[i + 5].is_tag("NULL")) return false;
    long long na = a[i + 6].as_ll();
    if (na < -1 || na > 8 || n != i + 7 + size_t(na < 0 ? 0 : na)) return false;
    s.has_attrs = na >= 0;
    for (size_t k = i + 7; k < n; k++)
    {
      if (a[k].kind != Tok::INT) return false;
      s.attrs.push_back(int64_t(a[k].as_ll()));
    }
    if (w.scripted) w.scripted->cur = s;
    w.spy->calls = 0;
    w.spy->log.clear();
    std::string name = std::to_string(w.spans.size());
    ExactBuf nb(name);
    trace_api::Tracer &api = *w.tracer;   // the API's convenience overloads are hidden in the sdk class
    auto span               = api.StartSpan(view(nb), opts);
    w.spans.push_back(span);
    o.tag("S");
    print_ctx(span->GetContext(), o);
    o.boolean(span->IsRecording()).tag("G").num(w.gen->sid_calls).num(w.gen->tid_calls);
    if (w.spy->calls == 0) o.tag("NOCALL");
    else if (w.spy->calls == 1) o.add(w.spy->log);
    else o.tag("SAMPLER_CALLED_TWICE");
    drain_exports(w, o);   // nothing may be exported here
  }
  else if (op == "END" && n == 2 && is_idx(1))
  {
    if (idx(1) >= w.spans.size()) o.tag("BADREF");
    else
    {
      w.spans[idx(1)]->End();
      drain_exports(w, o);
    }
  }
  else if (op == "WRAP" && n == 6)
  {
    trace_api::SpanContext sc = trace_api::SpanContext::GetInvalid();
    if (!make_ctx(a, 1, sc)) return false;
    w.spans.push_back(nostd::shared_ptr<trace_api::Span>(new trace_api::DefaultSpan(sc)));
  }
  else if (op == "CSP" && n == 1)
  {
    o.tag("ACT");
    print_ctx(trace_api::Tracer::GetCurrentSpan()->GetContext(), o);
  }
  else if (op == "SV" && n == 5 && is_idx(1) && a[2].kind == Tok::BYTES)
  {
    bool ok, bad = false;
    ContextValue v = mkval(w, a[3], a[4], ok, bad);
    if (!ok) return false;
    if (bad) o.tag("BADREF");
    else
    {
      ExactBuf k(a[2].s);
      w.pool.push_back(w.ctx(idx(1)).SetValue(view(k), v));
    }
  }
  else if (op == "RSV" && n == 4 && a[1].kind == Tok::BYTES)
  {
    bool ok, bad = false;
    ContextValue v = mkval(w, a[2], a[3], ok, bad);
    if (!ok) return false;
    if (bad) o.tag("BADREF");
    else
    {
      ExactBuf k(a[1].s);
      w.pool.push_back(RuntimeContext::SetValue(view(k), v));
    }
  }
  else if (op == "SSP" && n == 3 && is_idx(1) && is_idx(2) && idx(2) < 1000000)
  {
    if (idx(2) >= w.spans.size()) o.tag("BADREF");
    else w.pool.push_back(trace_api::SetSpan(w.ctx(idx(1)), w.spans[idx(2)]));
  }
  else if (op == "ROOT" && n == 3 && is_idx(1) && is_idx(2) && idx(2) <= 1)
  {
    w.pool.push_back(w.ctx(idx(1)).SetValue(trace_api::kIsRootSpanKey, bool(idx(2) != 0)));
  }
  else if (op == "AT" && n == 2 && is_idx(1))
  {
    TokEntry e;
    e.own = RuntimeContext::Attach(w.ctx(idx(1)));
    e.st  = TokEntry::LIVE;
    w.toks.push_back(std::move(e));
  }
  else if (op == "ATC" && n == 1)
  {
    TokEntry e;
    e.own = RuntimeContext::Attach(RuntimeContext::GetCurrent());
    e.st  = TokEntry::LIVE;
    w.toks.push_back(std::move(e));
  }
  else if (op == "DT" && n == 2 && is_idx(1))
  {
    size_t k = idx(1);
    if (k < w.toks.size() && w.toks[k].st == TokEntry::LIVE) o.boolean(RuntimeContext::Detach(*w.toks[k].own));
    else o.tag(k < w.toks.size() && w.toks[k].st == TokEntry::SCOPE ? "scope" : "dead");
  }
  else if (op == "KT" && n == 2 && is_idx(1))
  {
    size_t k = idx(1);
    if (k < w.toks.size() && w.toks[k].st != TokEntry::DEAD)
    {
      w.toks[k].own.reset();     // ~Token -> Detach on this thread
      w.toks[k].scope.reset();   // ~Scope -> ~Token -> Detach on this thread
      w.toks[k].st = TokEntry::DEAD;
    }
  }
  else if ((op == "WAS" || op == "SCO") && n == 2 && is_idx(1) && idx(1) < 1000000)
  {
    if (idx(1) >= w.spans.size()) o.tag("BADREF");
    else
    {
      TokEntry e;
      if (op == "SCO") e.scope.reset(new trace_api::Scope(w.spans[idx(1)]));
      else e.scope.reset(new trace_api::Scope(trace_api::Tracer::WithActiveSpan(w.spans[idx(1)])));
      e.st = TokEntry::SCOPE;
      w.toks.push_back(std::move(e));
      w.pool.push_back(RuntimeContext::GetCurrent());   // name the context the scope attached
    }
  }
  else return false;
  return true;
}

static void run_case(const Toks &t, Out &out)
{
  auto parts = verif::split_toks(t, "|");
  if (parts.size() != 2 || parts[0].size() < 5 || !parts[0][0].is_tag("CFG") || parts[0][1].kind != Tok::INT || parts[0][2].kind != Tok::INT ||
      parts[0][3].kind != Tok::INT)
  {
    out.tag("BADCASE");
    return;
  }
  long long en = parts[0][1].as_ll(), rnd = parts[0][2].as_ll(), nth = parts[0][3].as_ll();
  Renamer renamer;
  g_ren = nullptr;
  World w;
  auto inner = make_sampler(parts[0], 4, w.scripted);
  if (en < 0 || en > 1 || rnd < 0 || rnd > 2 || nth < 1 || nth > 4 || !inner)
  {
    out.tag("BADCASE");
    return;
  }
  w.xlog = std::make_shared<ExportLog>();
  {
    std::vector<std::unique_ptr<sdktrace::SpanProcessor>> procs;
    procs.emplace_back(new sdktrace::SimpleSpanProcessor(std::unique_ptr<sdktrace::SpanExporter>(new RecordingExporter(w.xlog))));
    if (rnd == 2)
    {
      g_ren = &renamer;
      w.gen = new CountingRandomIdGenerator(&renamer);
    }
    else w.gen = new ScriptedIdGenerator(rnd != 0);
    w.spy = new Spy(inner);
    auto cfgr = std::make_unique<scope_ns::ScopeConfigurator<sdktrace::TracerConfig>>(
        scope_ns::ScopeConfigurator<sdktrace::TracerConfig>::Builder(en ? sdktrace::TracerConfig::Enabled() : sdktrace::TracerConfig::Disabled())
            .Build());
    auto tc = std::make_shared<sdktrace::TracerContext>(std::move(procs), opentelemetry::sdk::resource::Resource::Create({}),
                                                        std::unique_ptr<sdktrace::Sampler>(w.spy),
                                                        std::unique_ptr<sdktrace::IdGenerator>(w.gen), std::move(cfgr));
    w.tracer = std::make_shared<sdktrace::Tracer>(tc);
  }
  w.pool.push_back(Context());
  std::vector<std::unique_ptr<Worker>> workers;
  for (long long i = 0; i < nth; i++)
  {
    workers.emplace_back(new Worker());
    workers.back()->start();
  }
  bool ok = true;
  Out o;
  if (!parts[1].empty())
  {
    for (auto &a : verif::split_toks(parts[1], ";"))
    {
      if (a.size() < 2 || a[0].kind != Tok::INT || a[0].s[0] == '-' || a[0].as_ll() >= nth || a[1].kind != Tok::TAG) { ok = false; break; }
      Toks rest(a.begin() + 1, a.end());
      bool r = false;
      workers[size_t(a[0].as_ll())]->run([&] { r = run_op(w, rest, o); });
      if (!r) { ok = false; break; }
      o.tag(";");
    }
  }
  o.tag("|");
  // end of the program: End() every span in table order, then look at every span again
  for (auto &s : w.spans) s->End();
  drain_exports(w, o);
  o.tag("|");
  for (auto &s : w.spans)
  {
    print_ctx(s->GetContext(), o);
    o.boolean(s->IsRecording());
  }
  for (auto &wk : workers) wk->stop();
  while (!w.toks.empty()) w.toks.pop_back();
  w.pool.clear();
  w.spans.clear();
  w.tracer.reset();
  g_ren = nullptr;
  if (ok) out.line = o.line;
  else out.tag("BADCASE");
}

int main(int argc, char **argv)
{
  // the SDK's internal log goes to stdout by default and would corrupt the one-line-per-case protocol
  opentelemetry::sdk::common::internal_log::GlobalLogHandler::SetLogLevel(opentelemetry::sdk::common::internal_log::LogLevel::None);
  return verif::run_cases(argc, argv, [](const Toks &t, Out &o) { run_case(t, o); });
}
