// C17 driver: observable instruments (callbacks, running totals, gauges) and the last-value aggregation.
//
//   OBS cases drive a real MeterProvider with 1..4 MetricReaders of mixed temporality and 1..4 instruments on one meter
//   (observable counter / up-down counter / gauge, int64 or double valued, and a synchronous up-down counter with a
//   kLastValue view = the storage path of the ABI-v2 synchronous Gauge, which does not exist in this ABI-v1 build) over an
//   arbitrary interleaving of AddCallback / RemoveCallback / instrument destruction / "world" updates (what the scripted
//   callbacks will observe) / synchronous Record / Collect.
//   LV cases drive {Long,Double}LastValueAggregation objects directly (Aggregate / Merge / Diff / ToPoint).
//
// Case / observation format: see coq/C17/Glue.v.  The clock is the real one; timestamps are never printed or compared here.
#include <algorithm>
#include <array>
#include <cmath>
#include <cstring>
#include <map>
#include <memory>
#include <string>
#include <tuple>
#include <vector>

#include "opentelemetry/context/context.h"
#include "opentelemetry/metrics/async_instruments.h"
#include "opentelemetry/metrics/meter.h"
#include "opentelemetry/metrics/observer_result.h"
#include "opentelemetry/metrics/sync_instruments.h"
#include "opentelemetry/sdk/common/global_log_handler.h"
#include "opentelemetry/sdk/metrics/aggregation/default_aggregation.h"
#include "opentelemetry/sdk/metrics/aggregation/lastvalue_aggregation.h"
#include "opentelemetry/sdk/metrics/data/metric_data.h"
#include "opentelemetry/sdk/metrics/data/point_data.h"
#include "opentelemetry/sdk/metrics/export/metric_producer.h"
#include "opentelemetry/sdk/metrics/instruments.h"
#include "opentelemetry/sdk/metrics/meter_provider.h"
#include "opentelemetry/sdk/metrics/metric_reader.h"
#include "opentelemetry/sdk/metrics/view/instrument_selector.h"
#include "opentelemetry/sdk/metrics/view/meter_selector.h"
#include "opentelemetry/sdk/metrics/view/view.h"

#include "c17_clock.h"
#include "common/verif_io.h"

namespace nostd   = opentelemetry::nostd;
namespace sdkm    = opentelemetry::sdk::metrics;
namespace metrics = opentelemetry::metrics;
using verif::Out;
using verif::Tok;

static const int MAXI = 4, NS = 4, NA = 4, NREG = 8;

// ---------------------------------------------------------------- printing of values and points
static void print_value(const sdkm::ValueType &v, bool is_double, Out &o)
{
  if (!is_double)
  {
    if (!nostd::holds_alternative<int64_t>(v)) { o.tag("BADTYPE"); return; }
    o.num(nostd::get<int64_t>(v));
  }
  else
  {
    if (!nostd::holds_alternative<double>(v)) { o.tag("BADTYPE"); return; }
    double d = nostd::get<double>(v);
    if (d != std::floor(d) || std::fabs(d) >= 9007199254740992.0) { o.tag("NONINT"); return; }
    o.num(static_cast<long long>(d));
  }
}

static void print_point(const sdkm::PointType &p, bool is_double, Out &o)
{
  if (nostd::holds_alternative<sdkm::SumPointData>(p))
  {
    const auto &s = nostd::get<sdkm::SumPointData>(p);
    o.tag("S");
    print_value(s.value_, is_double, o);
    o.boolean(s.is_monotonic_);
  }
  else if (nostd::holds_alternative<sdkm::LastValuePointData>(p))
  {
    const auto &l = nostd::get<sdkm::LastValuePointData>(p);
    o.tag("L");
    print_value(l.value_, is_double, o);
    o.boolean(l.is_lastvalue_valid_);
  }
  else
  {
    o.tag("OTHERPOINT");
  }
}

// ---------------------------------------------------------------- scripted callbacks
struct World
{
  // what a callback with state s observes: attribute id -> value.  A callback does not learn which instrument it is invoked
  // for; the same (function, state) pair may be registered on several instruments and then reports the same values to each.
  std::map<int, long long> obs[NS];
  std::vector<std::array<int, 2>> log;   // invocations (f, s) of the current collection, in order
};
struct Slot { World *w; int s; };

static void observe_one(metrics::ObserverResult &res, long long v, int a)
{
  if (nostd::holds_alternative<nostd::shared_ptr<metrics::ObserverResultT<int64_t>>>(res))
  {
    auto &r = nostd::get<nostd::shared_ptr<metrics::ObserverResultT<int64_t>>>(res);
    if (a == 0) r->Observe(static_cast<int64_t>(v));
    else r->Observe(static_cast<int64_t>(v), {{"k", static_cast<int64_t>(a)}});
  }
  else
  {
    auto &r = nostd::get<nostd::shared_ptr<metrics::ObserverResultT<double>>>(res);
    if (a == 0) r->Observe(static_cast<double>(v));
    else r->Observe(static_cast<double>(v), {{"k", static_cast<int64_t>(a)}});
  }
}

// callback function 0: reports every (attribute, value) of its slot once, ascending
static void cb0(metrics::ObserverResult res, void *state)
{
  Slot *sl = static_cast<Slot *>(state);
  verif_c17::clock_tick();
  sl->w->log.push_back({0, sl->s});
  for (const auto &kv : sl->w->obs[sl->s]) observe_one(res, kv.second, kv.first);
}
// callback function 1: a different function pointer; reports descending and observes a provisional value first
// (the last Observe of an attribute set inside one callback is the reported one)
static void cb1(metrics::ObserverResult res, void *state)
{
  Slot *sl = static_cast<Slot *>(state);
  verif_c17::clock_tick();
  sl->w->log.push_back({1, sl->s});
  const auto &m = sl->w->obs[sl->s];
  for (auto it = m.rbegin(); it != m.rend(); ++it)
  {
    observe_one(res, it->second + 7, it->first);
    observe_one(res, it->second, it->first);
  }
}

// RC: real clock; SC: scripted clock starting at 1000000 ns with step 1 (coq/C17/Model.v: clock0)
static bool set_clock_mode(const Tok &t)
{
  auto &c = verif_c17::clock_state();
  if (t.is_tag("SC")) c.scripted = true;
  else if (t.is_tag("RC")) c.scripted = false;
  else return false;
  c.now_ns = 1000000;
  c.step   = 1;
  return true;
}

class TestReader : public sdkm::MetricReader
{
public:
  explicit TestReader(sdkm::AggregationTemporality t) : t_(t) {}
  sdkm::AggregationTemporality GetAggregationTemporality(sdkm::InstrumentType) const noexcept override { return t_; }

private:
  bool OnForceFlush(std::chrono::microseconds) noexcept override { return true; }
  bool OnShutDown(std::chrono::microseconds) noexcept override { return true; }
  void OnInitialized() noexcept override {}
  sdkm::AggregationTemporality t_;
};

static void run_obs(const std::vector<std::vector<Tok>> &ch, Out &o)
{
  const auto &hd0 = ch[0];
  if (hd0.size() < 3 || !set_clock_mode(hd0[1])) { o.tag("BADCASE"); return; }
  std::vector<Tok> hd(hd0.begin() + 1, hd0.end());   // hd[1] = n, ...
  int n = int(hd[1].as_ll());
  if (n < 1 || n > 4 || hd.size() < size_t(2 + n + 1)) { o.tag("BADCASE"); return; }
  int m = int(hd[2 + n].as_ll());
  if (m < 1 || m > MAXI || hd.size() != size_t(3 + n + m)) { o.tag("BADCASE"); return; }
  std::vector<int> kind(m);
  for (int i = 0; i < m; i++)
  {
    kind[i] = int(hd[3 + n + i].as_ll());
    if (kind[i] < 0 || kind[i] > 7) { o.tag("BADCASE"); return; }
  }

  World world;
  std::vector<std::unique_ptr<Slot>> slots;
  for (int s = 0; s < NS; s++) slots.emplace_back(new Slot{&world, s});

  {
    sdkm::MeterProvider mp;
    std::vector<std::shared_ptr<sdkm::MetricReader>> readers;
    for (int r = 0; r < n; r++)
    {
      readers.emplace_back(new TestReader(hd[2 + r].as_ll() == 0 ? sdkm::AggregationTemporality::kDelta
                                                                  : sdkm::AggregationTemporality::kCumulative));
      mp.AddMetricReader(readers.back());
    }
    const std::string unit = "u";
    auto name_of = [](int i) { return std::string("i") + char('0' + i); };
    for (int i = 0; i < m; i++)
      if (kind[i] >= 6)
      {
        std::unique_ptr<sdkm::View> view{new sdkm::View("", "", unit, sdkm::AggregationType::kLastValue)};
        std::unique_ptr<sdkm::InstrumentSelector> is{new sdkm::InstrumentSelector(sdkm::InstrumentType::kUpDownCounter, name_of(i), unit)};
        std::unique_ptr<sdkm::MeterSelector> ms{new sdkm::MeterSelector("m", "1", "s")};
        mp.AddView(std::move(is), std::move(ms), std::move(view));
      }
    auto meter = mp.GetMeter("m", "1", "s");
    std::vector<nostd::shared_ptr<metrics::ObservableInstrument>> async(m);
    std::vector<nostd::unique_ptr<metrics::UpDownCounter<int64_t>>> sgl(m);
    std::vector<nostd::unique_ptr<metrics::UpDownCounter<double>>> sgd(m);
    std::vector<bool> alive(m, true);
    for (int i = 0; i < m; i++)
    {
      const std::string nm = name_of(i);
      switch (kind[i])
      {
        case 0: async[i] = meter->CreateInt64ObservableCounter(nm, "d", unit); break;
        case 1: async[i] = meter->CreateInt64ObservableUpDownCounter(nm, "d", unit); break;
        case 2: async[i] = meter->CreateInt64ObservableGauge(nm, "d", unit); break;
        case 3: async[i] = meter->CreateDoubleObservableCounter(nm, "d", unit); break;
        case 4: async[i] = meter->CreateDoubleObservableUpDownCounter(nm, "d", unit); break;
        case 5: async[i] = meter->CreateDoubleObservableGauge(nm, "d", unit); break;
        case 6: sgl[i] = meter->CreateInt64UpDownCounter(nm, "d", unit); break;
        default: sgd[i] = meter->CreateDoubleUpDownCounter(nm, "d", unit); break;
      }
    }
    opentelemetry::context::Context ctx{};

    o.tag("OK");
    for (size_t k = 1; k < ch.size(); k++)
    {
      const auto &op = ch[k];
      if (op.empty()) { o.tag("BADCASE"); break; }
      auto arg = [&](size_t j) { return int(op[j].as_ll()); };
      auto in  = [](int v, int hi) { return v >= 0 && v < hi; };
      if ((op[0].is_tag("A") || op[0].is_tag("R")) && op.size() == 4 && in(arg(1), m) && in(arg(2), 2) && in(arg(3), NS))
      {
        int i = arg(1);
        if (kind[i] < 6 && alive[i])
        {
          Slot *sl = slots[size_t(arg(3))].get();
          auto fn  = arg(2) == 0 ? cb0 : cb1;
          if (op[0].is_tag("A")) async[i]->AddCallback(fn, sl);
          else async[i]->RemoveCallback(fn, sl);
        }
      }
      else if (op[0].is_tag("X") && op.size() == 2 && in(arg(1), m))
      {
        int i = arg(1);
        alive[i] = false;
        async[i] = nostd::shared_ptr<metrics::ObservableInstrument>{};
        sgl[i].reset();
        sgd[i].reset();
      }
      else if (op[0].is_tag("S") && op.size() == 4 && in(arg(1), NS) && in(arg(2), NA))
      {
        world.obs[arg(1)][arg(2)] = op[3].as_ll();
      }
      else if (op[0].is_tag("U") && op.size() == 3 && in(arg(1), NS) && in(arg(2), NA))
      {
        world.obs[arg(1)].erase(arg(2));
      }
      else if (op[0].is_tag("T") && op.size() == 2)
      {
        if (verif_c17::clock_state().scripted) verif_c17::clock_state().step = op[1].as_ll();
      }
      else if (op[0].is_tag("G") && op.size() == 4 && in(arg(1), m) && in(arg(2), NA))
      {
        int i = arg(1), a = arg(2);
        long long v = op[3].as_ll();
        if (kind[i] >= 6 && alive[i]) verif_c17::clock_tick();
        if (kind[i] == 6 && alive[i])
        {
          if (a == 0) sgl[i]->Add(int64_t(v), ctx);
          else sgl[i]->Add(int64_t(v), {{"k", int64_t(a)}}, ctx);
        }
        else if (kind[i] == 7 && alive[i])
        {
          if (a == 0) sgd[i]->Add(double(v), ctx);
          else sgd[i]->Add(double(v), {{"k", int64_t(a)}}, ctx);
        }
      }
      else if (op[0].is_tag("C") && op.size() == 2 && in(arg(1), n))
      {
        world.log.clear();
        // per instrument: number of MetricData entries, temporality, points (attribute id, point)
        struct Seen { int count = 0; int temporality = -1; std::vector<std::pair<long long, sdkm::PointType>> pts; };
        std::vector<Seen> seen(m);
        bool foreign = false;
        readers[size_t(arg(1))]->Collect([&](sdkm::ResourceMetrics &rm) {
          for (const auto &sm : rm.scope_metric_data_)
            for (const auto &md : sm.metric_data_)
            {
              const std::string &nm = md.instrument_descriptor.name_;
              if (nm.size() != 2 || nm[0] != 'i' || nm[1] < '0' || nm[1] >= '0' + m) { foreign = true; continue; }
              Seen &s = seen[size_t(nm[1] - '0')];
              s.count++;
              s.temporality = md.aggregation_temporality == sdkm::AggregationTemporality::kCumulative ? 1
                              : md.aggregation_temporality == sdkm::AggregationTemporality::kDelta    ? 0
                                                                                                       : 2;
              for (const auto &dp : md.point_data_attr_)
              {
                long long a = 0;
                auto it = dp.attributes.find("k");
                if (dp.attributes.size() == 1 && it != dp.attributes.end() && nostd::holds_alternative<int64_t>(it->second))
                  a = nostd::get<int64_t>(it->second);
                else if (!dp.attributes.empty()) a = -1;
                s.pts.emplace_back(a, dp.point_data);
              }
            }
          return true;
        });
        o.tag("/").tag("I").unum(world.log.size());
        for (const auto &e : world.log) o.num(e[0]).num(e[1]);
        if (foreign) o.tag("FOREIGN");
        for (int i = 0; i < m; i++)
        {
          Seen &s = seen[size_t(i)];
          o.tag("M").num(i);
          if (s.count == 0) { o.tag("NONE"); continue; }
          if (s.count > 1) o.tag("DUP");
          o.tag("T").num(s.temporality);
          std::stable_sort(s.pts.begin(), s.pts.end(), [](const auto &x, const auto &y) { return x.first < y.first; });
          for (const auto &p : s.pts)
          {
            o.tag("K").num(p.first);
            print_point(p.second, kind[i] == 3 || kind[i] == 4 || kind[i] == 5 || kind[i] == 7, o);
          }
        }
      }
      else { o.tag("BADCASE"); break; }
    }
    // instruments still alive are destroyed before the provider (their destructors unregister from the meter's registry)
  }
}

// LV <RC|SC> | A r v | M r a b | D r a b | P r | N r | T d      (registers 0..7 hold last-value aggregations)
// Every LV case is run on int64 and on double aggregations; both passes must print the same line.
static std::string run_lv_pass(const std::vector<std::vector<Tok>> &ch, bool is_double)
{
  Out o;
  set_clock_mode(ch[0][1]);
  sdkm::InstrumentDescriptor desc{"g", "d", "u", sdkm::InstrumentType::kObservableGauge,
                                  is_double ? sdkm::InstrumentValueType::kDouble : sdkm::InstrumentValueType::kLong};
  auto fresh = [&](int r) {
    // the two public factory paths the storages use
    return (r % 2 == 0) ? sdkm::DefaultAggregation::CreateAggregation(sdkm::AggregationType::kLastValue, desc, nullptr)
                        : sdkm::DefaultAggregation::CreateAggregation(desc, nullptr);
  };
  std::unique_ptr<sdkm::Aggregation> regs[NREG];
  for (int r = 0; r < NREG; r++) regs[r] = fresh(r);
  o.tag("OK");
  for (size_t k = 1; k < ch.size(); k++)
  {
    const auto &op = ch[k];
    if (op.size() < 2) return "BADCASE";
    if (op[0].is_tag("T") && op.size() == 2)
    {
      if (verif_c17::clock_state().scripted) verif_c17::clock_state().step = op[1].as_ll();
      continue;
    }
    int r = int(op[1].as_ll());
    if (r < 0 || r >= NREG) return "BADCASE";
    if (op[0].is_tag("N") && op.size() == 2) regs[r] = fresh(r);
    else if (op[0].is_tag("P") && op.size() == 2)
    {
      o.tag("P");
      print_point(regs[r]->ToPoint(), is_double, o);
    }
    else if (op[0].is_tag("A") && op.size() == 3)
    {
      verif_c17::clock_tick();
      if (is_double) regs[r]->Aggregate(double(op[2].as_ll()));
      else regs[r]->Aggregate(int64_t(op[2].as_ll()));
    }
    else if ((op[0].is_tag("M") || op[0].is_tag("D")) && op.size() == 4)
    {
      int a = int(op[2].as_ll()), b = int(op[3].as_ll());
      if (a < 0 || a >= NREG || b < 0 || b >= NREG) return "BADCASE";
      auto res = op[0].is_tag("M") ? regs[a]->Merge(*regs[b]) : regs[a]->Diff(*regs[b]);
      regs[r] = std::move(res);
    }
    else return "BADCASE";
  }
  return o.line;
}
static void run_lv(const std::vector<std::vector<Tok>> &ch, Out &o)
{
  if (ch[0].size() != 2 || !set_clock_mode(ch[0][1])) { o.tag("BADCASE"); return; }
  std::string l = run_lv_pass(ch, false), d = run_lv_pass(ch, true);
  if (l != d) o.tag("LONG_DOUBLE_DIFFER");
  o.add(l);
}

int main(int argc, char **argv)
{
  using namespace opentelemetry::sdk::common::internal_log;
  GlobalLogHandler::SetLogHandler(nostd::shared_ptr<LogHandler>(new NoopLogHandler()));
  GlobalLogHandler::SetLogLevel(LogLevel::None);
  return verif::run_cases(argc, argv, [](const std::vector<Tok> &t, Out &o) {
    auto ch = verif::split_toks(t, "|");
    if (ch.empty() || ch[0].empty()) { o.tag("BADCASE"); return; }
    if (ch[0][0].is_tag("OBS")) run_obs(ch, o);
    else if (ch[0][0].is_tag("LV")) run_lv(ch, o);
    else o.tag("BADCASE");
  });
}
