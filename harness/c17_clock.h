// Clock shim for C17.  props/c17.py compiles a scratch copy of sdk/src/metrics/aggregation/lastvalue_aggregation.cc in which
// the two `std::chrono::system_clock::now()` calls (the sample time stamps) are rewritten to `verif_c17::clock_now()`; the number
// of rewrites is asserted.  In real-clock mode the shim returns the real system clock; in scripted mode it returns the reading the
// driver set, so that clock ties and a clock that steps backwards are inputs of a case, not accidents.
#pragma once
#include <chrono>
#include <cstdint>

namespace verif_c17
{
struct Clock
{
  bool scripted  = false;
  int64_t now_ns = 0;
  int64_t step   = 1;
  unsigned long long reads = 0;
};
inline Clock &clock_state()
{
  static Clock c;
  return c;
}
inline std::chrono::system_clock::time_point clock_now()
{
  Clock &c = clock_state();
  c.reads++;
  if (!c.scripted) return std::chrono::system_clock::now();
  return std::chrono::system_clock::time_point{
      std::chrono::duration_cast<std::chrono::system_clock::duration>(std::chrono::nanoseconds{c.now_ns})};
}
// the driver calls this before every callback invocation / synchronous Record / direct Aggregate
inline void clock_tick()
{
  Clock &c = clock_state();
  if (c.scripted) c.now_ns += c.step;
}
}  // namespace verif_c17
