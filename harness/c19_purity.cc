// C19 independence probe: a run-time check (NOT a theorem) of what the C19 model takes for granted outside the provider lock -
// distinct meters / tracers / loggers of one provider do not share hidden mutable state, and what the scope configurator
// decided for a scope is what every thread sees on first use.  Built with -fsanitize=thread against the SDK sources of the
// tree under test; 3-4 REAL threads released by a barrier on FRESH providers every round.
//
//   c19_purity <scenario> <threads> <rounds> <iters>          ->  PURE | DIFFERS x<hex description>
//     scenario 0  every thread creates instruments of all kinds on ITS OWN meter of one shared MeterProvider that has several
//                 views (exact name, wildcard, pattern, by meter name / version, renaming), records, one collection at the end;
//                 the exported (scope, stream name, description, point kind) set must be the single-threaded reference
//     scenario 1  all threads call StartSpan/End for the first time on the SAME tracers, obtained beforehand from a provider whose
//                 configurator disables some scopes (conditions that take a few hundred arithmetic steps, no locks): exactly
//                 the enabled scopes export spans, one per StartSpan
//     scenario 2  GetTracer / GetMeter / GetLogger followed by the first use, interleaved: one instance per identity, telemetry
//                 exactly for the enabled scopes
//   a ThreadSanitizer report (tools/purity.py) becomes RACE x<report head> when it has a frame in the library.
#include <algorithm>
#include <atomic>
#include <map>
#include <set>
#include <sstream>

#include "opentelemetry/logs/logger.h"
#include "opentelemetry/metrics/async_instruments.h"
#include "opentelemetry/metrics/observer_result.h"
#include "opentelemetry/metrics/sync_instruments.h"
#include "opentelemetry/sdk/common/global_log_handler.h"
#include "opentelemetry/sdk/instrumentationscope/scope_configurator.h"
#include "opentelemetry/sdk/logs/logger.h"
#include "opentelemetry/sdk/logs/logger_config.h"
#include "opentelemetry/sdk/logs/logger_provider.h"
#include "opentelemetry/sdk/logs/processor.h"
#include "opentelemetry/sdk/logs/read_write_log_record.h"
#include "opentelemetry/sdk/metrics/meter.h"
#include "opentelemetry/sdk/metrics/meter_config.h"
#include "opentelemetry/sdk/metrics/meter_provider.h"
#include "opentelemetry/sdk/metrics/metric_reader.h"
#include "opentelemetry/sdk/metrics/view/instrument_selector.h"
#include "opentelemetry/sdk/metrics/view/meter_selector.h"
#include "opentelemetry/sdk/metrics/view/view.h"
#include "opentelemetry/sdk/metrics/view/view_registry.h"
#include "opentelemetry/sdk/resource/resource.h"
#include "opentelemetry/sdk/trace/processor.h"
#include "opentelemetry/sdk/trace/span_data.h"
#include "opentelemetry/sdk/trace/tracer.h"
#include "opentelemetry/sdk/trace/tracer_config.h"
#include "opentelemetry/sdk/trace/tracer_provider.h"
#include "purity/purity_probe.h"

namespace nostd = opentelemetry::nostd;
namespace msdk  = opentelemetry::sdk::metrics;
namespace tsdk  = opentelemetry::sdk::trace;
namespace lsdk  = opentelemetry::sdk::logs;
namespace scope = opentelemetry::sdk::instrumentationscope;
namespace mapi  = opentelemetry::metrics;

// a condition that takes a little time: a few hundred arithmetic steps, no locks, no shared state
static bool slow_name_is(const scope::InstrumentationScope &s, const std::string &name)
{
  volatile unsigned x = 1;
  for (int i = 0; i < 400; i++) x = x * 1664525u + 1013904223u;
  return s.GetName() == name && x != 0;
}
template <class Cfg>
static std::unique_ptr<scope::ScopeConfigurator<Cfg>> configurator()
{
  typename scope::ScopeConfigurator<Cfg>::Builder b(Cfg::Enabled());
  for (const char *off : {"off1", "off2", "off3"})
  {
    std::string n = off;
    b.AddCondition([n](const scope::InstrumentationScope &s) { return slow_name_is(s, n); }, Cfg::Disabled());
  }
  return std::unique_ptr<scope::ScopeConfigurator<Cfg>>(new scope::ScopeConfigurator<Cfg>(b.Build()));
}

// per-thread sinks: the harness adds no synchronisation of its own between the threads
static thread_local std::vector<std::string> *tl_sink = nullptr;
class SpanProc : public tsdk::SpanProcessor
{
public:
  std::unique_ptr<tsdk::Recordable> MakeRecordable() noexcept override { return std::unique_ptr<tsdk::Recordable>(new tsdk::SpanData()); }
  void OnStart(tsdk::Recordable &, const opentelemetry::trace::SpanContext &) noexcept override {}
  void OnEnd(std::unique_ptr<tsdk::Recordable> &&span) noexcept override
  {
    if (tl_sink) tl_sink->push_back("span:" + static_cast<tsdk::SpanData *>(span.get())->GetInstrumentationScope().GetName());
  }
  bool ForceFlush(std::chrono::microseconds) noexcept override { return true; }
  bool Shutdown(std::chrono::microseconds) noexcept override { return true; }
};
class LogProc : public lsdk::LogRecordProcessor
{
public:
  std::unique_ptr<lsdk::Recordable> MakeRecordable() noexcept override { return std::unique_ptr<lsdk::Recordable>(new lsdk::ReadWriteLogRecord()); }
  void OnEmit(std::unique_ptr<lsdk::Recordable> &&rec) noexcept override
  {
    if (tl_sink) tl_sink->push_back("log:" + static_cast<lsdk::ReadWriteLogRecord *>(rec.get())->GetInstrumentationScope().GetName());
  }
  bool ForceFlush(std::chrono::microseconds) noexcept override { return true; }
  bool Shutdown(std::chrono::microseconds) noexcept override { return true; }
};
class Reader : public msdk::MetricReader
{
public:
  msdk::AggregationTemporality GetAggregationTemporality(msdk::InstrumentType) const noexcept override { return msdk::AggregationTemporality::kCumulative; }
  bool OnForceFlush(std::chrono::microseconds) noexcept override { return true; }
  bool OnShutDown(std::chrono::microseconds) noexcept override { return true; }
};

static void observe_one(mapi::ObserverResult r, void *)
{
  if (nostd::holds_alternative<nostd::shared_ptr<mapi::ObserverResultT<int64_t>>>(r))
    nostd::get<nostd::shared_ptr<mapi::ObserverResultT<int64_t>>>(r)->Observe(1);
  else
    nostd::get<nostd::shared_ptr<mapi::ObserverResultT<double>>>(r)->Observe(1.0);
}

// run [work](t) on `threads` real threads released together (threads == 0: sequentially on this thread, the reference)
static void run_threads(int threads, int nworkers, const std::function<void(int)> &work)
{
  if (threads == 0)
  {
    for (int t = 0; t < nworkers; t++) work(t);
    return;
  }
  purity::Barrier bar(nworkers);
  std::vector<std::thread> ts;
  for (int t = 0; t < nworkers; t++)
    ts.emplace_back([&, t] {
      bar.wait();
      work(t);
    });
  for (auto &t : ts) t.join();
}

// ------------------------------------------------------------------ scenario 0: own meters, shared views
static std::string scenario_meters(int concurrent, int nworkers, int iters)
{
  std::unique_ptr<msdk::ViewRegistry> views(new msdk::ViewRegistry());
  auto add = [&](msdk::InstrumentType ty, const std::string &pat, const std::string &mname, const std::string &mver,
                 const std::string &vname, const std::string &vdesc) {
    views->AddView(std::unique_ptr<msdk::InstrumentSelector>(new msdk::InstrumentSelector(ty, pat, "")),
                   std::unique_ptr<msdk::MeterSelector>(new msdk::MeterSelector(mname, mver, "")),
                   std::unique_ptr<msdk::View>(new msdk::View(vname, vdesc)));
  };
  for (int t = 0; t < nworkers; t++)
  {
    std::string m = "m" + std::to_string(t);
    add(msdk::InstrumentType::kCounter, "c" + std::to_string(t) + "_0", m, "", "exact_" + m, "");                 // exact name, renaming
    add(msdk::InstrumentType::kHistogram, "h.*", m, "1.0", "", "histograms of " + m);                            // pattern, by meter name+version
    add(msdk::InstrumentType::kObservableGauge, "*", m, "", "", "gauges of " + m);                              // wildcard, by meter name
  }
  add(msdk::InstrumentType::kUpDownCounter, "u0", "", "", "first_updown", "");                                   // exact, any meter: same stream name in every scope
  auto provider = std::make_shared<msdk::MeterProvider>(std::move(views), opentelemetry::sdk::resource::Resource::Create({}),
                                                        configurator<msdk::MeterConfig>());
  std::shared_ptr<Reader> reader(new Reader());
  provider->AddMetricReader(reader);
  std::vector<nostd::shared_ptr<mapi::Meter>> meters;
  for (int t = 0; t < nworkers; t++) meters.push_back(provider->GetMeter("m" + std::to_string(t), "1.0"));
  std::vector<std::vector<nostd::shared_ptr<mapi::ObservableInstrument>>> obs(nworkers);
  run_threads(concurrent, nworkers, [&](int t) {
    opentelemetry::context::Context ctx;
    auto &m = meters[t];
    for (int k = 0; k < iters; k++)
    {
      std::string s = std::to_string(k);
      m->CreateUInt64Counter("c" + std::to_string(t) + "_" + s)->Add(1, ctx);
      m->CreateDoubleHistogram("h" + s)->Record(1.0, ctx);
      m->CreateInt64UpDownCounter("u" + s)->Add(1, ctx);
      obs[t].push_back(m->CreateInt64ObservableCounter("oc" + s));
      obs[t].back()->AddCallback(observe_one, nullptr);
      obs[t].push_back(m->CreateDoubleObservableGauge("og" + s));
      obs[t].back()->AddCallback(observe_one, nullptr);
      obs[t].push_back(m->CreateInt64ObservableUpDownCounter("ou" + s));
      obs[t].back()->AddCallback(observe_one, nullptr);
    }
  });
  std::vector<std::string> streams;
  reader->Collect([&](msdk::ResourceMetrics &rm) {
    for (auto &sm : rm.scope_metric_data_)
      for (auto &md : sm.metric_data_)
      {
        std::string kind = "none";
        if (!md.point_data_attr_.empty())
        {
          auto &p = md.point_data_attr_[0].point_data;
          kind    = nostd::holds_alternative<msdk::SumPointData>(p) ? "sum" : nostd::holds_alternative<msdk::HistogramPointData>(p) ? "hist"
                    : nostd::holds_alternative<msdk::LastValuePointData>(p) ? "last" : "drop";
        }
        streams.push_back(sm.scope_->GetName() + "/" + md.instrument_descriptor.name_ + "/" + md.instrument_descriptor.description_ + "/" + kind +
                          "/" + std::to_string(md.point_data_attr_.size()));
      }
    return true;
  });
  std::sort(streams.begin(), streams.end());
  std::string r;
  for (auto &s : streams) r += s + ";";
  for (auto &v : obs) v.clear();
  return r;
}

// ------------------------------------------------------------------ scenario 1: first StartSpan on shared tracers
static const char *kScopes[] = {"on1", "off1", "on2", "off2", "on3", "off3"};
static std::string count_summary(const std::vector<std::vector<std::string>> &sinks, long calls_per_scope)
{
  std::map<std::string, long> n;
  for (auto &s : sinks)
    for (auto &e : s) n[e]++;
  std::string r;
  for (auto &kv : n) r += kv.first + "=" + (kv.second == calls_per_scope ? std::string("all") : "partial(" + std::to_string(kv.second) + ")") + ";";
  return r;
}
static std::string scenario_tracers(int concurrent, int nworkers, int iters)
{
  auto provider = std::make_shared<tsdk::TracerProvider>(
      std::unique_ptr<tsdk::SpanProcessor>(new SpanProc()), opentelemetry::sdk::resource::Resource::Create({}),
      std::unique_ptr<tsdk::Sampler>(new tsdk::AlwaysOnSampler), std::unique_ptr<tsdk::IdGenerator>(new tsdk::RandomIdGenerator()),
      configurator<tsdk::TracerConfig>());
  std::vector<nostd::shared_ptr<opentelemetry::trace::Tracer>> tracers;
  for (auto *s : kScopes) tracers.push_back(provider->GetTracer(s, "1.0"));
  std::vector<std::vector<std::string>> sinks(nworkers);
  run_threads(concurrent, nworkers, [&](int t) {
    tl_sink = &sinks[t];
    for (int k = 0; k < iters; k++)
      for (size_t i = 0; i < tracers.size(); i++) tracers[(i + size_t(t)) % tracers.size()]->StartSpan("s")->End();
    tl_sink = nullptr;
  });
  return count_summary(sinks, long(nworkers) * iters);
}

// ------------------------------------------------------------------ scenario 2: Get* + first use, interleaved
static std::string scenario_get_and_use(int concurrent, int nworkers, int iters)
{
  auto resource = opentelemetry::sdk::resource::Resource::Create({});
  auto tp = std::make_shared<tsdk::TracerProvider>(
      std::unique_ptr<tsdk::SpanProcessor>(new SpanProc()), resource, std::unique_ptr<tsdk::Sampler>(new tsdk::AlwaysOnSampler),
      std::unique_ptr<tsdk::IdGenerator>(new tsdk::RandomIdGenerator()), configurator<tsdk::TracerConfig>());
  auto lp = std::make_shared<lsdk::LoggerProvider>(std::unique_ptr<lsdk::LogRecordProcessor>(new LogProc()), resource, configurator<lsdk::LoggerConfig>());
  auto mp = std::make_shared<msdk::MeterProvider>(std::unique_ptr<msdk::ViewRegistry>(new msdk::ViewRegistry()), resource, configurator<msdk::MeterConfig>());
  std::shared_ptr<Reader> reader(new Reader());
  mp->AddMetricReader(reader);
  std::vector<std::vector<std::string>> sinks(nworkers);
  std::vector<std::vector<const void *>> handles(nworkers);   // per thread: tracer, logger, meter per scope, in kScopes order
  run_threads(concurrent, nworkers, [&](int t) {
    tl_sink = &sinks[t];
    opentelemetry::context::Context ctx;
    for (int k = 0; k < iters; k++)
      for (size_t i = 0; i < 6; i++)
      {
        const char *s = kScopes[(i + size_t(t)) % 6];
        auto tr = tp->GetTracer(s, "1.0");
        tr->StartSpan("s")->End();
        auto lg = lp->GetLogger("lg", s, "1.0");
        lg->EmitLogRecord(opentelemetry::logs::Severity::kInfo, nostd::string_view("b"));
        auto mt = mp->GetMeter(s, "1.0");
        mt->CreateUInt64Counter("c" + std::to_string(t) + "_" + std::to_string(k))->Add(1, ctx);
        if (k == 0) { handles[t].push_back(tr.get()); handles[t].push_back(lg.get()); handles[t].push_back(mt.get()); }
      }
    tl_sink = nullptr;
  });
  // one instance per identity: every thread's k = 0 handle for a scope must be the thread-0 handle for that scope
  std::map<std::string, std::set<const void *>> inst;
  for (int t = 0; t < nworkers; t++)
    for (size_t i = 0; i < 6 && 3 * i + 2 < handles[t].size(); i++)
    {
      const char *s = kScopes[(i + size_t(t)) % 6];
      inst[std::string("tracer:") + s].insert(handles[t][3 * i]);
      inst[std::string("logger:") + s].insert(handles[t][3 * i + 1]);
      inst[std::string("meter:") + s].insert(handles[t][3 * i + 2]);
    }
  std::string r = count_summary(sinks, long(nworkers) * iters);
  for (auto &kv : inst) r += kv.first + "#" + std::to_string(kv.second.size()) + ";";
  std::set<std::string> metric_scopes;
  size_t nstreams = 0;
  reader->Collect([&](msdk::ResourceMetrics &rm) {
    for (auto &sm : rm.scope_metric_data_)
    {
      metric_scopes.insert(sm.scope_->GetName());
      nstreams += sm.metric_data_.size();
    }
    return true;
  });
  for (auto &s : metric_scopes) r += "metrics:" + s + ";";
  r += "streams=" + std::to_string(nstreams) + ";";
  return r;
}

int main(int argc, char **argv)
{
  opentelemetry::sdk::common::internal_log::GlobalLogHandler::SetLogLevel(opentelemetry::sdk::common::internal_log::LogLevel::None);
  if (argc != 5) { std::printf("BADCASE\n"); return 0; }
  const int scenario = std::atoi(argv[1]), threads = std::atoi(argv[2]), rounds = std::atoi(argv[3]), iters = std::atoi(argv[4]);
  if (scenario < 0 || scenario > 2 || threads < 2 || threads > 8 || rounds < 1 || iters < 1) { std::printf("BADCASE\n"); return 0; }
  auto run = [&](int concurrent) {
    return scenario == 0 ? scenario_meters(concurrent, threads, iters)
         : scenario == 1 ? scenario_tracers(concurrent, threads, iters) : scenario_get_and_use(concurrent, threads, iters);
  };
  const std::string ref = run(0);   // the same work, one worker after the other on this thread
  std::string mismatch;
  if (run(0) != ref) mismatch = "single-threaded second run differs from the first";
  for (int r = 0; r < rounds && mismatch.empty(); r++)
  {
    std::string got = run(1);
    if (got != ref)
    {
      // first differing position, with some context
      size_t i = 0;
      while (i < got.size() && i < ref.size() && got[i] == ref[i]) i++;
      size_t from = i > 40 ? i - 40 : 0;
      mismatch    = "scenario=" + std::to_string(scenario) + " round=" + std::to_string(r) + " got=..." + got.substr(from, 160) + " want=..." + ref.substr(from, 160);
    }
  }
  if (mismatch.empty()) std::printf("PURE\n");
  else std::printf("DIFFERS %s\n", purity::hex(mismatch.substr(0, 500)).c_str());
  return 0;
}
