// C15 driver: Baggage Set/Delete/FromHeader/ToHeader, BaggagePropagator and CompositePropagator
// (built from ordered lists of the built-in propagators) through the public API.
// Case / observation formats: see coq/C15/Glue.v.
#include <map>
#include <memory>
#include <string>
#include <vector>
#include "opentelemetry/baggage/baggage.h"
#include "opentelemetry/baggage/baggage_context.h"
#include "opentelemetry/baggage/propagation/baggage_propagator.h"
#include "opentelemetry/context/context.h"
#include "opentelemetry/context/propagation/composite_propagator.h"
#include "opentelemetry/context/propagation/text_map_propagator.h"
#include "opentelemetry/trace/context.h"
#include "opentelemetry/trace/default_span.h"
#include "opentelemetry/trace/propagation/b3_propagator.h"
#include "opentelemetry/trace/propagation/http_trace_context.h"
#include "opentelemetry/trace/propagation/jaeger.h"
#include "opentelemetry/trace/span_context.h"
#include "opentelemetry/trace/span_metadata.h"
#include "opentelemetry/trace/trace_state.h"
#include "common/verif_io.h"

namespace nostd   = opentelemetry::nostd;
namespace trace   = opentelemetry::trace;
namespace context = opentelemetry::context;
namespace baggage = opentelemetry::baggage;
using context::propagation::TextMapPropagator;
using verif::Out;
using verif::Tok;

typedef std::vector<std::pair<std::string, std::string>> Entries;
typedef nostd::shared_ptr<baggage::Baggage> BagPtr;

// carrier whose values live in exact-size heap blocks (no NUL after the last byte)
class Carrier : public context::propagation::TextMapCarrier
{
public:
  std::map<std::string, std::unique_ptr<verif::ExactBuf>> h;
  nostd::string_view Get(nostd::string_view key) const noexcept override
  {
    auto it = h.find(std::string(key));
    if (it == h.end()) return "";
    return nostd::string_view(it->second->p, it->second->n);
  }
  void Set(nostd::string_view key, nostd::string_view value) noexcept override
  {
    h[std::string(key)].reset(new verif::ExactBuf(std::string(value)));
  }
  void print(Out &o) const
  {
    for (auto &kv : h) o.bytes(kv.first).bytes(kv.second->p, kv.second->n);
  }
};

static Entries entries_of(const baggage::Baggage &b)
{
  Entries e;
  b.GetAllEntries([&e](nostd::string_view k, nostd::string_view v) {
    e.emplace_back(std::string(k), std::string(v));
    return true;
  });
  return e;
}

static void print_entries(const Entries &e, Out &o)
{
  for (auto &kv : e) o.bytes(kv.first).bytes(kv.second);
}

// FromHeader on a view that is not NUL terminated and ends at the end of its heap block
static BagPtr from_header(const std::string &h)
{
  verif::ExactBuf buf(h);
  return baggage::Baggage::FromHeader(nostd::string_view(buf.p, buf.n));
}

static BagPtr set_exact(const BagPtr &b, const std::string &k, const std::string &v)
{
  verif::ExactBuf kb(k), vb(v);
  return b->Set(nostd::string_view(kb.p, kb.n), nostd::string_view(vb.p, vb.n));
}

static BagPtr delete_exact(const BagPtr &b, const std::string &k)
{
  verif::ExactBuf kb(k);
  return b->Delete(nostd::string_view(kb.p, kb.n));
}

static void print_opt_bag(const context::Context &c, Out &o)
{
  if (!c.HasKey(baggage::kBaggageHeader)) { o.tag("NOBAG"); return; }
  o.tag("BAG");
  print_entries(entries_of(*baggage::GetBaggage(c)), o);
}

static void case_ops(const std::vector<Tok> &t, Out &o)
{
  auto sec = verif::split_toks(t, ";", 1);
  if (sec.empty() || sec[0].size() != 1) { o.tag("BADCASE"); return; }
  std::vector<BagPtr> objs;
  std::vector<Entries> snap;
  if (sec[0][0].kind == Tok::BYTES) objs.push_back(from_header(sec[0][0].s));
  else if (sec[0][0].is_tag("NEW")) objs.push_back(BagPtr(new baggage::Baggage()));
  else { o.tag("BADCASE"); return; }
  snap.push_back(entries_of(*objs[0]));
  bool pure = true;
  for (size_t i = 1; i < sec.size(); i++)
  {
    auto &s = sec[i];
    BagPtr nb;
    if (s.size() == 4 && s[0].is_tag("S") && s[1].kind == Tok::INT && s[2].kind == Tok::BYTES && s[3].kind == Tok::BYTES)
      nb = set_exact(objs[size_t(s[1].as_ull()) % objs.size()], s[2].s, s[3].s);
    else if (s.size() == 3 && s[0].is_tag("D") && s[1].kind == Tok::INT && s[2].kind == Tok::BYTES)
      nb = delete_exact(objs[size_t(s[1].as_ull()) % objs.size()], s[2].s);
    else if (s.size() == 2 && s[0].is_tag("F") && s[1].kind == Tok::BYTES)
      nb = from_header(s[1].s);
    else { o.line.clear(); o.tag("BADCASE"); return; }
    // every earlier object must still read exactly as it did when it was created
    for (size_t j = 0; j < objs.size(); j++) pure = pure && entries_of(*objs[j]) == snap[j];
    objs.push_back(nb);
    snap.push_back(entries_of(*nb));
  }
  for (size_t j = 0; j < snap.size(); j++)
  {
    if (j) o.tag(";");
    print_entries(snap[j], o);
  }
  o.tag("|");
  for (size_t j = 0; j < objs.size(); j++)
  {
    if (j) o.tag(";");
    print_entries(entries_of(*objs[j]), o);
  }
  o.tag("|").tag("PURE").boolean(pure).tag("|");
  // the last object through the propagator: inject into an empty carrier, extract into a fresh context
  baggage::propagation::BaggagePropagator prop;
  Carrier car;
  {
    context::Context root;
    context::Context ctx = baggage::SetBaggage(root, objs.back());
    prop.Inject(car, ctx);
  }
  o.tag("HDR").bytes(std::string(car.Get("baggage")));
  o.tag("|").tag("RT");
  context::Context in;
  context::Context out = prop.Extract(car, in);
  if (out == in) o.tag("SAME");
  else print_opt_bag(out, o);
}

static void case_hdr(const std::vector<Tok> &t, Out &o)
{
  if (t.size() < 3) { o.tag("BADCASE"); return; }
  Carrier car;
  std::string h;
  if (t[1].kind == Tok::BYTES) { h = t[1].s; car.Set("baggage", h); }
  else if (!t[1].is_tag("NONE")) { o.tag("BADCASE"); return; }
  context::Context root;
  context::Context in = root;
  if (t[2].is_tag("BAG") && t.size() == 4 && t[3].kind == Tok::BYTES) in = baggage::SetBaggage(root, from_header(t[3].s));
  else if (!(t[2].is_tag("NOBAG") && t.size() == 3)) { o.tag("BADCASE"); return; }
  print_entries(entries_of(*from_header(h)), o);
  baggage::propagation::BaggagePropagator prop;
  context::Context out = prop.Extract(car, in);
  o.tag("|").tag("SAME").boolean(out == in).tag("|");
  print_opt_bag(out, o);
}

static std::unique_ptr<TextMapPropagator> make_prop(const Tok &t)
{
  if (t.is_tag("W3C")) return std::unique_ptr<TextMapPropagator>(new trace::propagation::HttpTraceContext());
  if (t.is_tag("BAG")) return std::unique_ptr<TextMapPropagator>(new baggage::propagation::BaggagePropagator());
  if (t.is_tag("B3")) return std::unique_ptr<TextMapPropagator>(new trace::propagation::B3Propagator());
  if (t.is_tag("B3M")) return std::unique_ptr<TextMapPropagator>(new trace::propagation::B3PropagatorMultiHeader());
  if (t.is_tag("JAEGER")) return std::unique_ptr<TextMapPropagator>(new trace::propagation::JaegerPropagator());
  return nullptr;
}

// <NOSPAN|SPAN tid sid flags ts> <NOBAG|BAG hdr>
static bool make_context(const std::vector<Tok> &t, size_t i, context::Context &ctx)
{
  context::Context root;
  ctx = root;
  if (i < t.size() && t[i].is_tag("SPAN") && i + 4 < t.size() && t[i + 1].s.size() == 16 && t[i + 2].s.size() == 8)
  {
    trace::TraceId tid(nostd::span<const uint8_t, 16>(reinterpret_cast<const uint8_t *>(t[i + 1].s.data()), 16));
    trace::SpanId sid(nostd::span<const uint8_t, 8>(reinterpret_cast<const uint8_t *>(t[i + 2].s.data()), 8));
    verif::ExactBuf tsh(t[i + 4].s);
    auto ts = trace::TraceState::FromHeader(nostd::string_view(tsh.p, tsh.n));
    nostd::shared_ptr<trace::Span> sp{
        new trace::DefaultSpan(trace::SpanContext(tid, sid, trace::TraceFlags(uint8_t(t[i + 3].as_ll())), false, ts))};
    ctx = trace::SetSpan(ctx, sp);
    i += 5;
  }
  else if (i < t.size() && t[i].is_tag("NOSPAN")) i += 1;
  else return false;
  if (i < t.size() && t[i].is_tag("BAG") && i + 2 == t.size() && t[i + 1].kind == Tok::BYTES)
    ctx = baggage::SetBaggage(ctx, from_header(t[i + 1].s));
  else if (!(i + 1 == t.size() && t[i].is_tag("NOBAG"))) return false;
  return true;
}

static void print_ctx_obs(const context::Context &in, const context::Context &out, Out &o)
{
  o.tag("SAME").boolean(out == in).tag(";");
  if (out.HasKey(trace::kSpanKey))
  {
    auto sc = trace::GetSpan(out)->GetContext();
    char tid[16], sid[8];
    sc.trace_id().CopyBytesTo(nostd::span<uint8_t, 16>(reinterpret_cast<uint8_t *>(tid), 16));
    sc.span_id().CopyBytesTo(nostd::span<uint8_t, 8>(reinterpret_cast<uint8_t *>(sid), 8));
    o.tag("SPAN").bytes(tid, 16).bytes(sid, 8).num(sc.trace_flags().flags()).boolean(sc.IsRemote())
        .bytes(sc.trace_state()->ToHeader());
  }
  else o.tag("NOSPAN");
  o.tag(";");
  print_opt_bag(out, o);
}

static void case_comp(const std::vector<Tok> &t, Out &o)
{
  auto sec = verif::split_toks(t, ";", 1);
  if (sec.size() < 2 || sec[1].empty()) { o.tag("BADCASE"); return; }
  std::vector<std::unique_ptr<TextMapPropagator>> parts, manual;
  for (auto &n : sec[0])
  {
    auto p = make_prop(n);
    auto q = make_prop(n);
    if (!p) { o.tag("BADCASE"); return; }
    parts.push_back(std::move(p));
    manual.push_back(std::move(q));
  }
  context::propagation::CompositePropagator comp(std::move(parts));
  context::Context ctx;
  if (!make_context(sec[1], 1, ctx)) { o.tag("BADCASE"); return; }
  if (sec[1][0].is_tag("INJ") && sec.size() == 2)
  {
    Carrier c1, c2;
    comp.Inject(c1, ctx);
    for (auto &p : manual) p->Inject(c2, ctx);
    c1.print(o);
    o.tag("|");
    c2.print(o);
  }
  else if (sec[1][0].is_tag("EXT") && sec.size() == 3 && sec[2].size() % 2 == 0)
  {
    Carrier car;
    for (size_t i = 0; i + 1 < sec[2].size(); i += 2)
    {
      if (sec[2][i].kind != Tok::BYTES || sec[2][i + 1].kind != Tok::BYTES) { o.tag("BADCASE"); return; }
      car.Set(sec[2][i].s, sec[2][i + 1].s);
    }
    context::Context out = comp.Extract(car, ctx);
    print_ctx_obs(ctx, out, o);
    o.tag("|");
    context::Context cur = ctx;
    for (auto &p : manual)
    {
      context::Context next = p->Extract(car, cur);
      cur                   = next;
    }
    print_ctx_obs(ctx, cur, o);
  }
  else o.tag("BADCASE");
}

int main(int argc, char **argv)
{
  // flush every observation line: when a sanitizer aborts the run, the last line printed is complete
  std::cout << std::unitbuf;
  return verif::run_cases(argc, argv, [](const std::vector<Tok> &t, Out &o) {
    if (t.empty()) { o.tag("BADCASE"); return; }
    if (t[0].is_tag("OPS")) case_ops(t, o);
    else if (t[0].is_tag("HDR")) case_hdr(t, o);
    else if (t[0].is_tag("COMP")) case_comp(t, o);
    else o.tag("BADCASE");
  });
}
