// C10 driver: context::Context, RuntimeContext (thread-local stack), Token, trace::Scope,
// Tracer::WithActiveSpan / GetCurrentSpan, trace::GetSpan / SetSpan - through the public API only.
// Case format: see coq/C10/Glue.v.  The main program of every case runs in a fresh std::thread (fresh
// thread_local stack: capacity 0), the other segments run in real concurrent threads started by it.
#include <atomic>
#include <cstring>
#include <map>
#include <memory>
#include <string>
#include <thread>
#include <utility>
#include <vector>
#include "opentelemetry/baggage/baggage.h"
#include "opentelemetry/context/context.h"
#include "opentelemetry/context/runtime_context.h"
#include "opentelemetry/trace/context.h"
#include "opentelemetry/trace/default_span.h"
#include "opentelemetry/trace/scope.h"
#include "opentelemetry/trace/span_context.h"
#include "opentelemetry/trace/tracer.h"
#include "common/verif_io.h"

namespace nostd   = opentelemetry::nostd;
namespace trace   = opentelemetry::trace;
namespace context = opentelemetry::context;
namespace baggage = opentelemetry::baggage;
using context::Context;
using context::ContextValue;
using context::RuntimeContext;
using verif::ExactBuf;
using verif::Out;
using verif::Tok;

// immutable object tables shared by all threads: values of pointer type travel as indices
static std::vector<nostd::shared_ptr<trace::Span>> g_spans;
static std::vector<nostd::shared_ptr<trace::SpanContext>> g_sctx;
static std::vector<nostd::shared_ptr<baggage::Baggage>> g_bag;

static void init_tables()
{
  for (int i = 0; i < 16; i++)
    g_spans.push_back(nostd::shared_ptr<trace::Span>(new trace::DefaultSpan(trace::SpanContext::GetInvalid())));
  for (int i = 0; i < 4; i++)
    g_sctx.push_back(nostd::shared_ptr<trace::SpanContext>(new trace::SpanContext(trace::SpanContext::GetInvalid())));
  for (int i = 0; i < 4; i++) g_bag.push_back(nostd::shared_ptr<baggage::Baggage>(new baggage::Baggage()));
}

static ContextValue mkval(const Tok &kind, const Tok &num)
{
  switch (kind.s.empty() ? '?' : kind.s[0])
  {
    case 'b': return ContextValue(bool(num.as_ll() != 0));
    case 'i': return ContextValue(int64_t(num.as_ll()));
    case 'u': return ContextValue(uint64_t(num.as_ull()));
    case 'd': { uint64_t bits = num.as_ull(); double d; std::memcpy(&d, &bits, 8); return ContextValue(d); }
    case 's': return ContextValue(g_spans[num.as_ull() % g_spans.size()]);
    case 'c': return ContextValue(g_sctx[num.as_ull() % g_sctx.size()]);
    case 'g': return ContextValue(g_bag[num.as_ull() % g_bag.size()]);
    default: return ContextValue{};
  }
}

template <class T>
static long long index_in(const std::vector<nostd::shared_ptr<T>> &tbl, const nostd::shared_ptr<T> &p)
{
  for (size_t i = 0; i < tbl.size(); i++)
    if (tbl[i].get() == p.get()) return (long long)i;
  return -1;
}

static void print_value(const ContextValue &v, Out &o)
{
  switch (v.index())
  {
    case 0: o.tag("m").num(0); break;
    case 1: o.tag("b").num(nostd::get<bool>(v) ? 1 : 0); break;
    case 2: o.tag("i").num(nostd::get<int64_t>(v)); break;
    case 3: o.tag("u").unum(nostd::get<uint64_t>(v)); break;
    case 4: { double d = nostd::get<double>(v); uint64_t bits; std::memcpy(&bits, &d, 8); o.tag("d").unum(bits); break; }
    case 5: o.tag("s").num(index_in(g_spans, nostd::get<nostd::shared_ptr<trace::Span>>(v))); break;
    case 6: o.tag("c").num(index_in(g_sctx, nostd::get<nostd::shared_ptr<trace::SpanContext>>(v))); break;
    case 7: o.tag("g").num(index_in(g_bag, nostd::get<nostd::shared_ptr<baggage::Baggage>>(v))); break;
    default: o.tag("?").num(-1);
  }
}

struct TokEntry
{
  enum St { DEAD, LIVE, BORROWED, SCOPE } st = DEAD;
  nostd::unique_ptr<context::Token> own;
  context::Token *borrowed = nullptr;
  std::unique_ptr<trace::Scope> scope;
  context::Token *token() { return st == LIVE ? own.get() : (st == BORROWED ? borrowed : nullptr); }
};

struct World
{
  std::vector<Context> pool;
  // temp[i] non-empty: context i was a TEMPORARY handed straight to Attach (ATT/ATP): the driver holds NO reference to it
  // (pool[i] is just Context()); it is recognised by its own binding temp[i] -> int64 i
  std::vector<std::string> temp;
  std::vector<char> is_temp;
  std::vector<TokEntry> toks;
  bool bad = false;
  void name(const Context &c) { pool.push_back(c); temp.emplace_back(); is_temp.push_back(0); }
  void name_temp(const std::string &key) { pool.push_back(Context()); temp.push_back(key); is_temp.push_back(1); }
  Context &ctx(size_t i)
  {
    if (i >= pool.size()) return pool[0];
    if (is_temp[i]) bad = true;   // a temporary cannot be referred to later
    return pool[i];
  }
};

static long long cur_idx(World &w)
{
  Context cur = RuntimeContext::GetCurrent();
  for (size_t i = 0; i < w.pool.size(); i++)
    if (!w.is_temp[i] && cur == w.pool[i]) return (long long)i;
  for (size_t i = w.pool.size(); i-- > 0;)
  {
    if (!w.is_temp[i]) continue;
    ExactBuf k(w.temp[i]);
    ContextValue v = cur.GetValue(nostd::string_view(k.p, k.n));
    if (nostd::holds_alternative<int64_t>(v) && nostd::get<int64_t>(v) == (int64_t)i) return (long long)i;
  }
  return -1;
}

static nostd::string_view view(const ExactBuf &b) { return nostd::string_view(b.p, b.n); }

// batch given as tokens (key kind payload)*
static Context set_values(Context &parent, const std::vector<Tok> &t, size_t from, bool as_ctor)
{
  std::vector<std::unique_ptr<ExactBuf>> keys;
  std::vector<std::pair<nostd::string_view, ContextValue>> vec;
  std::map<std::string, ContextValue> map;
  bool ascending = true;
  for (size_t i = from; i + 2 < t.size(); i += 3)
  {
    keys.emplace_back(new ExactBuf(t[i].s));
    vec.emplace_back(view(*keys.back()), mkval(t[i + 1], t[i + 2]));
    if (i > from && !(t[i - 3].s < t[i].s)) ascending = false;
    map.emplace(t[i].s, vec.back().second);
  }
  // the documented argument type is a map; any iterable of pairs is accepted: use the map when it iterates
  // in the order the case gives, a vector of (string_view, value) otherwise (duplicates, other orders)
  if (ascending)
    return as_ctor ? Context(map) : parent.SetValues(map);
  return as_ctor ? Context(vec) : parent.SetValues(vec);
}

static void reveal_stack(World &w, Out &o)
{
  size_t n = w.toks.size();
  for (size_t i = 0; i < n; i++)
  {
    o.num(cur_idx(w));
    Context cur = RuntimeContext::GetCurrent();
    {
      auto t = RuntimeContext::Attach(cur);
      RuntimeContext::Detach(*t);
    }  // ~Token detaches once more: pops what was the top
  }
  o.tag(";");
}

static bool run_op(World &w, const std::vector<Tok> &a, Out &o)
{
  const std::string &op = a[0].s;
  size_t n                = a.size();
  auto idx                = [&](size_t i) { return size_t(a[i].as_ull()); };
  if ((op == "SV" || op == "RSVC") && n == 5)
  {
    ExactBuf k(a[2].s);
    ContextValue v = mkval(a[3], a[4]);
    Context &c     = w.ctx(idx(1));
    w.name(op == "SV" ? c.SetValue(view(k), v) : RuntimeContext::SetValue(view(k), v, &c));
  }
  else if (op == "RSV" && n == 4)
  {
    ExactBuf k(a[1].s);
    w.name(RuntimeContext::SetValue(view(k), mkval(a[2], a[3])));
  }
  else if (op == "NEW1" && n == 4)
  {
    ExactBuf k(a[1].s);
    w.name(Context(view(k), mkval(a[2], a[3])));
  }
  else if (op == "SSP" && n == 3)
  {
    w.name(trace::SetSpan(w.ctx(idx(1)), g_spans[idx(2) % g_spans.size()]));
  }
  else if (op == "SVS" && n >= 3 && (n - 3) % 3 == 0)
  {
    w.name(set_values(w.ctx(idx(1)), a, 3, false));
  }
  else if (op == "NEW" && n >= 2 && (n - 2) % 3 == 0)
  {
    w.name(set_values(w.pool[0], a, 2, true));
  }
  else if ((op == "GV" || op == "RGVC") && n == 3)
  {
    ExactBuf k(a[2].s);
    Context &c = w.ctx(idx(1));
    print_value(op == "GV" ? c.GetValue(view(k)) : RuntimeContext::GetValue(view(k), &c), o);
  }
  else if (op == "RGV" && n == 2)
  {
    ExactBuf k(a[1].s);
    print_value(RuntimeContext::GetValue(view(k)), o);
  }
  else if (op == "HK" && n == 3)
  {
    ExactBuf k(a[2].s);
    o.boolean(w.ctx(idx(1)).HasKey(view(k)));
  }
  else if (op == "GSP" && n == 2)
  {
    o.num(index_in(g_spans, trace::GetSpan(w.ctx(idx(1)))));
  }
  else if (op == "CSP" && n == 1)
  {
    o.num(index_in(g_spans, trace::Tracer::GetCurrentSpan()));
  }
  else if ((op == "ATT" || op == "ATP") && n == 3)
  {
    if (idx(1) != w.pool.size()) return false;
    ExactBuf k(a[2].s);
    TokEntry e;
    e.own = RuntimeContext::Attach(Context(view(k), ContextValue(int64_t(idx(1)))));   // a temporary: nobody else holds it
    e.st  = TokEntry::LIVE;
    w.toks.push_back(std::move(e));
    w.name_temp(a[2].s);
    o.tag(";");   // two model operations: name it, attach it
  }
  else if (op == "DUMP")
  {
    for (char t : w.is_temp) if (t) return false;
    std::vector<std::unique_ptr<ExactBuf>> keys;
    for (size_t i = 1; i < n; i++) keys.emplace_back(new ExactBuf(a[i].s));
    for (auto &c : w.pool)
      for (auto &k : keys) print_value(c.GetValue(view(*k)), o);
  }
  else if (op == "EQ" && n == 3)
  {
    o.boolean(w.ctx(idx(1)) == w.ctx(idx(2)));
  }
  else if (op == "AT" && n == 2)
  {
    TokEntry e;
    e.own = RuntimeContext::Attach(w.ctx(idx(1)));
    e.st  = TokEntry::LIVE;
    w.toks.push_back(std::move(e));
  }
  else if (op == "ATC" && n == 1)
  {
    TokEntry e;
    e.own = RuntimeContext::Attach(RuntimeContext::GetCurrent());
    e.st  = TokEntry::LIVE;
    w.toks.push_back(std::move(e));
  }
  else if (op == "DT" && n == 2)
  {
    size_t k = idx(1);
    context::Token *t = k < w.toks.size() ? w.toks[k].token() : nullptr;
    if (t != nullptr) o.boolean(RuntimeContext::Detach(*t));
    else o.tag(k < w.toks.size() && w.toks[k].st == TokEntry::SCOPE ? "scope" : "dead");
  }
  else if (op == "KT" && n == 2)
  {
    size_t k = idx(1);
    if (k < w.toks.size() && (w.toks[k].st == TokEntry::LIVE || w.toks[k].st == TokEntry::SCOPE))
    {
      w.toks[k].own.reset();     // ~Token -> Detach
      w.toks[k].scope.reset();   // ~Scope -> ~Token -> Detach
      w.toks[k].st = TokEntry::DEAD;
    }
  }
  else if (op == "CUR" && n == 1)
  {
    o.num(cur_idx(w));
  }
  else if ((op == "SC" || op == "WAS") && n == 2)
  {
    nostd::shared_ptr<trace::Span> sp = g_spans[idx(1) % g_spans.size()];
    TokEntry e;
    if (op == "SC") e.scope.reset(new trace::Scope(sp));
    else e.scope.reset(new trace::Scope(trace::Tracer::WithActiveSpan(sp)));
    e.st = TokEntry::SCOPE;
    w.toks.push_back(std::move(e));
    w.name(RuntimeContext::GetCurrent());   // name the context the scope attached
  }
  else return false;
  o.tag(";");
  return !w.bad;
}

static bool run_ops(World &w, const std::vector<Tok> &seg, Out &o)
{
  for (auto &a : verif::split_toks(seg, ";"))
  {
    if (a.empty()) continue;
    if (!run_op(w, a, o)) return false;
  }
  return true;
}

static void release_all(World &w)
{
  while (!w.toks.empty()) w.toks.pop_back();   // newest first; the stack is already empty
}

static void run_case(const std::vector<Tok> &t, Out &out)
{
  auto segs = verif::split_toks(t, "|");
  bool ok   = true;
  Out o;
  std::thread mainth([&] {
    World w;
    w.name(Context());
    ok = run_ops(w, segs[0], o);
    o.tag("|");
    size_t nth = segs.size() - 1;
    if (ok && nth > 0)
    {
      std::vector<Out> outs(nth);
      std::vector<char> oks(nth, 1);
      std::atomic<size_t> ready{0};
      std::vector<std::thread> ths;
      for (size_t k = 0; k < nth; k++)
      {
        ths.emplace_back([&, k] {
          World tw;
          tw.pool = w.pool;
          tw.temp = w.temp;
          tw.is_temp = w.is_temp;
          for (auto &e : w.toks)
          {
            TokEntry b;
            context::Token *p = e.token();
            if (p != nullptr) { b.st = TokEntry::BORROWED; b.borrowed = p; }
            tw.toks.push_back(std::move(b));
          }
          ready.fetch_add(1);
          while (ready.load() < nth) std::this_thread::yield();   // start together
          oks[k] = run_ops(tw, segs[k + 1], outs[k]) ? 1 : 0;
          reveal_stack(tw, outs[k]);
          outs[k].tag("|");
          release_all(tw);
        });
      }
      for (auto &th : ths) th.join();
      for (size_t k = 0; k < nth; k++)
      {
        ok = ok && oks[k];
        if (!outs[k].line.empty()) o.add(outs[k].line);
      }
    }
    o.num(cur_idx(w));
    o.tag(";");
    reveal_stack(w, o);
    o.tag("|");
    release_all(w);
  });
  mainth.join();
  if (ok) out.line = o.line;
  else out.tag("BADCASE");
}

int main(int argc, char **argv)
{
  init_tables();
  return verif::run_cases(argc, argv, [](const std::vector<Tok> &t, Out &o) { run_case(t, o); });
}
