// C17 independence probe (run-time probe under ThreadSanitizer, NOT a theorem): distinct MeterProviders / registries share no
// hidden mutable state.  The model of C17 treats every provider (and, inside one provider, every meter's registry) as a value of
// its own; this probe ties that assumption to the code.
//
//   <probe> <size> <threads> <rounds> <iters>
//   1. reference, single-threaded: for every thread index t a provider P_t (own reader - delta for odd t, cumulative for even t -
//      two meters, int64 / double observable counters, up-down counters and gauges, callbacks that observe size+2 attribute sets and
//      yield in between) is collected <iters> times; the canonical text of every collection is recorded.  The same for the shared
//      provider Q (three meters).
//   2. <rounds> times, on FRESH providers: <threads> real threads released by a barrier each collect THEIR OWN provider <iters> times
//      and compare every collection with the reference; one more thread collects Q while another one adds / removes callbacks on an
//      instrument of Q's third meter (only the streams of the first two meters are compared: they must not be affected).
//   3. prints  PURE  |  DIFFERS x<hex description of the first mismatch>.
// Built with -fsanitize=thread: an unsynchronised pair of accesses to state shared ACROSS providers is reported whenever both
// execute without a happens-before edge (two different mutexes establish none); tools/purity.py maps the report to RACE x<head>.
#include <algorithm>
#include <atomic>
#include <map>
#include <memory>
#include <string>
#include <thread>
#include <vector>

#include "opentelemetry/metrics/async_instruments.h"
#include "opentelemetry/metrics/meter.h"
#include "opentelemetry/metrics/observer_result.h"
#include "opentelemetry/sdk/common/global_log_handler.h"
#include "opentelemetry/sdk/metrics/data/metric_data.h"
#include "opentelemetry/sdk/metrics/data/point_data.h"
#include "opentelemetry/sdk/metrics/export/metric_producer.h"
#include "opentelemetry/sdk/metrics/meter_provider.h"
#include "opentelemetry/sdk/metrics/metric_reader.h"
#include "purity/purity_probe.h"

namespace nostd   = opentelemetry::nostd;
namespace sdkm    = opentelemetry::sdk::metrics;
namespace metrics = opentelemetry::metrics;

class TestReader : public sdkm::MetricReader
{
public:
  explicit TestReader(sdkm::AggregationTemporality t) : t_(t) {}
  sdkm::AggregationTemporality GetAggregationTemporality(sdkm::InstrumentType) const noexcept override { return t_; }

private:
  bool OnForceFlush(std::chrono::microseconds) noexcept override { return true; }
  bool OnShutDown(std::chrono::microseconds) noexcept override { return true; }
  void OnInitialized() noexcept override {}
  sdkm::AggregationTemporality t_;
};

// what one callback observes: nattr attribute sets, value = base + 7 * attr + 3 * (number of the current collection of its provider)
struct CbState
{
  long long base;
  int nattr;
  const int *collection;   // owned by the provider's World, written only by the thread that collects that provider
};

static void probe_cb(metrics::ObserverResult res, void *state)
{
  const CbState *st = static_cast<const CbState *>(state);
  for (int a = 0; a < st->nattr; a++)
  {
    long long v = st->base + 7 * a + 3 * (*st->collection);
    if (nostd::holds_alternative<nostd::shared_ptr<metrics::ObserverResultT<int64_t>>>(res))
    {
      auto &r = nostd::get<nostd::shared_ptr<metrics::ObserverResultT<int64_t>>>(res);
      if (a == 0) r->Observe(int64_t(v));
      else r->Observe(int64_t(v), {{"k", int64_t(a)}});
    }
    else
    {
      auto &r = nostd::get<nostd::shared_ptr<metrics::ObserverResultT<double>>>(res);
      if (a == 0) r->Observe(double(v));
      else r->Observe(double(v), {{"k", int64_t(a)}});
    }
    std::this_thread::yield();   // the window in which another provider's observation pass may run
  }
}

struct ProviderWorld
{
  int collection = 0;
  std::vector<std::unique_ptr<CbState>> states;
  std::unique_ptr<sdkm::MeterProvider> mp;
  std::shared_ptr<sdkm::MetricReader> reader;
  std::vector<nostd::shared_ptr<metrics::ObservableInstrument>> instruments;
  nostd::shared_ptr<metrics::ObservableInstrument> churn;   // instrument of the last meter whose callbacks come and go (Q only)
  CbState churn_state{1000000, 2, &collection};

  // tag: distinguishes the providers (values and instrument names differ between them); nmeters meters
  ProviderWorld(int tag, int size, int nmeters, bool with_churn)
  {
    mp.reset(new sdkm::MeterProvider());
    reader.reset(new TestReader(tag % 2 ? sdkm::AggregationTemporality::kDelta : sdkm::AggregationTemporality::kCumulative));
    mp->AddMetricReader(reader);
    for (int m = 0; m < nmeters; m++)
    {
      auto meter = mp->GetMeter("m" + std::to_string(m), "1", "s");
      const std::string p = "p" + std::to_string(tag) + "_m" + std::to_string(m) + "_";
      std::vector<nostd::shared_ptr<metrics::ObservableInstrument>> is = {
          meter->CreateInt64ObservableCounter(p + "c", "d", "u"), meter->CreateDoubleObservableUpDownCounter(p + "u", "d", "u"),
          meter->CreateInt64ObservableGauge(p + "g", "d", "u"),   meter->CreateDoubleObservableCounter(p + "dc", "d", "u")};
      for (size_t k = 0; k < is.size(); k++)
      {
        states.emplace_back(new CbState{1000LL * (tag + 1) + 100 * m + 10 * (long long)k, size + 2, &collection});
        is[k]->AddCallback(probe_cb, states.back().get());
        instruments.push_back(is[k]);
      }
      if (with_churn && m + 1 == nmeters) churn = meter->CreateInt64ObservableUpDownCounter(p + "churn", "d", "u");
    }
  }
  ~ProviderWorld()
  {
    instruments.clear();
    churn = nostd::shared_ptr<metrics::ObservableInstrument>{};
  }

  // canonical text of one collection; streams whose name contains `skip` are left out
  std::string collect(const std::string &skip)
  {
    collection++;
    std::vector<std::string> lines;
    reader->Collect([&](sdkm::ResourceMetrics &rm) {
      for (const auto &sm : rm.scope_metric_data_)
        for (const auto &md : sm.metric_data_)
        {
          const std::string &nm = md.instrument_descriptor.name_;
          if (!skip.empty() && nm.find(skip) != std::string::npos) continue;
          for (const auto &dp : md.point_data_attr_)
          {
            std::string a = "-";
            auto it       = dp.attributes.find("k");
            if (it != dp.attributes.end() && nostd::holds_alternative<int64_t>(it->second)) a = std::to_string(nostd::get<int64_t>(it->second));
            else if (!dp.attributes.empty()) a = "?";
            std::string v = "?";
            auto val = [](const sdkm::ValueType &x) {
              return nostd::holds_alternative<int64_t>(x) ? std::to_string(nostd::get<int64_t>(x))
                                                           : std::to_string((long long)nostd::get<double>(x));
            };
            if (nostd::holds_alternative<sdkm::SumPointData>(dp.point_data)) v = "S" + val(nostd::get<sdkm::SumPointData>(dp.point_data).value_);
            else if (nostd::holds_alternative<sdkm::LastValuePointData>(dp.point_data))
              v = "L" + val(nostd::get<sdkm::LastValuePointData>(dp.point_data).value_);
            lines.push_back(nm + "{" + a + "}=" + v);
          }
        }
      return true;
    });
    std::sort(lines.begin(), lines.end());
    std::string r;
    for (auto &l : lines) r += l + ";";
    return r;
  }
};

static const int QTAG = 100;

int main(int argc, char **argv)
{
  using namespace opentelemetry::sdk::common::internal_log;
  GlobalLogHandler::SetLogHandler(nostd::shared_ptr<LogHandler>(new NoopLogHandler()));
  GlobalLogHandler::SetLogLevel(LogLevel::None);
  if (argc != 5) { std::printf("BADCASE\n"); return 0; }
  const int size = std::atoi(argv[1]), threads = std::atoi(argv[2]), rounds = std::atoi(argv[3]), iters = std::atoi(argv[4]);
  if (size < 0 || size > 6 || threads < 1 || threads > 8 || rounds < 1 || iters < 1) { std::printf("BADCASE\n"); return 0; }

  // 1. reference, single-threaded
  std::vector<std::vector<std::string>> ref(static_cast<size_t>(threads));
  std::vector<std::string> refq;
  for (int t = 0; t < threads; t++)
  {
    ProviderWorld w(t, size, 2, false);
    for (int it = 0; it < iters; it++) ref[size_t(t)].push_back(w.collect(""));
  }
  {
    ProviderWorld q(QTAG, size, 3, true);
    for (int it = 0; it < iters; it++) refq.push_back(q.collect("_m2_"));
  }

  // 2. real threads: own providers, and Q collected while its third meter's registry is mutated
  std::vector<std::unique_ptr<ProviderWorld>> own(static_cast<size_t>(threads));
  std::unique_ptr<ProviderWorld> q;
  purity::Barrier bar(threads + 3);
  std::vector<std::string> mismatch(static_cast<size_t>(threads) + 1);
  std::atomic<bool> q_done{false};
  std::vector<std::thread> ts;
  for (int t = 0; t < threads; t++)
    ts.emplace_back([&, t] {
      for (int r = 0; r < rounds; r++)
      {
        bar.wait();
        for (int it = 0; it < iters; it++)
        {
          std::string got = own[size_t(t)]->collect("");
          if (got != ref[size_t(t)][size_t(it)] && mismatch[size_t(t)].empty())
            mismatch[size_t(t)] = "provider=" + std::to_string(t) + " round=" + std::to_string(r) + " collection=" + std::to_string(it) +
                                  " got=" + got.substr(0, 160) + " want=" + ref[size_t(t)][size_t(it)].substr(0, 160);
        }
        bar.wait();
      }
    });
  ts.emplace_back([&] {   // collector of Q
    for (int r = 0; r < rounds; r++)
    {
      bar.wait();
      for (int it = 0; it < iters; it++)
      {
        std::string got = q->collect("_m2_");
        if (got != refq[size_t(it)] && mismatch[size_t(threads)].empty())
          mismatch[size_t(threads)] = "provider=Q round=" + std::to_string(r) + " collection=" + std::to_string(it) + " got=" + got.substr(0, 160) +
                                      " want=" + refq[size_t(it)].substr(0, 160);
      }
      q_done.store(true);
      bar.wait();
    }
  });
  ts.emplace_back([&] {   // mutator of Q's third meter
    for (int r = 0; r < rounds; r++)
    {
      bar.wait();
      int n = 0;
      while (!q_done.load() && n < 10000)
      {
        q->churn->AddCallback(probe_cb, &q->churn_state);
        std::this_thread::yield();
        q->churn->RemoveCallback(probe_cb, &q->churn_state);
        n++;
      }
      bar.wait();
    }
  });
  for (int r = 0; r < rounds; r++)
  {
    for (int t = 0; t < threads; t++) own[size_t(t)].reset(new ProviderWorld(t, size, 2, false));
    q.reset(new ProviderWorld(QTAG, size, 3, true));
    q_done.store(false);
    bar.wait();
    bar.wait();
    for (auto &w : own) w.reset();
    q.reset();
  }
  for (auto &t : ts) t.join();
  std::string first;
  for (auto &m : mismatch)
    if (first.empty() && !m.empty()) first = m;
  if (first.empty()) std::printf("PURE\n");
  else std::printf("DIFFERS %s\n", purity::hex(first.substr(0, 400)).c_str());
  return 0;
}
