// Purity probe (generic part): a run-time check of the modelling assumption "these const operations are
// pure functions of immutable values".  NOT a theorem: it ties the assumption to the code by executing the
// operations from several real threads on SHARED objects under ThreadSanitizer.
//
// A property supplies a World: the shared objects built from the case parameters plus a list of named
// operations, each returning a canonical string.  Two Worlds built from the same parameters must behave
// identically.  The probe
//   1. computes the reference results single-threaded on one World (twice: must be stable),
//   2. for each round builds a FRESH World (so first-call-only paths such as lazy caches are exercised in
//      every round), releases T threads through a barrier, and lets every thread run every operation
//      `iters` times on the shared World (threads start at different operations), comparing each result
//      with the reference,
//   3. prints one observation line:  PURE   |   DIFFERS x<hex of a description of the first mismatch>.
// Built with -fsanitize=thread: an unsynchronised write/read pair on the shared objects is reported by
// ThreadSanitizer whenever both accesses execute without a happens-before edge (the bad interleaving
// itself is not needed); tools/purity.py maps its exit code to the observation RACE x<report head>.
//
// usage (see harness/c09_purity.cc):   int main(int c, char **v) { return purity::main_probe(c, v, make_world); }
// command line: <probe> <size> <threads> <rounds> <iters>
#pragma once
#include <condition_variable>
#include <cstdio>
#include <cstdlib>
#include <functional>
#include <memory>
#include <mutex>
#include <string>
#include <thread>
#include <vector>

namespace purity
{
class World
{
public:
  virtual ~World() {}
  virtual size_t n_ops() const                                = 0;
  virtual const char *op_name(size_t i) const                 = 0;
  // must not keep anything between calls except in objects local to the call
  virtual std::string run_op(size_t i, int thread) const      = 0;
};

using Factory = std::function<std::unique_ptr<World>(int size)>;

class Barrier
{
public:
  explicit Barrier(int n) : n_(n) {}
  void wait()
  {
    std::unique_lock<std::mutex> lk(mu_);
    int gen = gen_;
    if (++count_ == n_)
    {
      count_ = 0;
      gen_++;
      cv_.notify_all();
      return;
    }
    cv_.wait(lk, [&] { return gen_ != gen; });
  }

private:
  std::mutex mu_;
  std::condition_variable cv_;
  int n_;
  int count_ = 0;
  int gen_   = 0;
};

inline std::string hex(const std::string &s)
{
  static const char *d = "0123456789abcdef";
  std::string o        = "x";
  for (unsigned char c : s)
  {
    o.push_back(d[c >> 4]);
    o.push_back(d[c & 15]);
  }
  return o;
}

inline int main_probe(int argc, char **argv, const Factory &make)
{
  if (argc != 5)
  {
    std::printf("BADCASE\n");
    return 0;
  }
  const int size = std::atoi(argv[1]), threads = std::atoi(argv[2]), rounds = std::atoi(argv[3]),
            iters = std::atoi(argv[4]);
  if (size < 0 || threads < 1 || threads > 16 || rounds < 1 || iters < 1)
  {
    std::printf("BADCASE\n");
    return 0;
  }
  // 1. reference, single-threaded, on its own World
  std::vector<std::string> ref;
  std::string mismatch;
  {
    std::unique_ptr<World> w = make(size);
    for (size_t i = 0; i < w->n_ops(); i++) ref.push_back(w->run_op(i, -1));
    for (size_t i = 0; i < w->n_ops(); i++)
      if (w->run_op(i, -1) != ref[i] && mismatch.empty())
        mismatch = std::string("op=") + w->op_name(i) + " single-threaded second call differs from the first";
  }
  // 2. threads on shared fresh Worlds
  std::unique_ptr<World> shared;
  Barrier bar(threads + 1);
  std::vector<std::string> first_mismatch(threads);
  std::vector<std::thread> ts;
  for (int t = 0; t < threads; t++)
  {
    ts.emplace_back([&, t] {
      for (int r = 0; r < rounds; r++)
      {
        bar.wait();   // the main thread has built the World of this round
        const World &w = *shared;
        const size_t n = w.n_ops();
        for (int it = 0; it < iters; it++)
          for (size_t k = 0; k < n; k++)
          {
            const size_t i = (k + size_t(t) * (n / size_t(threads) + 1) + size_t(r)) % n;
            std::string got = w.run_op(i, t);
            if (got != ref[i] && first_mismatch[t].empty())
              first_mismatch[t] = std::string("op=") + w.op_name(i) + " thread=" + std::to_string(t) +
                                  " round=" + std::to_string(r) + " got=" + got.substr(0, 120) +
                                  " want=" + ref[i].substr(0, 120);
          }
        bar.wait();   // everybody is done with this World
      }
    });
  }
  for (int r = 0; r < rounds; r++)
  {
    shared = make(size);
    bar.wait();
    bar.wait();
    shared.reset();
  }
  for (auto &t : ts) t.join();
  for (auto &m : first_mismatch)
    if (mismatch.empty() && !m.empty()) mismatch = m;
  if (mismatch.empty())
    std::printf("PURE\n");
  else
    std::printf("DIFFERS %s\n", hex(mismatch.substr(0, 400)).c_str());
  return 0;
}
}  // namespace purity
