// C18 driver: environment readers, OTELResourceDetector, Resource::Merge / Resource::Create, the resource
// seen at exporters for spans / log records / metric batches, and the OTEL_SDK_DISABLED gate of the
// sdk Provider::Set*Provider helpers.
//
// Resource::Create caches the detected environment resource in a function-local static, so every case
// that calls it runs in a forked child of a parent that itself never calls Resource::Create.
#include <sys/types.h>
#include <sys/wait.h>
#include <unistd.h>
#include <algorithm>
#include <cerrno>
#include <chrono>
#include <cstring>
#include <map>
#include <memory>

#include "opentelemetry/logs/provider.h"
#include "opentelemetry/metrics/provider.h"
#include "opentelemetry/sdk/common/disabled.h"
#include "opentelemetry/sdk/common/env_variables.h"
#include "opentelemetry/sdk/common/global_log_handler.h"
#include "opentelemetry/sdk/logs/exporter.h"
#include "opentelemetry/sdk/logs/logger_provider.h"
#include "opentelemetry/sdk/logs/provider.h"
#include "opentelemetry/sdk/logs/read_write_log_record.h"
#include "opentelemetry/sdk/logs/simple_log_record_processor.h"
#include "opentelemetry/sdk/metrics/meter_provider.h"
#include "opentelemetry/sdk/metrics/metric_reader.h"
#include "opentelemetry/sdk/metrics/provider.h"
#include "opentelemetry/sdk/resource/resource.h"
#include "opentelemetry/sdk/resource/resource_detector.h"
#include "opentelemetry/sdk/trace/exporter.h"
#include "opentelemetry/sdk/trace/provider.h"
#include "opentelemetry/sdk/trace/simple_processor.h"
#include "opentelemetry/sdk/trace/span_data.h"
#include "opentelemetry/sdk/trace/tracer_provider.h"
#include "opentelemetry/trace/provider.h"

#include "common/verif_io.h"

namespace nostd    = opentelemetry::nostd;
namespace sdkc     = opentelemetry::sdk::common;
namespace res      = opentelemetry::sdk::resource;
namespace sdktrace = opentelemetry::sdk::trace;
namespace sdklogs  = opentelemetry::sdk::logs;
namespace sdkmet   = opentelemetry::sdk::metrics;
using verif::Out;
using verif::Tok;

static const char *kVar = "VERIF_C18_VALUE";

// NONE = unset, x.. = set to these bytes (which never contain NUL)
static void set_env(const char *name, const Tok &t)
{
  if (t.kind == Tok::BYTES) setenv(name, t.s.c_str(), 1);
  else unsetenv(name);
}

// ---------------------------------------------------------------- resources
struct Pair { std::string k; Tok ty; Tok v; };

// tokens [from..): k (s|i|b) v ...
static res::ResourceAttributes attrs_from(const std::vector<Tok> &t, size_t from)
{
  res::ResourceAttributes a;
  for (size_t i = from; i + 2 < t.size(); i += 3)
  {
    const std::string &k = t[i].s;
    if (t[i + 1].is_tag("s")) a.SetAttribute(k, nostd::string_view(t[i + 2].s.data(), t[i + 2].s.size()));
    else if (t[i + 1].is_tag("i")) a.SetAttribute(k, static_cast<int64_t>(t[i + 2].as_ll()));
    else a.SetAttribute(k, t[i + 2].as_ll() != 0);
  }
  return a;
}

static void dump(const res::Resource &r, Out &o)
{
  o.bytes(r.GetSchemaURL());
  std::vector<std::pair<std::string, const sdkc::OwnedAttributeValue *>> v;
  for (auto &kv : r.GetAttributes()) v.emplace_back(kv.first, &kv.second);
  std::sort(v.begin(), v.end(), [](const auto &a, const auto &b) { return a.first < b.first; });
  o.num(static_cast<long long>(v.size()));
  for (auto &kv : v)
  {
    o.bytes(kv.first);
    const auto &val = *kv.second;
    if (nostd::holds_alternative<std::string>(val)) o.tag("s").bytes(nostd::get<std::string>(val));
    else if (nostd::holds_alternative<int64_t>(val)) o.tag("i").num(nostd::get<int64_t>(val));
    else if (nostd::holds_alternative<bool>(val)) o.tag("b").boolean(nostd::get<bool>(val));
    else o.tag("other").num(static_cast<long long>(val.index()));
  }
}

// what a third-party detector does: ResourceDetector::Create(attributes, schema)
class PlainDetector : public res::ResourceDetector
{
public:
  PlainDetector(const res::ResourceAttributes &a, const std::string &s) : a_(a), s_(s) {}
  res::Resource Detect() override { return Create(a_, s_); }
  res::ResourceAttributes a_;
  std::string s_;
};

static res::Resource plain(const std::vector<Tok> &op)
{
  return PlainDetector(attrs_from(op, 2), op.size() > 1 ? op[1].s : std::string()).Detect();
}

// RES ra sn ; op ; op ...     op = N schema k t v ... | M i j | C schema k t v ...
static void run_res(const std::vector<Tok> &t, Out &o)
{
  set_env("OTEL_RESOURCE_ATTRIBUTES", t[1]);
  set_env("OTEL_SERVICE_NAME", t[2]);
  auto ops = verif::split_toks(t, ";", 3);
  std::vector<std::unique_ptr<res::Resource>> st;
  for (size_t n = 1; n < ops.size(); n++)
  {
    auto &op = ops[n];
    std::unique_ptr<res::Resource> r;
    if (!op.empty() && op[0].is_tag("N")) r.reset(new res::Resource(plain(op)));
    else if (!op.empty() && op[0].is_tag("M") && op.size() == 3)
    {
      size_t i = op[1].as_ull(), j = op[2].as_ull();
      if (i < st.size() && j < st.size() && st[i] && st[j]) r.reset(new res::Resource(st[i]->Merge(*st[j])));
    }
    else if (!op.empty() && op[0].is_tag("C"))
    {
      try
      {
        r.reset(new res::Resource(res::Resource::Create(attrs_from(op, 2), op.size() > 1 ? op[1].s : std::string())));
      }
      catch (const std::exception &)
      {}
    }
    st.push_back(std::move(r));
  }
  // everything is listed only now, after all operations: operands of earlier merges included
  for (size_t n = 0; n < st.size(); n++)
  {
    if (n) o.tag(";");
    if (st[n]) dump(*st[n], o);
    else o.tag("THROW");
  }
  if (st.empty()) o.tag("EMPTY");
}

// ---------------------------------------------------------------- providers
// what one exporter / reader callback invocation saw
struct Seen { const res::Resource *ptr = nullptr; bool have = false; bool has_data = true; int calls = 0; };
static Seen g_seen;

class SpanExp final : public sdktrace::SpanExporter
{
public:
  std::unique_ptr<sdktrace::Recordable> MakeRecordable() noexcept override { return std::unique_ptr<sdktrace::Recordable>(new sdktrace::SpanData); }
  sdkc::ExportResult Export(const nostd::span<std::unique_ptr<sdktrace::Recordable>> &spans) noexcept override
  {
    for (auto &s : spans)
    {
      auto *d = static_cast<sdktrace::SpanData *>(s.get());
      g_seen.ptr = &d->GetResource(); g_seen.have = true;
    }
    return sdkc::ExportResult::kSuccess;
  }
  bool ForceFlush(std::chrono::microseconds) noexcept override { return true; }
  bool Shutdown(std::chrono::microseconds) noexcept override { return true; }
};

class LogExp final : public sdklogs::LogRecordExporter
{
public:
  std::unique_ptr<sdklogs::Recordable> MakeRecordable() noexcept override { return std::unique_ptr<sdklogs::Recordable>(new sdklogs::ReadWriteLogRecord); }
  sdkc::ExportResult Export(const nostd::span<std::unique_ptr<sdklogs::Recordable>> &recs) noexcept override
  {
    for (auto &s : recs)
    {
      auto *d = static_cast<sdklogs::ReadWriteLogRecord *>(s.get());
      g_seen.ptr = &d->GetResource(); g_seen.have = true;
    }
    return sdkc::ExportResult::kSuccess;
  }
  bool ForceFlush(std::chrono::microseconds) noexcept override { return true; }
  bool Shutdown(std::chrono::microseconds) noexcept override { return true; }
};

class Reader final : public sdkmet::MetricReader
{
public:
  explicit Reader(sdkmet::AggregationTemporality t) : t_(t) {}
  sdkmet::AggregationTemporality GetAggregationTemporality(sdkmet::InstrumentType) const noexcept override { return t_; }
  bool OnForceFlush(std::chrono::microseconds) noexcept override { return true; }
  bool OnShutDown(std::chrono::microseconds) noexcept override { return true; }
  sdkmet::AggregationTemporality t_;
};

struct Triple
{
  std::shared_ptr<sdktrace::TracerProvider> tp;
  std::shared_ptr<sdklogs::LoggerProvider> lp;
  std::shared_ptr<sdkmet::MeterProvider> mp;
  std::shared_ptr<Reader> reader;    // cumulative
  std::shared_ptr<Reader> dreader;   // delta
  nostd::shared_ptr<opentelemetry::metrics::Meter> meter;
  nostd::unique_ptr<opentelemetry::metrics::Counter<uint64_t>> counter;   // created once (one instrument per provider)
  void need_meter() { if (!meter) meter = mp->GetMeter("verif"); }
  void need_counter() { need_meter(); if (!counter) counter = meter->CreateUInt64Counter("c18_counter"); }
};


// PROV ; N schema k t v ... ; ... ; op ; ...     op = E (s|l|m) i | G i | I i | A i | K i | D i
static void run_prov(const std::vector<Tok> &t, Out &o)
{
  auto ops = verif::split_toks(t, ";", 1);
  std::vector<Triple> ps;
  bool first = true;
  for (size_t n = 1; n < ops.size(); n++)
  {
    auto &op = ops[n];
    if (op.empty()) continue;
    if (op[0].is_tag("N"))
    {
      // the caller's resource object dies right after construction: the providers must hold their own
      std::unique_ptr<res::Resource> r(new res::Resource(plain(op)));
      Triple p;
      p.tp.reset(new sdktrace::TracerProvider(std::unique_ptr<sdktrace::SpanProcessor>(new sdktrace::SimpleSpanProcessor(std::unique_ptr<sdktrace::SpanExporter>(new SpanExp))), *r));
      p.lp.reset(new sdklogs::LoggerProvider(std::unique_ptr<sdklogs::LogRecordProcessor>(new sdklogs::SimpleLogRecordProcessor(std::unique_ptr<sdklogs::LogRecordExporter>(new LogExp))), *r));
      p.mp.reset(new sdkmet::MeterProvider(std::unique_ptr<sdkmet::ViewRegistry>(new sdkmet::ViewRegistry()), *r));
      p.reader.reset(new Reader(sdkmet::AggregationTemporality::kCumulative));
      p.dreader.reset(new Reader(sdkmet::AggregationTemporality::kDelta));
      p.mp->AddMetricReader(p.reader);
      p.mp->AddMetricReader(p.dreader);
      r.reset();
      ps.push_back(std::move(p));
      continue;
    }
    const bool is_e = op[0].is_tag("E") && op.size() == 3;
    const bool is_short = op.size() == 2 && (op[0].is_tag("G") || op[0].is_tag("I") || op[0].is_tag("A") || op[0].is_tag("K") || op[0].is_tag("D"));
    if (!is_e && !is_short) continue;
    size_t i = (is_e ? op[2] : op[1]).as_ull();
    char kind = is_e ? op[1].s[0] : 0;                                   // 's' 'l' 'm'
    bool observes = is_e || op[0].is_tag("K") || op[0].is_tag("D");
    if (i >= ps.size())
    {
      if (observes) { if (!first) o.tag(";"); first = false; o.tag("NOPROVIDER"); }
      continue;
    }
    Triple &p = ps[i];
    if (op[0].is_tag("G")) { p.need_meter(); continue; }
    if (op[0].is_tag("I")) { p.need_counter(); continue; }
    if (op[0].is_tag("A") || (is_e && kind == 'm')) { p.need_counter(); p.counter->Add(1); if (!is_e) continue; }
    if (!first) o.tag(";");
    first = false;
    g_seen = Seen();
    char sig = 'm';
    if (is_e && kind == 's')
    {
      sig = 's';
      p.tp->GetTracer("verif")->StartSpan("x")->End();
    }
    else if (is_e && kind == 'l')
    {
      sig = 'l';
      p.lp->GetLogger("verif", "lib")->EmitLogRecord(opentelemetry::logs::Severity::kInfo, "body");
    }
    else
    {
      Reader &rd = op[0].is_tag("D") ? *p.dreader : *p.reader;
      // every invocation of the callback is looked at, batches without data included
      rd.Collect([&](sdkmet::ResourceMetrics &rm) {
        g_seen.calls++;
        g_seen.ptr      = rm.resource_;
        g_seen.have     = true;
        g_seen.has_data = !rm.scope_metric_data_.empty();
        return true;
      });
    }
    if (!g_seen.have) { o.tag("NOTHING"); continue; }
    o.tag(g_seen.has_data ? "d" : "e");
    if (g_seen.ptr == nullptr) { o.tag("NULLRES"); continue; }   // never dereferenced
    // which provider's resource object is referenced?
    long long ref = -1;
    for (size_t k = 0; k < ps.size(); k++)
    {
      const res::Resource *cand = sig == 's' ? &ps[k].tp->GetResource() : sig == 'l' ? &ps[k].lp->GetResource() : &ps[k].mp->GetResource();
      if (cand == g_seen.ptr) ref = static_cast<long long>(k);
    }
    o.num(ref);
    if (ref >= 0) dump(*g_seen.ptr, o);
  }
  if (first) o.tag("EMPTY");
}

// ---------------------------------------------------------------- one case
static void run_case(const std::vector<Tok> &t, Out &o)
{
  if (t.empty()) { o.tag("BADCASE"); return; }
  if (t[0].is_tag("BOOL") && t.size() == 2)
  {
    set_env(kVar, t[1]);
    bool v = true;
    bool r = sdkc::GetBoolEnvironmentVariable(kVar, v);
    o.tag("B").boolean(r).boolean(v);
  }
  else if (t[0].is_tag("UINT") && t.size() == 3)
  {
    set_env(kVar, t[1]);
    std::uint32_t v = 4242;
    errno = t[2].as_ll() ? ERANGE : 0;
    bool r = sdkc::GetUintEnvironmentVariable(kVar, v);
    o.tag("U").boolean(r).unum(v);
  }
  else if (t[0].is_tag("DUR") && t.size() == 2)
  {
    set_env(kVar, t[1]);
    std::chrono::system_clock::duration v{777};
    bool r = sdkc::GetDurationEnvironmentVariable(kVar, v);
    o.tag("D").boolean(r).num(static_cast<long long>(v.count()));
  }
  else if (t[0].is_tag("FLT") && t.size() == 3)
  {
    set_env(kVar, t[1]);
    float v = 4242.0f;
    errno = t[2].as_ll() ? ERANGE : 0;
    bool r = sdkc::GetFloatEnvironmentVariable(kVar, v);
    std::uint32_t bits;
    std::memcpy(&bits, &v, 4);
    o.tag("F").boolean(r).unum(bits);
  }
  else if (t[0].is_tag("STR") && t.size() == 2)
  {
    set_env(kVar, t[1]);
    std::string v = "preset";
    bool r = sdkc::GetStringEnvironmentVariable(kVar, v);
    o.tag("S").boolean(r).bytes(v);
  }
  else if (t[0].is_tag("DIS") && t.size() == 2)
  {
    set_env("OTEL_SDK_DISABLED", t[1]);
    bool dis = sdkc::GetSdkDisabled();
    // a known previous global provider, then the sdk helper with a fresh one
    nostd::shared_ptr<opentelemetry::trace::TracerProvider> t0(new opentelemetry::trace::NoopTracerProvider), t1(new opentelemetry::trace::NoopTracerProvider);
    opentelemetry::trace::Provider::SetTracerProvider(t0);
    sdktrace::Provider::SetTracerProvider(t1);
    bool ti = opentelemetry::trace::Provider::GetTracerProvider().get() == t1.get();
    nostd::shared_ptr<opentelemetry::metrics::MeterProvider> m0(new opentelemetry::metrics::NoopMeterProvider), m1(new opentelemetry::metrics::NoopMeterProvider);
    opentelemetry::metrics::Provider::SetMeterProvider(m0);
    sdkmet::Provider::SetMeterProvider(m1);
    bool mi = opentelemetry::metrics::Provider::GetMeterProvider().get() == m1.get();
    nostd::shared_ptr<opentelemetry::logs::LoggerProvider> l0(new opentelemetry::logs::NoopLoggerProvider), l1(new opentelemetry::logs::NoopLoggerProvider);
    opentelemetry::logs::Provider::SetLoggerProvider(l0);
    sdklogs::Provider::SetLoggerProvider(l1);
    bool li = opentelemetry::logs::Provider::GetLoggerProvider().get() == l1.get();
    unsetenv("OTEL_SDK_DISABLED");
    o.tag("X").boolean(dis).boolean(ti).boolean(mi).boolean(li);
  }
  else if (t[0].is_tag("DET") && t.size() == 3)
  {
    set_env("OTEL_RESOURCE_ATTRIBUTES", t[1]);
    set_env("OTEL_SERVICE_NAME", t[2]);
    auto r = res::OTELResourceDetector().Detect();
    o.tag("R");
    dump(r, o);
  }
  else if (t[0].is_tag("RES") && t.size() >= 3) run_res(t, o);
  else if (t[0].is_tag("PROV")) run_prov(t, o);
  else o.tag("BADCASE");
}

static bool needs_fresh_process(const std::vector<Tok> &t)
{
  if (t.empty() || !t[0].is_tag("RES")) return false;
  for (size_t i = 0; i + 1 < t.size(); i++)
    if (t[i].is_tag(";") && t[i + 1].is_tag("C")) return true;
  return false;
}

int main(int argc, char **argv)
{
  for (const char *n : {"OTEL_RESOURCE_ATTRIBUTES", "OTEL_SERVICE_NAME", "OTEL_SDK_DISABLED", kVar}) unsetenv(n);
  // the SDK's warnings about invalid settings go to stdout by default
  sdkc::internal_log::GlobalLogHandler::SetLogLevel(sdkc::internal_log::LogLevel::None);
  return verif::run_cases(argc, argv, [](const std::vector<Tok> &t, Out &o) {
    if (!needs_fresh_process(t)) { run_case(t, o); return; }
    std::cout.flush();
    std::fflush(nullptr);
    int fd[2];
    if (pipe(fd) != 0) { o.tag("PIPEFAIL"); return; }
    pid_t pid = fork();
    if (pid == 0)
    {
      close(fd[0]);
      Out co;
      run_case(t, co);
      size_t off = 0;
      while (off < co.line.size())
      {
        ssize_t w = write(fd[1], co.line.data() + off, co.line.size() - off);
        if (w <= 0) _exit(3);
        off += static_cast<size_t>(w);
      }
      close(fd[1]);
      _exit(0);
    }
    close(fd[1]);
    std::string got;
    char buf[4096];
    ssize_t n;
    while ((n = read(fd[0], buf, sizeof buf)) > 0) got.append(buf, static_cast<size_t>(n));
    close(fd[0]);
    int status = 0;
    waitpid(pid, &status, 0);
    if (pid < 0 || !WIFEXITED(status) || WEXITSTATUS(status) != 0)
    {
      // a sanitizer report or a crash in the child: die like an in-process failure would
      std::cout.flush();
      std::fprintf(stderr, "ERROR: child process for a Resource::Create case ended with status %d\n", status);
      std::exit(WIFEXITED(status) && WEXITSTATUS(status) ? WEXITSTATUS(status) : 97);
    }
    o.line = got;
  });
}
