// C17 driver under the deterministic scheduler shim (E-sched): the callback registry while a collection is running.
// Compiled against scratch copies (tools/shimcopy.py) of observable_registry.{h,cc} and spin_lock_mutex.h: the registry's
// std::mutex callbacks_m_ is a verif::mutex and SpinLockMutex spins on a verif::atomic, so every lock() on the collect path and in
// AddCallback / RemoveCallback / CleanupCallback is a scheduling point; the user callbacks of this driver call
// verif::this_thread::yield() twice, so a thread can be switched out while a callback runs inside an observation pass.
//
//   ORACE <m> k1..km | I <op> ; ... | T <op> ; <op> ... | T ... | s <tid> <flag> ...
//       m instruments (kinds 0..5 as in OBS cases), two readers (0 delta, 1 cumulative) on one meter;
//       I: operations of the controller before the threads start;  T: one logical thread each
//       op:  A i f s   instrument i ->AddCallback(function f, state s)        R i f s   ->RemoveCallback
//            X i       the last reference to instrument i is dropped          C r       reader r ->Collect
//   observation:  OK || <event history>          (DEADLOCK / STEPLIMIT / CRASH instead of OK when the run did not finish)
//   event history = the scheduler log, entries "<tid> <event>" separated by ";" (tid -1 = controller); the driver's own events:
//       bc r / ec r            Collect of reader r begins / has returned
//       call i f s / done i f s  the callback (f, s) registered on instrument i is entered / returns
//       ba i f s / ra i f s    AddCallback is about to be called / has returned          br / rr   the same for RemoveCallback
//       bx i / rx i            the last reference is about to be dropped / the destructor has returned
//   The return events are logged with no scheduling point after the library's unlock, i.e. at the instant the call returns.
#include <array>
#include <memory>
#include <string>
#include <vector>

#include "opentelemetry/metrics/async_instruments.h"
#include "opentelemetry/metrics/meter.h"
#include "opentelemetry/metrics/observer_result.h"
#include "opentelemetry/sdk/common/global_log_handler.h"
#include "opentelemetry/sdk/metrics/meter_provider.h"
#include "opentelemetry/sdk/metrics/metric_reader.h"
#include "sched/sched_driver.h"

namespace nostd   = opentelemetry::nostd;
namespace sdkm    = opentelemetry::sdk::metrics;
namespace metrics = opentelemetry::metrics;
using verif::Out;
using verif::Sched;
using verif::Tok;
typedef std::vector<Tok> Toks;

static const int MAXI = 4, NS = 4;

struct Slot { int i; int s; };

static std::string key_str(int i, int f, int s) { return std::to_string(i) + " " + std::to_string(f) + " " + std::to_string(s); }

template <int F>
static void race_cb(metrics::ObserverResult res, void *state)
{
  Slot *sl = static_cast<Slot *>(state);
  Sched::I().log("call " + key_str(sl->i, F, sl->s));
  verif::this_thread::yield();
  if (nostd::holds_alternative<nostd::shared_ptr<metrics::ObserverResultT<int64_t>>>(res))
    nostd::get<nostd::shared_ptr<metrics::ObserverResultT<int64_t>>>(res)->Observe(int64_t(10 * sl->i + sl->s));
  else
    nostd::get<nostd::shared_ptr<metrics::ObserverResultT<double>>>(res)->Observe(double(10 * sl->i + sl->s));
  verif::this_thread::yield();
  Sched::I().log("done " + key_str(sl->i, F, sl->s));
}

class TestReader : public sdkm::MetricReader
{
public:
  explicit TestReader(sdkm::AggregationTemporality t) : t_(t) {}
  sdkm::AggregationTemporality GetAggregationTemporality(sdkm::InstrumentType) const noexcept override { return t_; }

private:
  bool OnForceFlush(std::chrono::microseconds) noexcept override { return true; }
  bool OnShutDown(std::chrono::microseconds) noexcept override { return true; }
  void OnInitialized() noexcept override {}
  sdkm::AggregationTemporality t_;
};

struct Op { char kind; int a, b, c; };

static bool parse_ops(const Toks &sec, int m, std::vector<Op> &out)
{
  if (sec.size() == 1) return true;
  for (auto &op : verif::split_toks(sec, ";", 1))
  {
    if (op.empty() || op[0].kind != Tok::TAG || op[0].s.size() != 1) return false;
    char k = op[0].s[0];
    auto arg = [&](size_t j) { return int(op[j].as_ll()); };
    auto in  = [](int v, int hi) { return v >= 0 && v < hi; };
    if ((k == 'A' || k == 'R') && op.size() == 4 && in(arg(1), m) && in(arg(2), 2) && in(arg(3), NS)) out.push_back({k, arg(1), arg(2), arg(3)});
    else if (k == 'X' && op.size() == 2 && in(arg(1), m)) out.push_back({k, arg(1), 0, 0});
    else if (k == 'C' && op.size() == 2 && in(arg(1), 2)) out.push_back({k, arg(1), 0, 0});
    else return false;
  }
  return true;
}

static void run_orace(const Toks &t, Out &o)
{
  auto secs = verif::split_toks(t, "|");
  if (secs.size() < 3 || secs[0].size() < 3) { o.tag("BADCASE"); return; }
  Sched &S = Sched::I();
  S.reset();
  int m = int(secs[0][1].as_ll());
  if (m < 1 || m > MAXI || secs[0].size() != size_t(2 + m)) { o.tag("BADCASE"); return; }
  std::vector<int> kind(m);
  for (int i = 0; i < m; i++)
  {
    kind[i] = int(secs[0][2 + i].as_ll());
    if (kind[i] < 0 || kind[i] > 5) { o.tag("BADCASE"); return; }
  }
  std::vector<Op> init;
  std::vector<std::vector<Op>> threads;
  bool have_sched = false;
  for (size_t k = 1; k < secs.size(); k++)
  {
    if (secs[k].empty() || have_sched) { o.tag("BADCASE"); return; }
    if (secs[k][0].is_tag("s"))
    {
      S.set_schedule(verif::parse_schedule(Toks(secs[k].begin() + 1, secs[k].end())));
      have_sched = true;
    }
    else if (secs[k][0].is_tag("I") && k == 1)
    {
      if (!parse_ops(secs[k], m, init)) { o.tag("BADCASE"); return; }
    }
    else if (secs[k][0].is_tag("T"))
    {
      threads.emplace_back();
      if (!parse_ops(secs[k], m, threads.back())) { o.tag("BADCASE"); return; }
    }
    else { o.tag("BADCASE"); return; }
  }
  if (!have_sched) { o.tag("BADCASE"); return; }

  std::string history;
  std::vector<std::unique_ptr<Slot>> slots;
  for (int i = 0; i < MAXI; i++)
    for (int s = 0; s < NS; s++) slots.emplace_back(new Slot{i, s});
  {
    sdkm::MeterProvider mp;
    std::vector<std::shared_ptr<sdkm::MetricReader>> readers;
    readers.emplace_back(new TestReader(sdkm::AggregationTemporality::kDelta));
    readers.emplace_back(new TestReader(sdkm::AggregationTemporality::kCumulative));
    for (auto &r : readers) mp.AddMetricReader(r);
    auto meter = mp.GetMeter("m", "1", "s");
    std::vector<nostd::shared_ptr<metrics::ObservableInstrument>> async(m);
    std::vector<bool> alive(m, true);
    for (int i = 0; i < m; i++)
    {
      const std::string nm = std::string("i") + char('0' + i);
      switch (kind[i])
      {
        case 0: async[i] = meter->CreateInt64ObservableCounter(nm, "d", "u"); break;
        case 1: async[i] = meter->CreateInt64ObservableUpDownCounter(nm, "d", "u"); break;
        case 2: async[i] = meter->CreateInt64ObservableGauge(nm, "d", "u"); break;
        case 3: async[i] = meter->CreateDoubleObservableCounter(nm, "d", "u"); break;
        case 4: async[i] = meter->CreateDoubleObservableUpDownCounter(nm, "d", "u"); break;
        default: async[i] = meter->CreateDoubleObservableGauge(nm, "d", "u"); break;
      }
    }
    auto exec = [&](const Op &op) {
      if (op.kind == 'A' || op.kind == 'R')
      {
        if (!alive[size_t(op.a)]) return;   // no handle any more: nothing can be called
        Slot *sl = slots[size_t(op.a * NS + op.c)].get();
        auto fn  = op.b == 0 ? race_cb<0> : race_cb<1>;
        const std::string k = key_str(op.a, op.b, op.c);
        if (op.kind == 'A')
        {
          S.log("ba " + k);
          async[size_t(op.a)]->AddCallback(fn, sl);
          S.log("ra " + k);
        }
        else
        {
          S.log("br " + k);
          async[size_t(op.a)]->RemoveCallback(fn, sl);
          S.log("rr " + k);
        }
      }
      else if (op.kind == 'X')
      {
        if (!alive[size_t(op.a)]) return;
        alive[size_t(op.a)] = false;
        S.log("bx " + std::to_string(op.a));
        async[size_t(op.a)] = nostd::shared_ptr<metrics::ObservableInstrument>{};
        S.log("rx " + std::to_string(op.a));
      }
      else
      {
        S.log("bc " + std::to_string(op.a));
        readers[size_t(op.a)]->Collect([](sdkm::ResourceMetrics &) { return true; });
        S.log("ec " + std::to_string(op.a));
      }
    };
    for (auto &op : init) exec(op);
    for (size_t ti = 0; ti < threads.size(); ti++)
      S.spawn([&, ti] {
        for (auto &op : threads[ti]) exec(op);
      });
    S.set_step_limit(20000);
    if (!threads.empty()) S.run_all();
    // one more collection by the controller, after all threads have finished
    exec(Op{'C', 1, 0, 0});
    history = S.log_line();   // the destructors of the instruments still alive are not part of the history
  }
  o.tag("OK").tag("||");
  o.add(history);
}

int main(int argc, char **argv)
{
  using namespace opentelemetry::sdk::common::internal_log;
  GlobalLogHandler::SetLogHandler(nostd::shared_ptr<LogHandler>(new NoopLogHandler()));
  GlobalLogHandler::SetLogLevel(LogLevel::None);
  return verif::run_cases_forked(argc, argv, [](const Toks &t, Out &o) {
    if (!t.empty() && t[0].is_tag("ORACE")) run_orace(t, o);
    else o.tag("BADCASE");
  });
}
