// Code shared by harness/c04_driver.cc and harness/c04_sched_driver.cc: caller memory (every buffer handed to the API in
// its own exact-size heap block, complemented and freed right after the call), building AttributeValues / KeyValueIterables
// from case tokens, performing one span operation, the harness exporter, and the canonical dump of an exported SpanData.
#pragma once
#include <algorithm>
#include <atomic>
#include <thread>
#include <chrono>
#include <cstring>
#include <map>
#include <memory>
#include <mutex>
#include <string>
#include <vector>

#include "opentelemetry/common/attribute_value.h"
#include "opentelemetry/common/key_value_iterable.h"
#include "opentelemetry/common/timestamp.h"
#include "opentelemetry/sdk/common/attribute_utils.h"
#include "opentelemetry/sdk/common/global_log_handler.h"
#include "opentelemetry/sdk/resource/resource.h"
#include "opentelemetry/sdk/trace/batch_span_processor.h"
#include "opentelemetry/sdk/trace/batch_span_processor_options.h"
#include "opentelemetry/sdk/trace/exporter.h"
#include "opentelemetry/sdk/trace/processor.h"
#include "opentelemetry/sdk/trace/samplers/always_off.h"
#include "opentelemetry/sdk/trace/samplers/always_on.h"
#include "opentelemetry/sdk/trace/simple_processor.h"
#include "opentelemetry/sdk/trace/span_data.h"
#include "opentelemetry/sdk/trace/tracer_provider.h"
#include "opentelemetry/trace/span.h"
#include "opentelemetry/trace/span_context.h"
#include "opentelemetry/trace/span_context_kv_iterable.h"
#include "opentelemetry/trace/span_startoptions.h"
#include "opentelemetry/trace/trace_state.h"
#include "opentelemetry/trace/tracer.h"
#include "common/verif_io.h"

namespace nostd  = opentelemetry::nostd;
namespace common = opentelemetry::common;
namespace trace  = opentelemetry::trace;
namespace tsdk   = opentelemetry::sdk::trace;
namespace sdkc   = opentelemetry::sdk::common;
namespace res    = opentelemetry::sdk::resource;
using verif::Out;
using verif::Tok;
typedef std::vector<Tok> Toks;

static const char kTrash[] = "!trashed!";

// ------------------------------------------------------------------ caller memory of one API call
struct Arena
{
  struct Blk { void *p; size_t bytes; bool views; size_t n; };
  std::vector<Blk> blks;

  void *raw(size_t bytes)
  {
    void *p = std::malloc(bytes);          // malloc(0): a valid pointer with no accessible byte
    blks.push_back({p, bytes, false, 0});
    return p;
  }
  nostd::string_view str(const std::string &s)
  {
    char *p = static_cast<char *>(raw(s.size()));
    if (!s.empty()) std::memcpy(p, s.data(), s.size());
    return nostd::string_view(p, s.size());
  }
  const char *cstr(const std::string &s)
  {
    char *p = static_cast<char *>(raw(s.size() + 1));
    if (!s.empty()) std::memcpy(p, s.data(), s.size());
    p[s.size()] = '\0';
    return p;
  }
  template <class T>
  T *arr(size_t n)
  {
    return static_cast<T *>(raw(n * sizeof(T)));
  }
  nostd::string_view *views(size_t n)
  {
    nostd::string_view *p = static_cast<nostd::string_view *>(std::malloc(n * sizeof(nostd::string_view)));
    for (size_t i = 0; i < n; i++) new (p + i) nostd::string_view();
    blks.push_back({p, n * sizeof(nostd::string_view), true, n});
    return p;
  }
  // what the caller does to its buffers once the call has returned
  void trash_and_free()
  {
    for (auto &b : blks)
    {
      if (b.views)
      {
        nostd::string_view *v = static_cast<nostd::string_view *>(b.p);
        for (size_t i = 0; i < b.n; i++) v[i] = nostd::string_view(kTrash, sizeof(kTrash) - 1);
      }
      else
      {
        unsigned char *c = static_cast<unsigned char *>(b.p);
        for (size_t i = 0; i < b.bytes; i++) c[i] = static_cast<unsigned char>(~c[i]);
      }
    }
    for (auto &b : blks) std::free(b.p);
    blks.clear();
  }
  ~Arena() { trash_and_free(); }
};

// a KeyValueIterable over a caller-owned table of (key view, value)
struct KV : public common::KeyValueIterable
{
  std::vector<std::pair<nostd::string_view, common::AttributeValue>> *items;
  KV() : items(new std::vector<std::pair<nostd::string_view, common::AttributeValue>>()) {}
  ~KV() override { trash(); }
  KV(const KV &)            = delete;
  KV &operator=(const KV &) = delete;
  bool ForEachKeyValue(nostd::function_ref<bool(nostd::string_view, common::AttributeValue)> cb) const noexcept override
  {
    for (auto &kv : *items)
      if (!cb(kv.first, kv.second)) return false;
    return true;
  }
  size_t size() const noexcept override { return items->size(); }
  void trash()
  {
    if (!items) return;
    for (auto &kv : *items)
    {
      kv.first  = nostd::string_view(kTrash, sizeof(kTrash) - 1);
      kv.second = nostd::string_view(kTrash, sizeof(kTrash) - 1);
    }
    delete items;
    items = nullptr;
  }
};

struct Links : public trace::SpanContextKeyValueIterable
{
  std::vector<std::pair<trace::SpanContext, std::unique_ptr<KV>>> items;
  bool ForEachKeyValue(nostd::function_ref<bool(trace::SpanContext, const common::KeyValueIterable &)> cb) const noexcept override
  {
    for (auto &l : items)
      if (!cb(l.first, *l.second)) return false;
    return true;
  }
  size_t size() const noexcept override { return items.size(); }
};

static bool is_int(const Tok &t) { return t.kind == Tok::INT; }
static bool is_bytes(const Tok &t) { return t.kind == Tok::BYTES; }

// attr := x<key> <type> payload, t[i] is the type tag
static bool make_val(const Toks &t, size_t i, Arena &A, common::AttributeValue &out)
{
  if (i >= t.size() || t[i].kind != Tok::TAG) return false;
  const std::string &ty = t[i].s;
  size_t n              = t.size() - i - 1;
  auto ints_ok          = [&]() { for (size_t j = i + 1; j < t.size(); j++) if (!is_int(t[j])) return false; return true; };
  auto bytes_ok         = [&]() { for (size_t j = i + 1; j < t.size(); j++) if (!is_bytes(t[j])) return false; return true; };
  if (ty == "b" || ty == "i" || ty == "u" || ty == "l" || ty == "d" || ty == "U")
  {
    if (n != 1 || !is_int(t[i + 1])) return false;
    const Tok &v = t[i + 1];
    if (ty == "b") out = bool(v.as_ll() != 0);
    else if (ty == "i") out = int32_t(v.as_ll());
    else if (ty == "u") out = uint32_t(v.as_ull());
    else if (ty == "l") out = int64_t(v.as_ll());
    else if (ty == "U") out = uint64_t(v.as_ull());
    else { uint64_t bits = v.as_ull(); double d; std::memcpy(&d, &bits, 8); out = d; }
    return true;
  }
  if (ty == "c" || ty == "s")
  {
    if (n != 1 || !is_bytes(t[i + 1])) return false;
    if (ty == "c") out = A.cstr(t[i + 1].s);
    else out = A.str(t[i + 1].s);
    return true;
  }
  if (ty == "as")
  {
    if (!bytes_ok()) return false;
    nostd::string_view *v = A.views(n);
    for (size_t j = 0; j < n; j++) v[j] = A.str(t[i + 1 + j].s);
    out = nostd::span<const nostd::string_view>(v, n);
    return true;
  }
  if (!ints_ok()) return false;
#define ARR(TAG, T, CONV)                                            \
  if (ty == TAG)                                                     \
  {                                                                  \
    T *p = A.arr<T>(n);                                              \
    for (size_t j = 0; j < n; j++) p[j] = T(t[i + 1 + j].CONV());    \
    out = nostd::span<const T>(p, n);                                \
    return true;                                                     \
  }
  ARR("ab", bool, as_ll)
  ARR("ai", int32_t, as_ll)
  ARR("au", uint32_t, as_ull)
  ARR("al", int64_t, as_ll)
  ARR("aU", uint64_t, as_ull)
  ARR("a8", uint8_t, as_ull)
#undef ARR
  if (ty == "ad")
  {
    double *p = A.arr<double>(n);
    for (size_t j = 0; j < n; j++) { uint64_t bits = t[i + 1 + j].as_ull(); std::memcpy(&p[j], &bits, 8); }
    out = nostd::span<const double>(p, n);
    return true;
  }
  return false;
}

// parts[1..] are attrs
static bool make_kv(const std::vector<Toks> &parts, Arena &A, KV &kv)
{
  for (size_t p = 1; p < parts.size(); p++)
  {
    const Toks &a = parts[p];
    if (a.size() < 2 || !is_bytes(a[0])) return false;
    common::AttributeValue v;
    if (!make_val(a, 1, A, v)) return false;
    kv.items->emplace_back(A.str(a[0].s), v);
  }
  return true;
}

// ------------------------------------------------------------------ exporter side
struct Store
{
  std::mutex mu;
  std::vector<std::unique_ptr<tsdk::Recordable>> got;
};

class HarnessExporter final : public tsdk::SpanExporter
{
public:
  explicit HarnessExporter(std::shared_ptr<Store> s) : store_(std::move(s)) {}
  std::unique_ptr<tsdk::Recordable> MakeRecordable() noexcept override
  {
    return std::unique_ptr<tsdk::Recordable>(new tsdk::SpanData);
  }
  sdkc::ExportResult Export(const nostd::span<std::unique_ptr<tsdk::Recordable>> &spans) noexcept override
  {
    std::lock_guard<std::mutex> g(store_->mu);
    for (auto &r : spans) store_->got.push_back(std::move(r));
    return sdkc::ExportResult::kSuccess;
  }
  bool ForceFlush(std::chrono::microseconds) noexcept override { return true; }
  bool Shutdown(std::chrono::microseconds) noexcept override { return true; }

private:
  std::shared_ptr<Store> store_;
};

struct RawResource : public res::Resource
{
  explicit RawResource(const res::ResourceAttributes &a) : res::Resource(a) {}
};

// ------------------------------------------------------------------ canonical dump
static void print_owned(const sdkc::OwnedAttributeValue &v, Out &o)
{
  switch (v.index())
  {
    case sdkc::kTypeBool: o.tag("b").num(nostd::get<bool>(v) ? 1 : 0); break;
    case sdkc::kTypeInt: o.tag("i").num(nostd::get<int32_t>(v)); break;
    case sdkc::kTypeUInt: o.tag("u").unum(nostd::get<uint32_t>(v)); break;
    case sdkc::kTypeInt64: o.tag("l").num(nostd::get<int64_t>(v)); break;
    case sdkc::kTypeUInt64: o.tag("U").unum(nostd::get<uint64_t>(v)); break;
    case sdkc::kTypeDouble: { double d = nostd::get<double>(v); uint64_t b; std::memcpy(&b, &d, 8); o.tag("d").unum(b); break; }
    case sdkc::kTypeString: o.tag("s").bytes(nostd::get<std::string>(v)); break;
    case sdkc::kTypeSpanBool: o.tag("ab"); for (bool x : nostd::get<std::vector<bool>>(v)) o.num(x ? 1 : 0); break;
    case sdkc::kTypeSpanInt: o.tag("ai"); for (auto x : nostd::get<std::vector<int32_t>>(v)) o.num(x); break;
    case sdkc::kTypeSpanUInt: o.tag("au"); for (auto x : nostd::get<std::vector<uint32_t>>(v)) o.unum(x); break;
    case sdkc::kTypeSpanInt64: o.tag("al"); for (auto x : nostd::get<std::vector<int64_t>>(v)) o.num(x); break;
    case sdkc::kTypeSpanUInt64: o.tag("aU"); for (auto x : nostd::get<std::vector<uint64_t>>(v)) o.unum(x); break;
    case sdkc::kTypeSpanByte: o.tag("a8"); for (auto x : nostd::get<std::vector<uint8_t>>(v)) o.unum(x); break;
    case sdkc::kTypeSpanDouble:
      o.tag("ad");
      for (double d : nostd::get<std::vector<double>>(v)) { uint64_t b; std::memcpy(&b, &d, 8); o.unum(b); }
      break;
    case sdkc::kTypeSpanString: o.tag("as"); for (auto &x : nostd::get<std::vector<std::string>>(v)) o.bytes(x); break;
    default: o.tag("UNKNOWN_ALTERNATIVE");
  }
}

template <class M>
static void print_map(const M &m, Out &o)
{
  std::vector<std::pair<std::string, const sdkc::OwnedAttributeValue *>> v;
  for (auto &kv : m) v.emplace_back(kv.first, &kv.second);
  std::sort(v.begin(), v.end(), [](const auto &a, const auto &b) { return a.first < b.first; });   // unsigned bytes
  for (auto &kv : v) { o.tag(";").bytes(kv.first); print_owned(*kv.second, o); }
}

struct Window { long long lo, hi; bool implicit; };

// a clock-dependent value is printed as NOW when it lies in the window the driver measured around the call
// (and, for the 2nd.. processor, equals what the first processor got); otherwise the number itself
struct Clocked
{
  std::vector<long long> first;   // raw values seen while dumping processor 0
  size_t pos = 0;
  bool is_first = true;
  void put(long long raw, const Window &w, Out &o)
  {
    bool ok = w.implicit && raw >= w.lo && raw <= w.hi;
    if (w.implicit)
    {
      if (is_first) first.push_back(raw);
      else { ok = ok && pos < first.size() && first[pos] == raw; pos++; }
    }
    if (ok) o.tag("NOW"); else o.num(raw);
  }
};

static long long sys_now() { return std::chrono::duration_cast<std::chrono::nanoseconds>(std::chrono::system_clock::now().time_since_epoch()).count(); }
static long long steady_now() { return std::chrono::duration_cast<std::chrono::nanoseconds>(std::chrono::steady_clock::now().time_since_epoch()).count(); }

static void print_ctx(const trace::SpanContext &c, Out &o)
{
  char tid[16], sid[8];
  c.trace_id().CopyBytesTo(nostd::span<uint8_t, 16>(reinterpret_cast<uint8_t *>(tid), 16));
  c.span_id().CopyBytesTo(nostd::span<uint8_t, 8>(reinterpret_cast<uint8_t *>(sid), 8));
  o.bytes(tid, 16).bytes(sid, 8).num(c.trace_flags().flags()).boolean(c.IsRemote()).bytes(c.trace_state()->ToHeader());
}

static void print_span(const tsdk::SpanData &d, const trace::SpanContext &span_ctx, const Window &wstart, const Window &wdur,
                       const std::vector<Window> &wevents, size_t par_events, Clocked &ck, Out &o)
{
  o.tag("N").bytes(std::string(d.GetName().data(), d.GetName().size())).num(static_cast<int>(d.GetSpanKind()));
  ck.put(d.GetStartTime().time_since_epoch().count(), wstart, o);
  ck.put(d.GetDuration().count(), wdur, o);
  o.num(static_cast<int>(d.GetStatus())).bytes(std::string(d.GetDescription().data(), d.GetDescription().size()));
  o.boolean(d.GetSpanContext() == span_ctx && d.GetSpanContext().IsValid() && d.GetFlags() == span_ctx.trace_flags());
  o.tag("|").tag("A");
  print_map(d.GetAttributes(), o);
  // the first [par_events] events were added by concurrent threads: grouped by the first byte of the name
  // (= the issuing thread), order within a group kept
  std::vector<const tsdk::SpanDataEvent *> evs;
  for (auto &e : d.GetEvents()) evs.push_back(&e);
  std::stable_sort(evs.begin(), evs.begin() + std::min(par_events, evs.size()), [](const tsdk::SpanDataEvent *a, const tsdk::SpanDataEvent *b) {
    std::string x = a->GetName(), y = b->GetName();
    return (x.empty() ? -1 : static_cast<unsigned char>(x[0])) < (y.empty() ? -1 : static_cast<unsigned char>(y[0]));
  });
  size_t k = 0;
  for (auto *ep : evs)
  {
    auto &e = *ep;
    o.tag("|").tag("E").bytes(e.GetName());
    Window w = k < wevents.size() ? wevents[k] : Window{0, -1, false};
    ck.put(e.GetTimestamp().time_since_epoch().count(), w, o);
    print_map(e.GetAttributes(), o);
    k++;
  }
  for (auto &l : d.GetLinks())
  {
    o.tag("|").tag("L");
    print_ctx(l.GetSpanContext(), o);
    print_map(l.GetAttributes(), o);
  }
  o.tag("|").tag("R");
  print_map(d.GetResource().GetAttributes(), o);
  auto &sc = d.GetInstrumentationScope();
  o.tag("|").tag("S").bytes(sc.GetName()).bytes(sc.GetVersion()).bytes(sc.GetSchemaURL());
}

// after a processor's copy has been dumped it is scribbled over: a later processor sharing state with it would show
static void scribble(tsdk::SpanData &d)
{
  d.SetName("scribbled");
  d.SetStatus(trace::StatusCode::kError, "scribbled");
  std::vector<std::string> keys;
  for (auto &kv : d.GetAttributes()) keys.push_back(kv.first);
  for (auto &k : keys) d.SetAttribute(k, "scribbled");
  d.SetAttribute("scribbled", true);
  d.AddEvent("scribbled", common::SystemTimestamp(std::chrono::nanoseconds(1)));
  d.SetDuration(std::chrono::nanoseconds(-1));
}

// ------------------------------------------------------------------ one operation
struct OpCtx
{
  std::vector<bool> q;            // answers of IsRecording
  std::vector<Window> wevents;    // the window of every AddEvent call made while the span had not been ended by this driver
};
struct EndNote
{
  bool ended = false;
  Window we_steady{0, 0, true};
  void note(long long explicit_end, long long lo, long long hi)
  {
    if (ended) return;
    ended = true;
    if (explicit_end != 0) we_steady = Window{explicit_end, explicit_end, false};
    else we_steady = Window{lo, hi, true};
  }
};

static bool do_op(const Toks &sec, trace::Span &span, OpCtx &cx, EndNote &en, bool allow_end)
{
  auto parts    = verif::split_toks(sec, ";");
  const Toks &h = parts[0];
  if (h.empty()) return false;
  Arena A;
  if (h[0].is_tag("SA"))
  {
    if (h.size() < 3 || !is_bytes(h[1]) || parts.size() != 1) return false;
    common::AttributeValue v;
    if (!make_val(h, 2, A, v)) return false;
    nostd::string_view k = A.str(h[1].s);
    span.SetAttribute(k, v);
  }
  else if (h[0].is_tag("EV0") || h[0].is_tag("EVT") || h[0].is_tag("EVA") || h[0].is_tag("EVTA"))
  {
    bool has_ts = h[0].is_tag("EVT") || h[0].is_tag("EVTA"), has_a = h[0].is_tag("EVA") || h[0].is_tag("EVTA");
    if (h.size() != (has_ts ? 3u : 2u) || !is_bytes(h[1]) || (has_ts && !is_int(h[2])) || (!has_a && parts.size() != 1)) return false;
    KV kv;
    if (!make_kv(parts, A, kv)) return false;
    nostd::string_view n = A.str(h[1].s);
    Window w{sys_now(), 0, !has_ts};
    if (has_ts && has_a) span.AddEvent(n, common::SystemTimestamp(std::chrono::nanoseconds(h[2].as_ll())), kv);
    else if (has_ts) span.AddEvent(n, common::SystemTimestamp(std::chrono::nanoseconds(h[2].as_ll())));
    else if (has_a) span.AddEvent(n, kv);
    else span.AddEvent(n);
    w.hi = sys_now();
    if (!en.ended) cx.wevents.push_back(w);
    kv.trash();
  }
  else if (h[0].is_tag("SS"))
  {
    if (h.size() != 3 || !is_int(h[1]) || !is_bytes(h[2]) || parts.size() != 1) return false;
    nostd::string_view d = A.str(h[2].s);
    span.SetStatus(static_cast<trace::StatusCode>(h[1].as_ll()), d);
  }
  else if (h[0].is_tag("UN"))
  {
    if (h.size() != 2 || !is_bytes(h[1]) || parts.size() != 1) return false;
    nostd::string_view n = A.str(h[1].s);
    span.UpdateName(n);
  }
  else if (h[0].is_tag("END"))
  {
    if (!allow_end || h.size() != 2 || !is_int(h[1]) || parts.size() != 1) return false;
    trace::EndSpanOptions eo;
    if (h[1].as_ll() != 0) eo.end_steady_time = common::SteadyTimestamp(std::chrono::nanoseconds(h[1].as_ll()));
    long long lo = steady_now();
    span.End(eo);
    en.note(h[1].as_ll(), lo, steady_now());
  }
  else if (h[0].is_tag("IR"))
  {
    if (h.size() != 1 || parts.size() != 1) return false;
    cx.q.push_back(span.IsRecording());
  }
  else return false;
  return true;
}

// thread i may only write keys / add events whose first byte is the digit i; only thread 0 renames, sets the status, asks
static bool thread_op_ok(const Toks &sec, size_t ti)
{
  if (sec.empty()) return false;
  const Tok &t = sec[0];
  if (t.is_tag("SA") || t.is_tag("EV0") || t.is_tag("EVT") || t.is_tag("EVA") || t.is_tag("EVTA"))
    return sec.size() >= 2 && is_bytes(sec[1]) && !sec[1].s.empty() && sec[1].s[0] == char('0' + ti);
  if (t.is_tag("SS") || t.is_tag("UN") || t.is_tag("IR")) return ti == 0;
  return false;
}

