// C07 driver: explicit-bucket histogram aggregation.
//   AGG cases drive {Long,Double}HistogramAggregation objects directly (Aggregate / Merge / Diff / ToPoint),
//   RDR cases drive a real MeterProvider + histogram instrument (optionally with a view that configures the
//   boundaries) + 1..4 MetricReaders of mixed temporality over an arbitrary interleaving of Record and Collect.
// Case / observation format: see coq/C07/Glue.v.  Doubles travel as integers holding their bit pattern.
#include <algorithm>
#include <cstring>
#include <map>
#include <memory>
#include <string>
#include <vector>

#include "opentelemetry/context/context.h"
#include "opentelemetry/metrics/meter.h"
#include "opentelemetry/metrics/sync_instruments.h"
#include "opentelemetry/sdk/common/global_log_handler.h"
#include "opentelemetry/sdk/metrics/aggregation/aggregation_config.h"
#include "opentelemetry/sdk/metrics/aggregation/default_aggregation.h"
#include "opentelemetry/sdk/metrics/aggregation/histogram_aggregation.h"
#include "opentelemetry/sdk/metrics/data/metric_data.h"
#include "opentelemetry/sdk/metrics/data/point_data.h"
#include "opentelemetry/sdk/metrics/export/metric_producer.h"
#include "opentelemetry/sdk/metrics/instruments.h"
#include "opentelemetry/sdk/metrics/meter_provider.h"
#include "opentelemetry/sdk/metrics/metric_reader.h"
#include "opentelemetry/sdk/metrics/view/instrument_selector.h"
#include "opentelemetry/sdk/metrics/view/meter_selector.h"
#include "opentelemetry/sdk/metrics/view/view.h"

#include "common/verif_io.h"

namespace nostd = opentelemetry::nostd;
namespace sdkm  = opentelemetry::sdk::metrics;
using verif::Out;
using verif::Tok;

static double bits_to_double(uint64_t b)
{
  double d;
  std::memcpy(&d, &b, sizeof d);
  return d;
}
// canonical bit pattern: the sign of zero and the payload of a NaN are not observed
static uint64_t double_to_bits(double d)
{
  if (d != d) return 0x7ff8000000000000ull;
  if (d == 0) return 0;
  uint64_t b;
  std::memcpy(&b, &d, sizeof b);
  return b;
}

static bool print_value(const sdkm::ValueType &v, bool is_long, Out &o)
{
  if (is_long)
  {
    if (!nostd::holds_alternative<int64_t>(v)) { o.tag("BADTYPE"); return false; }
    o.num(nostd::get<int64_t>(v));
  }
  else
  {
    if (!nostd::holds_alternative<double>(v)) { o.tag("BADTYPE"); return false; }
    o.unum(double_to_bits(nostd::get<double>(v)));
  }
  return true;
}

static void print_point(const sdkm::HistogramPointData &p, bool is_long, Out &o)
{
  o.unum(p.boundaries_.size());
  for (double b : p.boundaries_) o.unum(double_to_bits(b));
  for (uint64_t c : p.counts_) o.unum(c);
  o.unum(p.count_);
  print_value(p.sum_, is_long, o);
  o.boolean(p.record_min_max_);
  if (p.record_min_max_)
  {
    print_value(p.min_, is_long, o);
    print_value(p.max_, is_long, o);
  }
  else
  {
    o.tag("-").tag("-");
  }
}

struct Cfg
{
  bool has = false;
  std::shared_ptr<sdkm::HistogramAggregationConfig> cfg;
};

// <cfg> ::= DEF | B <rmm> b1 .. bk, occupying t[from..end)
static bool parse_cfg(const std::vector<Tok> &t, size_t from, Cfg &c)
{
  if (from >= t.size()) return false;
  if (t[from].is_tag("DEF")) return from + 1 == t.size();
  if (!t[from].is_tag("B") || from + 1 >= t.size()) return false;
  c.has = true;
  c.cfg.reset(new sdkm::HistogramAggregationConfig());
  c.cfg->record_min_max_ = t[from + 1].as_ll() != 0;
  for (size_t i = from + 2; i < t.size(); i++) c.cfg->boundaries_.push_back(bits_to_double(t[i].as_ull()));
  return true;
}

static const int NREG = 8;

static void run_agg(const std::vector<std::vector<Tok>> &ch, bool is_long, Out &o)
{
  Cfg c;
  if (!parse_cfg(ch[0], 2, c)) { o.tag("BADCASE"); return; }
  const sdkm::AggregationConfig *cp = c.has ? c.cfg.get() : nullptr;
  sdkm::InstrumentDescriptor desc{"h", "d", "u", sdkm::InstrumentType::kHistogram,
                                  is_long ? sdkm::InstrumentValueType::kLong : sdkm::InstrumentValueType::kDouble};
  auto fresh = [&](int r) {
    // the two public factory paths the storages use
    return (r % 2 == 0) ? sdkm::DefaultAggregation::CreateAggregation(sdkm::AggregationType::kHistogram, desc, cp)
                        : sdkm::DefaultAggregation::CreateAggregation(desc, cp);
  };
  std::unique_ptr<sdkm::Aggregation> regs[NREG];
  for (int r = 0; r < NREG; r++) regs[r] = fresh(r);
  o.tag("OK");
  for (size_t i = 1; i < ch.size(); i++)
  {
    const auto &op = ch[i];
    if (op.size() < 2) { o.tag("BADCASE"); return; }
    int r = int(op[1].as_ll());
    if (r < 0 || r >= NREG) { o.tag("BADCASE"); return; }
    if (op[0].is_tag("N") && op.size() == 2) regs[r] = fresh(r);
    else if (op[0].is_tag("P") && op.size() == 2)
    {
      auto pt = regs[r]->ToPoint();
      o.tag("P");
      if (!nostd::holds_alternative<sdkm::HistogramPointData>(pt)) { o.tag("NOTHISTOGRAM"); continue; }
      print_point(nostd::get<sdkm::HistogramPointData>(pt), is_long, o);
    }
    else if ((op[0].is_tag("A") || op[0].is_tag("X")) && op.size() == 3)
    {
      bool as_long = is_long == op[0].is_tag("A");
      if (as_long) regs[r]->Aggregate(static_cast<int64_t>(op[2].as_ll()));
      else regs[r]->Aggregate(bits_to_double(op[2].as_ull()));
    }
    else if ((op[0].is_tag("M") || op[0].is_tag("D")) && op.size() == 4)
    {
      int a = int(op[2].as_ll()), b = int(op[3].as_ll());
      if (a < 0 || a >= NREG || b < 0 || b >= NREG) { o.tag("BADCASE"); return; }
      auto res = op[0].is_tag("M") ? regs[a]->Merge(*regs[b]) : regs[a]->Diff(*regs[b]);
      regs[r] = std::move(res);
    }
    else { o.tag("BADCASE"); return; }
  }
}

class TestReader : public sdkm::MetricReader
{
public:
  explicit TestReader(sdkm::AggregationTemporality t) : t_(t) {}
  sdkm::AggregationTemporality GetAggregationTemporality(sdkm::InstrumentType) const noexcept override { return t_; }

private:
  bool OnForceFlush(std::chrono::microseconds) noexcept override { return true; }
  bool OnShutDown(std::chrono::microseconds) noexcept override { return true; }
  void OnInitialized() noexcept override {}
  sdkm::AggregationTemporality t_;
};

static void run_rdr(const std::vector<std::vector<Tok>> &ch, bool is_long, Out &o)
{
  const auto &hd = ch[0];
  if (hd.size() < 4) { o.tag("BADCASE"); return; }
  int n = int(hd[2].as_ll());
  if (n < 1 || n > 4 || hd.size() < size_t(3 + n + 1)) { o.tag("BADCASE"); return; }
  Cfg c;
  if (!parse_cfg(hd, 3 + n, c)) { o.tag("BADCASE"); return; }

  sdkm::MeterProvider mp;
  std::vector<std::shared_ptr<sdkm::MetricReader>> readers;
  for (int i = 0; i < n; i++)
  {
    readers.emplace_back(new TestReader(hd[3 + i].as_ll() == 0 ? sdkm::AggregationTemporality::kDelta
                                                                : sdkm::AggregationTemporality::kCumulative));
    mp.AddMetricReader(readers.back());
  }
  const std::string name = "hist", unit = "u";
  if (c.has)
  {
    // a view that configures the boundaries; both ways of asking for a histogram aggregation
    auto at = (c.cfg->boundaries_.size() % 2 == 0) ? sdkm::AggregationType::kHistogram : sdkm::AggregationType::kDefault;
    std::unique_ptr<sdkm::View> view{new sdkm::View("", "", unit, at, c.cfg)};
    std::unique_ptr<sdkm::InstrumentSelector> is{new sdkm::InstrumentSelector(sdkm::InstrumentType::kHistogram, name, unit)};
    std::unique_ptr<sdkm::MeterSelector> ms{new sdkm::MeterSelector("m", "1", "s")};
    mp.AddView(std::move(is), std::move(ms), std::move(view));
  }
  auto meter = mp.GetMeter("m", "1", "s");
  nostd::unique_ptr<opentelemetry::metrics::Histogram<uint64_t>> hl;
  nostd::unique_ptr<opentelemetry::metrics::Histogram<double>> hdbl;
  if (is_long) hl = meter->CreateUInt64Histogram(name, "d", unit);
  else hdbl = meter->CreateDoubleHistogram(name, "d", unit);
  opentelemetry::context::Context ctx{};

  o.tag("OK");
  for (size_t i = 1; i < ch.size(); i++)
  {
    const auto &op = ch[i];
    if (op.size() == 3 && op[0].is_tag("R"))
    {
      int64_t a = op[1].as_ll();
      if (is_long)
      {
        uint64_t v = op[2].as_ull();
        if (a == 0) hl->Record(v, ctx);
        else hl->Record(v, {{"k", a}}, ctx);
      }
      else
      {
        double v = bits_to_double(op[2].as_ull());
        if (a == 0) hdbl->Record(v, ctx);
        else hdbl->Record(v, {{"k", a}}, ctx);
      }
    }
    else if (op.size() == 2 && op[0].is_tag("C"))
    {
      int r = int(op[1].as_ll());
      if (r < 0 || r >= n) { o.tag("BADCASE"); return; }
      std::vector<std::pair<long long, sdkm::HistogramPointData>> pts;
      bool bad = false;
      readers[r]->Collect([&](sdkm::ResourceMetrics &rm) {
        for (const auto &sm : rm.scope_metric_data_)
          for (const auto &md : sm.metric_data_)
            for (const auto &dp : md.point_data_attr_)
            {
              if (!nostd::holds_alternative<sdkm::HistogramPointData>(dp.point_data)) { bad = true; continue; }
              long long a = 0;
              auto it = dp.attributes.find("k");
              if (it != dp.attributes.end() && nostd::holds_alternative<int64_t>(it->second)) a = nostd::get<int64_t>(it->second);
              else if (!dp.attributes.empty()) a = -1;
              pts.emplace_back(a, nostd::get<sdkm::HistogramPointData>(dp.point_data));
            }
        return true;
      });
      std::stable_sort(pts.begin(), pts.end(), [](const auto &x, const auto &y) { return x.first < y.first; });
      o.tag("/");
      if (bad) o.tag("NOTHISTOGRAM");
      for (const auto &p : pts)
      {
        o.tag("K").num(p.first);
        print_point(p.second, is_long, o);
      }
    }
    else { o.tag("BADCASE"); return; }
  }
}

int main(int argc, char **argv)
{
  using namespace opentelemetry::sdk::common::internal_log;
  GlobalLogHandler::SetLogHandler(nostd::shared_ptr<LogHandler>(new NoopLogHandler()));
  GlobalLogHandler::SetLogLevel(LogLevel::None);
  return verif::run_cases(argc, argv, [](const std::vector<Tok> &t, Out &o) {
    auto ch = verif::split_toks(t, "|");
    if (ch.empty() || ch[0].size() < 3) { o.tag("BADCASE"); return; }
    bool is_long;
    if (ch[0][1].is_tag("L")) is_long = true;
    else if (ch[0][1].is_tag("D")) is_long = false;
    else { o.tag("BADCASE"); return; }
    if (ch[0][0].is_tag("AGG")) run_agg(ch, is_long, o);
    else if (ch[0][0].is_tag("RDR")) run_rdr(ch, is_long, o);
    else o.tag("BADCASE");
  });
}
