// C20 driver: every case is run THREE ways - through the nostd type, through its std counterpart
// (or an index-checked slice for span), and by the extracted Coq model (separately).  The line
// printed is the nostd observation followed by "std 1" when the std lane produced exactly the same
// tokens, "std 0 <std tokens>" otherwise.
#include <array>
#include <cstdint>
#include <cstring>
#include <functional>
#include <memory>
#include <optional>
#include <sstream>
#include <stdexcept>
#include <string>
#include <string_view>
#include <variant>
#include <vector>
#include <sys/wait.h>
#include <unistd.h>

#include "opentelemetry/nostd/function_ref.h"
#include "opentelemetry/nostd/shared_ptr.h"
#include "opentelemetry/nostd/span.h"
#include "opentelemetry/nostd/string_view.h"
#include "opentelemetry/nostd/unique_ptr.h"
#include "opentelemetry/nostd/utility.h"
#include "opentelemetry/nostd/variant.h"
#include "common/verif_io.h"

namespace nostd = opentelemetry::nostd;
using verif::Tok;
typedef std::vector<std::string> Toks;

static std::string join(const Toks &t, size_t from = 0)
{
  std::string r;
  for (size_t i = from; i < t.size(); i++) { if (!r.empty()) r.push_back(' '); r += t[i]; }
  return r;
}
static void lab(Toks &o, const char *l, const std::string &v) { o.push_back(l); o.push_back(v); }
static std::string num(long long v) { return std::to_string(v); }
static std::string unum(unsigned long long v) { return std::to_string(v); }
static int sign(int v) { return v < 0 ? -1 : (v > 0 ? 1 : 0); }
static std::string finish(const Toks &a, const Toks &b)
{
  std::string r = join(a);
  if (a == b) return r + (r.empty() ? "" : " ") + "std 1";
  // keep the segment structure of the nostd observation: the std lane's separators are printed as '/'
  Toks b2 = b;
  for (auto &t : b2) if (t == ";") t = "/";
  return r + " std 0 " + join(b2);
}

// ------------------------------------------------------------------------------------------ string_view
struct SvIn { std::string a, b; size_t pos, n, pos2, n2; char ch; bool alias = false; std::string buf; size_t o1 = 0, o2 = 0; };

template <class SV>
static Toks sv_lane(const SvIn &in, bool is_nostd)
{
  Toks o;
  // alias mode: both operands are slices of ONE exact-size heap block (same start address with different lengths,
  // identical, nested and overlapping views); otherwise every operand lives in its own block
  verif::ExactBuf ba(in.alias ? in.buf : in.a), bb(in.alias ? std::string() : in.b), ba2(in.a);
  SV a = in.alias ? SV(ba.p + in.o1, in.a.size()) : (in.a.empty() ? SV() : SV(ba.p, ba.n));
  SV a2(ba2.p, ba2.n);
  SV b = in.alias ? SV(ba.p + in.o2, in.b.size()) : SV(bb.p, bb.n);
  std::string bs = in.b;                    // NUL-terminated copies for the const char* overloads
  std::string as = in.a;
  const char *bc = bs.c_str();
  lab(o, "size", unum(a.size() == a.length() ? a.size() : 999999));
  lab(o, "empty", num(a.empty()));
  lab(o, "it", verif::hex(std::string(a.begin(), a.end())));
  lab(o, "str", verif::hex(std::string(a)));
  { std::ostringstream os; os << a; lab(o, "os", verif::hex(os.str())); }
  lab(o, "at", in.pos < a.size() ? num((unsigned char)a[in.pos]) : "-");
  // a view compared with itself / with a copy of itself (same pointer, same length) is equal
  bool self_ok = a.compare(a) == 0 && a == a && !(a != a) && !(a < a) && !(a > a) && a.compare(SV(a)) == 0;
  lab(o, "cmp", self_ok ? num(sign(a.compare(b))) : "MISMATCH");
  lab(o, "eq", num(a == b));
  lab(o, "ne", num(a != b));
  {
    int x = (a == bs), y = (bs == a), z = !(a != bs), w = !(bs != a);
    lab(o, "eqs", (x == y && y == z && z == w) ? num(x) : "2");
  }
  lab(o, "lt", num(a < b));
  lab(o, "gt", num(a > b));
  lab(o, "find", unum(a.find(in.ch, in.pos)));
  try { SV s = a.substr(in.pos, in.n); lab(o, "sub", verif::hex(s.data(), s.size())); }
  catch (const std::out_of_range &) { lab(o, "sub", "OOR"); }
  try { lab(o, "cmp3", num(sign(a.compare(in.pos, in.n, b)))); }
  catch (const std::out_of_range &) { lab(o, "cmp3", "OOR"); }
  try { lab(o, "cmp5", num(sign(a.compare(in.pos, in.n, b, in.pos2, in.n2)))); }
  catch (const std::out_of_range &) { lab(o, "cmp5", "OOR"); }
  { SV c(as.c_str()); lab(o, "cstr", verif::hex(c.data(), c.size())); }
  lab(o, "cmpc", num(sign(a.compare(bc))));
  {
    int x = (a == bc), y = (bc == a), z = !(a != bc), w = !(bc != a);
    lab(o, "eqc", (x == y && y == z && z == w) ? num(x) : "2");
  }
  try { lab(o, "cmpcn", num(sign(a.compare(in.pos, in.n, b.data(), std::min(in.n2, in.b.size()))))); }
  catch (const std::out_of_range &) { lab(o, "cmpcn", "OOR"); }
  try { lab(o, "cmpc3", num(sign(a.compare(in.pos, in.n, bc)))); }
  catch (const std::out_of_range &) { lab(o, "cmpc3", "OOR"); }
  // hashing: a function of the bytes only, and the same function std::hash<std::string_view> is
  std::size_t ref = std::hash<std::string_view>{}(std::string_view(in.a.data(), in.a.size()));
  lab(o, "h1", num(std::hash<SV>{}(a) == ref && std::hash<SV>{}(a2) == ref));
  lab(o, "h2", in.a == in.b ? num(std::hash<SV>{}(a) == std::hash<SV>{}(b)) : "-");
  (void)is_nostd;
  return o;
}

static std::string run_sv(const std::vector<Tok> &t)
{
  SvIn in;
  if (t[0].is_tag("SVA"))
  {
    if (t.size() != 11 || t[1].kind != Tok::BYTES) return "BADCASE";
    in.alias = true; in.buf = t[1].s;
    in.o1 = t[2].as_ull(); size_t l1 = t[3].as_ull(); in.o2 = t[4].as_ull(); size_t l2 = t[5].as_ull();
    if (in.o1 + l1 > in.buf.size() || in.o2 + l2 > in.buf.size()) return "BADCASE";
    in.a = in.buf.substr(in.o1, l1); in.b = in.buf.substr(in.o2, l2);
    in.pos = t[6].as_ull(); in.n = t[7].as_ull(); in.pos2 = t[8].as_ull(); in.n2 = t[9].as_ull();
    in.ch = char(t[10].as_ull());
  }
  else
  {
    if (t.size() != 8 || t[1].kind == Tok::INT || t[2].kind == Tok::INT) return "BADCASE";
    in.a = t[1].kind == Tok::BYTES ? t[1].s : "";
    in.b = t[2].kind == Tok::BYTES ? t[2].s : "";
    in.pos = t[3].as_ull(); in.n = t[4].as_ull(); in.pos2 = t[5].as_ull(); in.n2 = t[6].as_ull();
    in.ch = char(t[7].as_ull());
  }
  return finish(sv_lane<nostd::string_view>(in, true), sv_lane<std::string_view>(in, false));
}

// ------------------------------------------------------------------------------------------ span
struct SpIn { std::string buf; size_t off, cnt, idx, ext; uint8_t val; };

// does constructing a fixed-extent span from (ptr, count) / (first, last) call std::terminate?  (observed in a child process)
template <size_t N>
static bool fixed_terminates(uint8_t *p, size_t cnt, bool first_last)
{
  pid_t pid = fork();
  if (pid == 0)
  {
    std::set_terminate([]() { _exit(42); });
    if (first_last) { nostd::span<uint8_t, N> s(p, p + cnt); _exit(s.size() == N ? 0 : 1); }
    nostd::span<uint8_t, N> s(p, cnt);
    _exit(s.size() == N ? 0 : 1);
  }
  int st = 0;
  waitpid(pid, &st, 0);
  return !(WIFEXITED(st) && WEXITSTATUS(st) == 0);
}

template <size_t N>
static std::string fixed_elems(uint8_t *p, size_t cnt)
{
  bool t1 = fixed_terminates<N>(p, cnt, false), t2 = fixed_terminates<N>(p, cnt, true);
  if (t1 != t2) return "MISMATCH";
  if (t1) return "TERM";
  nostd::span<uint8_t, N> s(p, cnt);
  nostd::span<uint8_t, N> s2(p, p + cnt);
  nostd::span<const uint8_t, N> cs(s);
  if (s.size() != N || s.empty() != (N == 0) || s.extent != N || s2.data() != s.data() || cs.data() != s.data()) return "MISMATCH";
  std::string r;
  for (size_t i = 0; i < s.size(); i++) r.push_back(char(s[i]));
  std::string r2(s.begin(), s.end());
  return r == r2 ? verif::hex(r) : "MISMATCH";
}

static Toks sp_nostd(const SpIn &in)
{
  Toks o;
  size_t n = in.buf.size();
  std::unique_ptr<uint8_t[]> mem(new uint8_t[n ? n : 1]);
  std::memcpy(mem.get(), in.buf.data(), n);
  uint8_t *base = mem.get();
  nostd::span<uint8_t> s(base + in.off, in.cnt);
  lab(o, "size", unum(s.size()));
  lab(o, "empty", num(s.empty()));
  lab(o, "doff", num(s.data() - base));
  { std::string r; for (uint8_t x : s) r.push_back(char(x)); lab(o, "it", verif::hex(r)); }
  { nostd::span<uint8_t> f(base + in.off, base + in.off + in.cnt); lab(o, "fl", verif::hex(std::string(f.begin(), f.end()))); }
  { nostd::span<uint8_t> c(s); std::string r; for (size_t i = 0; i < c.size(); i++) r.push_back(char(c[i])); lab(o, "cp", verif::hex(r)); }
  { nostd::span<const uint8_t> c(s); lab(o, "conv", verif::hex(std::string(c.begin(), c.end()))); }
  { nostd::span<uint8_t> c; bool e0 = c.empty() && c.size() == 0 && c.data() == nullptr; c = s;
    lab(o, "asg", e0 ? verif::hex(std::string(c.begin(), c.end())) : "MISMATCH"); }
  lab(o, "at", in.idx < s.size() ? num(s[in.idx]) : "-");
  {
    std::vector<uint8_t> v(in.buf.begin(), in.buf.end());
    const std::vector<uint8_t> &cv = v;
    nostd::span<uint8_t> a(v);
    nostd::span<const uint8_t> b(cv);
    bool same = a.size() == b.size() && a.data() == b.data() && a.size() == v.size() && (v.empty() || a.data() == v.data());
    lab(o, "vec", same ? verif::hex(std::string(a.begin(), a.end())) : "MISMATCH");
  }
  {
    std::array<uint8_t, 4> arr{};
    for (size_t i = 0; i < 4 && i < n; i++) arr[i] = uint8_t(in.buf[i]);
    const std::array<uint8_t, 4> &carr = arr;
    nostd::span<uint8_t> d(arr);
    nostd::span<uint8_t, 4> f(arr);
    nostd::span<const uint8_t> cd(carr);
    nostd::span<const uint8_t, 4> cf(carr);
    nostd::span<const uint8_t> conv(f);       // dynamic from fixed
    bool same = d.size() == 4 && f.size() == 4 && cd.size() == 4 && cf.size() == 4 && conv.size() == 4 && d.data() == arr.data() &&
                f.data() == arr.data() && cd.data() == arr.data() && cf.data() == arr.data() && conv.data() == arr.data() && !f.empty();
    lab(o, "arr", same ? verif::hex(std::string(f.begin(), f.end())) : "MISMATCH");
  }
  {
    uint8_t ca[3] = {0, 0, 0};
    for (size_t i = 0; i < 3 && i < n; i++) ca[i] = uint8_t(in.buf[i]);
    nostd::span<uint8_t> d(ca);
    nostd::span<uint8_t, 3> f(ca);
    bool same = d.size() == 3 && f.size() == 3 && d.data() == ca && f.data() == ca && nostd::size(ca) == 3 && nostd::data(ca) == ca;
    lab(o, "carr", same ? verif::hex(std::string(d.begin(), d.end())) : "MISMATCH");
  }
  lab(o, "fix", in.ext == 4 ? fixed_elems<4>(base + in.off, in.cnt) : fixed_elems<0>(base + in.off, in.cnt));
  // spans over the same storage alias: a write through one is seen through a copy, a (first,last) span, a const view
  // and an overlapping span that starts one element later
  nostd::span<uint8_t> alias_cp(s);
  nostd::span<uint8_t> alias_fl(base + in.off, base + in.off + in.cnt);
  nostd::span<const uint8_t> alias_c(s);
  nostd::span<uint8_t> alias_tail(base + in.off + (in.cnt ? 1 : 0), in.cnt ? in.cnt - 1 : 0);
  if (in.idx < s.size()) s[in.idx] = in.val;
  bool seen = true;
  for (size_t i = 0; i < s.size(); i++)
    seen = seen && alias_cp[i] == base[in.off + i] && alias_fl[i] == base[in.off + i] && alias_c[i] == base[in.off + i] &&
           (i == 0 || alias_tail[i - 1] == base[in.off + i]);
  lab(o, "wr", seen ? verif::hex(base, n) : "MISMATCH");
  return o;
}

// the reference lane: an index-checked slice of a vector (std::span does not exist in C++17)
static Toks sp_ref(const SpIn &in)
{
  Toks o;
  std::vector<uint8_t> buf(in.buf.begin(), in.buf.end());
  std::vector<uint8_t> e(buf.begin() + in.off, buf.begin() + in.off + in.cnt);
  std::string es(e.begin(), e.end());
  lab(o, "size", unum(e.size()));
  lab(o, "empty", num(e.empty()));
  lab(o, "doff", num(in.off));
  for (const char *l : {"it", "fl", "cp", "conv", "asg"}) lab(o, l, verif::hex(es));
  lab(o, "at", in.idx < e.size() ? num(e.at(in.idx)) : "-");
  lab(o, "vec", verif::hex(in.buf));
  { std::string a = (in.buf + std::string(4, '\0')).substr(0, 4); lab(o, "arr", verif::hex(a)); }
  { std::string a = (in.buf + std::string(3, '\0')).substr(0, 3); lab(o, "carr", verif::hex(a)); }
  lab(o, "fix", in.cnt == in.ext ? verif::hex(es) : "TERM");
  if (in.idx < e.size()) buf.at(in.off + in.idx) = in.val;
  lab(o, "wr", verif::hex(buf.data(), buf.size()));
  return o;
}

static std::string run_sp(const std::vector<Tok> &t)
{
  if (t.size() != 7 || t[1].kind != Tok::BYTES) return "BADCASE";
  SpIn in;
  in.buf = t[1].s; in.off = t[2].as_ull(); in.cnt = t[3].as_ull(); in.idx = t[4].as_ull();
  in.val = uint8_t(t[5].as_ull()); in.ext = t[6].as_ull();
  if (in.off + in.cnt > in.buf.size() || (in.ext != 0 && in.ext != 4)) return "BADCASE";
  return finish(sp_nostd(in), sp_ref(in));
}

// ------------------------------------------------------------------------------------------ unique_ptr / shared_ptr
struct Counter { long live = 0; long next_id = 0; std::vector<long> destroyed; };
struct Obj
{
  Counter *c; long id; long long val;
  Obj(Counter *c_, long long v) : c(c_), id(c_->next_id++), val(v) { c->live++; }
  Obj(const Obj &) = delete;
  ~Obj() { c->live--; c->destroyed.push_back(id); }
};

struct NostdFam
{
  static constexpr bool is_nostd = true;
  template <class T> using up = nostd::unique_ptr<T>;
  template <class T> using sp = nostd::shared_ptr<T>;
};
struct StdFam
{
  static constexpr bool is_nostd = false;
  template <class T> using up = std::unique_ptr<T>;
  template <class T> using sp = std::shared_ptr<T>;
};

template <class F>
struct PtrLane
{
  typedef typename F::template up<Obj> UP;
  typedef typename F::template sp<Obj> SP;
  Counter c;
  std::optional<UP> u[4];
  std::optional<SP> s[4];
  Obj *raw[2] = {nullptr, nullptr};

  static bool uix(long long d) { return d >= 0 && d < 4; }
  static bool six(long long d) { return d >= 4 && d < 8; }
  static bool rix(long long d) { return d >= 8 && d < 10; }
  bool up_(long long d) { return uix(d) && u[d].has_value(); }
  bool sp_(long long d) { return six(d) && s[d - 4].has_value(); }

  template <class P> static void deref(P &p, Toks &res)
  {
    if (p) { long long a = (*p).val, b = p->val, c2 = p.get()->val; res.push_back(a == b && b == c2 ? num(a) : "MISMATCH"); }
    else res.push_back(p.get() == nullptr ? "null" : "MISMATCH");
  }
  template <class P> static void cmp(P &a, P &b, Toks &res)
  {
    res.push_back(num(a == b));
    res.push_back(num((a == nullptr) && (nullptr == a)));
    res.push_back(num(a != b));
    res.push_back(num((a != nullptr) && (nullptr != a)));
  }

  // returns false when the operation cannot be performed by the harness ("skip")
  bool exec(const std::vector<Tok> &op, Toks &res)
  {
    const std::string &n = op[0].s;
    long long d = op.size() > 1 ? op[1].as_ll() : -1;
    long long x = op.size() > 2 ? op[2].as_ll() : -1;
    if (n == "unew") { if (!uix(d)) return false; u[d].reset(); u[d].emplace(new Obj(&c, x)); return true; }
    if (n == "unull") { if (!uix(d)) return false; u[d].reset(); if (d % 2) u[d].emplace(); else u[d].emplace(nullptr); return true; }
    if (n == "umc") { if (!uix(d) || !up_(x) || d == x) return false; u[d].reset(); u[d].emplace(std::move(*u[x])); return true; }
    if (n == "uma") { if (!up_(d) || !up_(x)) return false; UP &dst = *u[d]; UP &src = *u[x]; dst = std::move(src); return true; }
    if (n == "uan") { if (!up_(d)) return false; *u[d] = nullptr; return true; }
    if (n == "urst") { if (!up_(d)) return false; u[d]->reset(); return true; }
    if (n == "urstn") { if (!up_(d)) return false; u[d]->reset(new Obj(&c, x)); return true; }
    if (n == "urel") { if (!up_(d) || !rix(x)) return false; delete raw[x - 8]; raw[x - 8] = u[d]->release(); return true; }
    if (n == "uadopt") { if (!up_(d) || !rix(x)) return false; Obj *p = raw[x - 8]; raw[x - 8] = nullptr; u[d]->reset(p); return true; }
    if (n == "uswap") { if (!up_(d) || !up_(x)) return false; u[d]->swap(*u[x]); return true; }
    if (n == "udel") { if (!up_(d)) return false; u[d].reset(); return true; }
    if (n == "uval") { if (!up_(d)) return false; deref(*u[d], res); return true; }
    if (n == "usetv") { if (!up_(d)) return false; if (*u[d]) (*u[d])->val = x; return true; }
    if (n == "ueq") { if (!up_(d) || !up_(x)) return false; cmp(*u[d], *u[x], res); return true; }
    if (n == "ustd")
    {
      if (!up_(d)) return false;
      std::unique_ptr<Obj> t = std::move(*u[d]);          // nostd: operator std::unique_ptr<T>() &&
      *u[d] = UP(std::move(t));                            // nostd: unique_ptr(std::unique_ptr<U>&&), then move assignment
      return true;
    }
    if (n == "snew") { if (!six(d)) return false; s[d - 4].reset(); s[d - 4].emplace(new Obj(&c, x)); return true; }
    if (n == "sfromstd") { if (!six(d)) return false; s[d - 4].reset(); s[d - 4].emplace(std::shared_ptr<Obj>(new Obj(&c, x))); return true; }
    if (n == "snull") { if (!six(d)) return false; s[d - 4].reset(); s[d - 4].emplace(); return true; }
    if (n == "scc") { if (!six(d) || !sp_(x) || d == x) return false; s[d - 4].reset(); const SP &src = *s[x - 4]; s[d - 4].emplace(src); return true; }
    if (n == "smc") { if (!six(d) || !sp_(x) || d == x) return false; s[d - 4].reset(); s[d - 4].emplace(std::move(*s[x - 4])); return true; }
    if (n == "sca") { if (!sp_(d) || !sp_(x)) return false; SP &dst = *s[d - 4]; const SP &src = *s[x - 4]; dst = src; return true; }
    if (n == "sma") { if (!sp_(d) || !sp_(x)) return false; SP &dst = *s[d - 4]; SP &src = *s[x - 4]; dst = std::move(src); return true; }
    if (n == "san") { if (!sp_(d)) return false; *s[d - 4] = nullptr; return true; }
    if (n == "sswap") { if (!sp_(d) || !sp_(x)) return false; s[d - 4]->swap(*s[x - 4]); return true; }
    if (n == "sdel") { if (!sp_(d)) return false; s[d - 4].reset(); return true; }
    if (n == "sval") { if (!sp_(d)) return false; deref(*s[d - 4], res); return true; }
    if (n == "ssetv") { if (!sp_(d)) return false; if (*s[d - 4]) (*s[d - 4])->val = x; return true; }
    if (n == "seq") { if (!sp_(d) || !sp_(x)) return false; cmp(*s[d - 4], *s[x - 4], res); return true; }
    if (n == "sfromu") { if (!six(d) || !up_(x)) return false; s[d - 4].reset(); s[d - 4].emplace(std::move(*u[x])); return true; }
    return false;
  }

  void state(Toks &o)
  {
    o.push_back("D");
    for (long id : c.destroyed) o.push_back(num(id));
    c.destroyed.clear();
    o.push_back("L"); o.push_back(num(c.live)); o.push_back("H");
    for (int i = 0; i < 4; i++) o.push_back(!u[i] ? "-2" : (u[i]->get() ? num(u[i]->get()->id) : "-1"));
    for (int i = 0; i < 4; i++) o.push_back(!s[i] ? "-2" : (s[i]->get() ? num(s[i]->get()->id) : "-1"));
    for (int i = 0; i < 2; i++) o.push_back(raw[i] ? num(raw[i]->id) : "-1");
  }

  Toks run(const std::vector<std::vector<Tok>> &ops)
  {
    Toks o;
    for (const auto &op : ops)
    {
      if (op.empty()) continue;
      Toks res;
      if (!exec(op, res)) { res.clear(); res.push_back("skip"); }
      for (auto &r : res) o.push_back(r);
      state(o);
      o.push_back(";");
    }
    for (auto &h : u) h.reset();
    for (auto &h : s) h.reset();
    for (auto &r : raw) { delete r; r = nullptr; }
    o.push_back("end");
    state(o);
    o.push_back(";");
    return o;
  }
};

// ------------------------------------------------------------------------------------------ variant
struct Counted
{
  long *live; long long v;
  Counted(long *l, long long v_) : live(l), v(v_) { ++*live; }
  Counted(const Counted &o) : live(o.live), v(o.v) { ++*live; }
  Counted(Counted &&o) noexcept : live(o.live), v(o.v) { ++*live; o.v = -1; }
  Counted &operator=(const Counted &o) { v = o.v; return *this; }
  Counted &operator=(Counted &&o) noexcept { if (this != &o) { v = o.v; o.v = -1; } return *this; }
  ~Counted() { --*live; }
  friend bool operator==(const Counted &a, const Counted &b) { return a.v == b.v; }
  friend bool operator!=(const Counted &a, const Counted &b) { return a.v != b.v; }
  friend bool operator<(const Counted &a, const Counted &b) { return a.v < b.v; }
  friend bool operator>(const Counted &a, const Counted &b) { return a.v > b.v; }
  friend bool operator<=(const Counted &a, const Counted &b) { return a.v <= b.v; }
  friend bool operator>=(const Counted &a, const Counted &b) { return a.v >= b.v; }
};
struct Thrower
{
  explicit Thrower(int) { throw 1; }
  Thrower(const Thrower &) {}
  Thrower &operator=(const Thrower &) { return *this; }
  friend bool operator==(const Thrower &, const Thrower &) { return true; }
  friend bool operator!=(const Thrower &, const Thrower &) { return false; }
  friend bool operator<(const Thrower &, const Thrower &) { return false; }
  friend bool operator>(const Thrower &, const Thrower &) { return false; }
  friend bool operator<=(const Thrower &, const Thrower &) { return true; }
  friend bool operator>=(const Thrower &, const Thrower &) { return true; }
};

struct NostdVar
{
  static constexpr bool is_nostd = true;
  template <class... Ts> using variant = nostd::variant<Ts...>;
  using monostate = nostd::monostate;
  using bad_access = nostd::bad_variant_access;
  template <size_t I, class V> static auto &get(V &v) { return nostd::get<I>(v); }
  template <class T, class V> static auto &get_t(V &v) { return nostd::get<T>(v); }
  template <size_t I, class V> static auto *get_if(V *v) { return nostd::get_if<I>(v); }
  template <class T, class V> static bool holds(const V &v) { return nostd::holds_alternative<T>(v); }
  template <class Vis, class... Vs> static auto visit(Vis &&vis, Vs &&... vs) { return nostd::visit(std::forward<Vis>(vis), std::forward<Vs>(vs)...); }
  template <class V> static constexpr size_t size() { return nostd::variant_size<V>::value; }
};
struct StdVar
{
  static constexpr bool is_nostd = false;
  template <class... Ts> using variant = std::variant<Ts...>;
  using monostate = std::monostate;
  using bad_access = std::bad_variant_access;
  template <size_t I, class V> static auto &get(V &v) { return std::get<I>(v); }
  template <class T, class V> static auto &get_t(V &v) { return std::get<T>(v); }
  template <size_t I, class V> static auto *get_if(V *v) { return std::get_if<I>(v); }
  template <class T, class V> static bool holds(const V &v) { return std::holds_alternative<T>(v); }
  template <class Vis, class... Vs> static auto visit(Vis &&vis, Vs &&... vs) { return std::visit(std::forward<Vis>(vis), std::forward<Vs>(vs)...); }
  template <class V> static constexpr size_t size() { return std::variant_size<V>::value; }
};

template <class F>
struct VarLane
{
  typedef typename F::monostate Mono;
  typedef typename F::template variant<Mono, bool, int64_t, std::string, Counted, Thrower> V;
  static_assert(F::template size<V>() == 6, "variant_size");
  long live = 0;
  std::optional<V> v[3];
  VarLane() { for (auto &x : v) x.emplace(); }

  struct Render
  {
    Toks operator()(const Mono &) const { return {"mono"}; }
    Toks operator()(const bool &b) const { return {"bool", num(b)}; }
    Toks operator()(const int64_t &z) const { return {"int", num(z)}; }
    Toks operator()(const std::string &s) const { return {"str", verif::hex(s)}; }
    Toks operator()(const Counted &c) const { return {"cnt", num(c.v)}; }
    Toks operator()(const Thrower &) const { return {"thrower"}; }
  };
  struct Render2
  {
    template <class A, class B> Toks operator()(const A &a, const B &b) const
    {
      Toks x = Render()(a), y = Render()(b);
      x.insert(x.end(), y.begin(), y.end());
      return x;
    }
  };
  static Toks shape(V &x)       // through get_if only (never throws)
  {
    if (x.valueless_by_exception()) return {"-1", "v"};
    if (auto *p = F::template get_if<0>(&x)) { (void)p; return {"0", "m"}; }
    if (auto *p = F::template get_if<1>(&x)) return {"1", num(*p)};
    if (auto *p = F::template get_if<2>(&x)) return {"2", num(*p)};
    if (auto *p = F::template get_if<3>(&x)) return {"3", verif::hex(*p)};
    if (auto *p = F::template get_if<4>(&x)) return {"4", num(p->v)};
    return {"5", "thrower"};
  }
  template <size_t I> static Toks got(V &x, const char *onfail, bool use_if)
  {
    if (use_if)
    {
      auto *p = F::template get_if<I>(&x);
      if (!p) return {onfail};
      return shape(x);
    }
    try { auto &r = F::template get<I>(x); (void)r; return shape(x); }
    catch (const typename F::bad_access &) { return {onfail}; }
  }
  static Toks get_any(V &x, long long i, const char *onfail, bool use_if)
  {
    switch (i)
    {
      case 0: return got<0>(x, onfail, use_if);
      case 1: return got<1>(x, onfail, use_if);
      case 2: return got<2>(x, onfail, use_if);
      case 3: return got<3>(x, onfail, use_if);
      case 4: return got<4>(x, onfail, use_if);
      default: return got<5>(x, onfail, use_if);
    }
  }
  static bool holds_any(V &x, long long i)
  {
    switch (i)
    {
      case 0: return F::template holds<Mono>(x);
      case 1: return F::template holds<bool>(x);
      case 2: return F::template holds<int64_t>(x);
      case 3: return F::template holds<std::string>(x);
      case 4: return F::template holds<Counted>(x);
      default: return F::template holds<Thrower>(x);
    }
  }

  bool ix(long long d) { return d >= 0 && d < 3; }

  bool exec(const std::vector<Tok> &op, Toks &res)
  {
    const std::string &n = op[0].s;
    long long d = op.size() > 1 ? op[1].as_ll() : -1;
    long long x = op.size() > 2 ? op[2].as_ll() : -1;
    if (!ix(d)) return false;
    V &vd = *v[d];
    if (n == "vset" || n == "vemp")
    {
      if (op.size() != 4) return false;
      bool set = n == "vset";
      const Tok &val = op[3];
      switch (x)
      {
        case 0: if (set) vd = Mono{}; else vd.template emplace<0>(); break;
        case 1: if (set) vd = bool(val.as_ll() != 0); else vd.template emplace<1>(val.as_ll() != 0); break;
        case 2: if (set) vd = int64_t(val.as_ll()); else vd.template emplace<2>(val.as_ll()); break;
        case 3: if (set) vd = std::string(val.s); else vd.template emplace<3>(val.s.data(), val.s.size()); break;
        case 4: if (set) vd = Counted(&live, val.as_ll()); else vd.template emplace<4>(&live, val.as_ll()); break;
        default: return false;
      }
      return true;
    }
    if (n == "vempthrow") { try { vd.template emplace<5>(1); } catch (int) {} return true; }
    if (n == "vself")
    {
      // assignment from a reference to the variant's own held value (the source aliases the destination)
      if (auto *p1 = F::template get_if<1>(&vd)) vd = *p1;
      else if (auto *p2 = F::template get_if<2>(&vd)) vd = *p2;
      else if (auto *p3 = F::template get_if<3>(&vd)) { const std::string &r = *p3; vd = r; }
      else if (auto *p4 = F::template get_if<4>(&vd)) { const Counted &r = *p4; vd = r; }
      else if (auto *p0 = F::template get_if<0>(&vd)) vd = *p0;
      return true;
    }
    if (n == "vidx")
    {
      res.push_back(vd.valueless_by_exception() ? "-1" : num((long long)vd.index()));
      res.push_back(num(vd.valueless_by_exception()));
      return true;
    }
    if (n == "vholds") { res.push_back(num(holds_any(vd, x))); return true; }
    if (n == "vget") { res = get_any(vd, x, "BAD", false); return true; }
    if (n == "vgetif") { res = get_any(vd, x, "nil", true); return true; }
    if (n == "vvis")
    {
      try { res = F::visit(Render(), vd); } catch (const typename F::bad_access &) { res = {"BAD"}; }
      return true;
    }
    if (!ix(x)) return false;
    V &vs = *v[x];
    if (n == "vcp") { const V &src = vs; vd = src; return true; }
    if (n == "vswap")
    {
      if (!F::is_nostd && vd.valueless_by_exception() != vs.valueless_by_exception())
      {
        // libstdc++ 12.2 variant::swap does not make the other side valueless (fixed upstream later); the reference lane
        // performs the exchange [variant.swap] specifies by hand
        V &full = vd.valueless_by_exception() ? vs : vd;
        V &none = vd.valueless_by_exception() ? vd : vs;
        none = std::move(full);
        try { full.template emplace<5>(1); } catch (int) {}
        return true;
      }
      vd.swap(vs);
      return true;
    }
    if (n == "vvis2")
    {
      try { res = F::visit(Render2(), vd, vs); } catch (const typename F::bad_access &) { res = {"BAD"}; }
      return true;
    }
    if (n == "vcmp")
    {
      res = {num(vd == vs), num(vd != vs), num(vd < vs), num(vd > vs), num(vd <= vs), num(vd >= vs)};
      return true;
    }
    if (d == x) return false;
    if (n == "vmv") { vd = std::move(vs); return true; }
    if (n == "vcc") { v[d].reset(); const V &src = vs; v[d].emplace(src); return true; }
    if (n == "vmc") { v[d].reset(); v[d].emplace(std::move(vs)); return true; }
    return false;
  }

  Toks run(const std::vector<std::vector<Tok>> &ops)
  {
    Toks o;
    for (const auto &op : ops)
    {
      if (op.empty()) continue;
      Toks res;
      if (!exec(op, res)) { res.clear(); res.push_back("skip"); }
      for (auto &r : res) o.push_back(r);
      o.push_back("L"); o.push_back(num(live)); o.push_back("S");
      for (auto &x : v) for (auto &t : shape(*x)) o.push_back(t);
      o.push_back(";");
    }
    return o;
  }
};

// converting construction: the alternative selected for a fixed table of instantiations
template <class F>
static long long conv_index(long long k)
{
  typedef typename F::monostate Mono;
  typedef typename F::template variant<Mono, bool, int32_t, uint32_t, int64_t, double, std::string> Owned;
  const char *lit = "abc";
  switch (k)
  {
    case 0: { typename F::template variant<bool, std::string> v(lit); return v.index(); }
    case 1: { typename F::template variant<bool, std::string> v(true); return v.index(); }
    case 2: { typename F::template variant<bool, int64_t, std::string> v(std::string("x")); return v.index(); }
    case 3: { typename F::template variant<bool, const char *, std::string> v(lit); return v.index(); }
    case 4: { typename F::template variant<int64_t, std::string> v(int64_t(7)); return v.index(); }
    case 5: { typename F::template variant<double, std::string> v(1.5f); return v.index(); }
    case 6: { typename F::template variant<std::string, bool> v(lit); return v.index(); }
    case 7: { Owned v(lit); return v.index(); }
    case 8: { Owned v(int32_t(3)); return v.index(); }
    case 9: { Owned v(2.5); return v.index(); }
    case 10: { typename F::template variant<int32_t, double> v(1.5f); return v.index(); }
    case 11: { Owned v(false); return v.index(); }
    default: return -2;
  }
}

// ------------------------------------------------------------------------------------------ self-referential nodes
// struct Node { P<Node> next; }: the handle that is the SOURCE (or the TARGET) of a move / reset / swap is a member of
// the pointee of the other handle, e.g. head = std::move(head->next).  Destruction order is recorded.
template <class F>
struct UNode
{
  Counter *c; long id;
  typename F::template up<UNode> next;
  explicit UNode(Counter *c_) : c(c_), id(c_->next_id++) { c->live++; }
  ~UNode() { c->live--; c->destroyed.push_back(id); }
};
template <class F>
struct SNode
{
  Counter *c; long id;
  typename F::template sp<SNode> next;
  explicit SNode(Counter *c_) : c(c_), id(c_->next_id++) { c->live++; }
  ~SNode() { c->live--; c->destroyed.push_back(id); }
};

template <class Node, class P, bool kShared>
struct ChainLane
{
  Counter c;
  P head, aux;

  static size_t len(const P &p) { size_t n = 0; for (Node *x = p.get(); x; x = x->next.get()) n++; return n; }

  bool exec(const std::string &n)
  {
    size_t hl = len(head);
    if (n == "push") { P x(new Node(&c)); x->next = std::move(head); head = std::move(x); return true; }
    if (n == "pushaux") { P x(new Node(&c)); x->next = std::move(aux); aux = std::move(x); return true; }
    if (n == "append")
    {
      if (!head) { head = P(new Node(&c)); return true; }
      Node *t = head.get();
      while (t->next) t = t->next.get();
      t->next = P(new Node(&c));
      return true;
    }
    if (n == "swapaux") { head.swap(aux); return true; }
    if (n == "movehead") { head = std::move(aux); return true; }
    if (n == "clear") { head = nullptr; return true; }
    if (n == "clearaux") { aux = nullptr; return true; }
    if (n == "pop2") { if (hl < 2) return false; head = std::move(head->next->next); return true; }
    if (hl < 1) return false;
    if (n == "pop") { head = std::move(head->next); return true; }
    if (n == "cuttail") { head->next = nullptr; return true; }
    if (n == "split") { aux = std::move(head->next); return true; }
    if (n == "join") { head->next = std::move(aux); return true; }
    if (n == "swaptail") { head->next.swap(aux); return true; }
    if (n == "selfnext") { P &nx = head->next; P &same = head->next; nx = std::move(same); return true; }
    if constexpr (kShared)
    {
      if (n == "popc") { head = head->next; return true; }
    }
    else
    {
      if (n == "popr") { head.reset(head->next.release()); return true; }
      if (n == "detach")
      {
        Node *first = head.get();
        head.swap(first->next);                      // swap(head, head->next): `first` now owns itself
        aux.reset(first->next.release());            // break the cycle, hand the node to aux
        return true;
      }
    }
    return false;
  }

  void state(Toks &o)
  {
    o.push_back("D");
    for (long id : c.destroyed) o.push_back(num(id));
    c.destroyed.clear();
    o.push_back("L"); o.push_back(num(c.live)); o.push_back("H");
    for (Node *x = head.get(); x; x = x->next.get()) o.push_back(num(x->id));
    o.push_back("A");
    for (Node *x = aux.get(); x; x = x->next.get()) o.push_back(num(x->id));
  }

  Toks run(const std::vector<std::vector<Tok>> &ops)
  {
    Toks o;
    for (const auto &op : ops)
    {
      if (op.empty()) continue;
      if (!(op.size() == 1 && exec(op[0].s))) o.push_back("skip");
      state(o);
      o.push_back(";");
    }
    head = nullptr;
    aux = nullptr;
    o.push_back("end");
    state(o);
    o.push_back(";");
    return o;
  }
};

// ------------------------------------------------------------------------------------------ function_ref
typedef long long Sig(long long, long long);
static long long plain_fn(long long a, long long b) { return a - 2 * b; }
struct Acc
{
  long long acc = 0;
  long long operator()(long long a, long long b) { acc += a; return acc * 3 + b; }
};

// One lane of a function_ref case.  Fn = nostd::function_ref<Sig> or std::function<Sig> (which owns its target; it
// holds std::ref(callable), so that "the copy keeps calling the original callable" is what the reference lane does).
// The SOURCE reference is a named non-const object living in re-usable storage: a later bind / drop placement-news
// another Fn into the same bytes, so a copy that (wrongly) refers to the source OBJECT rather than to the source's
// callable sees the new binding.
template <class Fn, bool kNostd>
static Toks fr_lane_t(const std::vector<std::vector<Tok>> &ops)
{
  Toks o;
  long long calls = 0;
  auto lam = [&calls](long long a, long long b) { calls++; return a + b * calls; };
  Acc acc;
  Sig *null_fp = nullptr;
  typename std::aligned_storage<sizeof(Fn), alignof(Fn)>::type storage;
  Fn *src = nullptr;          // the object in `storage`, if the harness considers the source bound
  bool storage_live = false;  // an Fn object exists in `storage`
  std::optional<Fn> copy;
  auto place = [&](int k) {
    if (storage_live) reinterpret_cast<Fn *>(&storage)->~Fn();
    switch (k)
    {
      case 0: if constexpr (kNostd) src = new (&storage) Fn(lam); else src = new (&storage) Fn(std::ref(lam)); break;
      case 1: src = new (&storage) Fn(plain_fn); break;
      case 2: if constexpr (kNostd) src = new (&storage) Fn(acc); else src = new (&storage) Fn(std::ref(acc)); break;
      case 3: src = new (&storage) Fn(nullptr); break;
      default: src = new (&storage) Fn(null_fp); break;
    }
    storage_live = true;
  };
  for (const auto &op : ops)
  {
    if (op.empty()) continue;
    const std::string &n = op[0].s;
    Toks res;
    if (n == "bind" && op.size() == 2 && op[1].as_ll() >= 0 && op[1].as_ll() < 5) place(int(op[1].as_ll()));
    else if ((n == "call" || n == "ccall") && op.size() == 3 && src)
    {
      long long a = op[1].as_ll(), b = op[2].as_ll();
      if (!bool(*src)) res.push_back("null");
      else if (n == "call") res.push_back(num((*src)(a, b)));
      else { Fn c1(*src); Fn c2(std::move(c1)); res.push_back(num(c2(a, b))); }
    }
    else if (n == "bool" && src) res.push_back(num(bool(*src)));
    else if (n == "copy" && op.size() == 2 && src && op[1].as_ll() >= 0 && op[1].as_ll() < 3)
    {
      copy.reset();
      switch (op[1].as_ll())
      {
        case 0: { Fn &named = *src; copy.emplace(named); break; }              // from a named non-const lvalue
        case 1: { const Fn &cnamed = *src; copy.emplace(cnamed); break; }      // from a const lvalue
        default:                                                               // from an rvalue: moving a reference copies it
          if constexpr (kNostd) copy.emplace(std::move(*src)); else copy.emplace(Fn(*src));   // (a moved-from std::function is emptied)
          break;
      }
    }
    else if (n == "callc" && op.size() == 3 && copy)
    {
      long long a = op[1].as_ll(), b = op[2].as_ll();
      if (!bool(*copy)) res.push_back("null");
      else res.push_back(num((*copy)(a, b)));
    }
    else if (n == "boolc" && copy) res.push_back(num(bool(*copy)));
    else if (n == "drop")
    {
      // the source object goes away and its bytes are re-used for an empty reference
      if (storage_live) reinterpret_cast<Fn *>(&storage)->~Fn();
      new (&storage) Fn(nullptr);
      storage_live = true;
      src = nullptr;
    }
    else res.push_back("skip");
    for (auto &x : res) o.push_back(x);
    o.push_back("C"); o.push_back(num(calls)); o.push_back(num(acc.acc));
    o.push_back(";");
  }
  copy.reset();
  if (storage_live) reinterpret_cast<Fn *>(&storage)->~Fn();
  return o;
}

static Toks fr_lane(const std::vector<std::vector<Tok>> &ops, bool use_nostd)
{
  return use_nostd ? fr_lane_t<nostd::function_ref<Sig>, true>(ops) : fr_lane_t<std::function<Sig>, false>(ops);
}

static void run_one(const std::vector<Tok> &t, verif::Out &o)
{
  if (t.empty()) { o.tag("BADCASE"); return; }
  if (t[0].is_tag("SV") || t[0].is_tag("SVA")) { o.add(run_sv(t)); return; }
  if (t[0].is_tag("SP")) { o.add(run_sp(t)); return; }
  if (t[0].is_tag("CONV") && t.size() == 2)
  {
    o.tag("n").num(conv_index<NostdVar>(t[1].as_ll())).tag("s").num(conv_index<StdVar>(t[1].as_ll()));
    return;
  }
  auto ops = verif::split_toks(t, ";", 1);
  if (t[0].is_tag("PT"))
  {
    PtrLane<NostdFam> a; PtrLane<StdFam> b;
    o.add(finish(a.run(ops), b.run(ops)));
  }
  else if (t[0].is_tag("VR"))
  {
    VarLane<NostdVar> a; VarLane<StdVar> b;
    o.add(finish(a.run(ops), b.run(ops)));
  }
  else if (t[0].is_tag("FR")) o.add(finish(fr_lane(ops, true), fr_lane(ops, false)));
  else if (t[0].is_tag("CHU"))
  {
    ChainLane<UNode<NostdFam>, nostd::unique_ptr<UNode<NostdFam>>, false> a;
    ChainLane<UNode<StdFam>, std::unique_ptr<UNode<StdFam>>, false> b;
    o.add(finish(a.run(ops), b.run(ops)));
  }
  else if (t[0].is_tag("CHS"))
  {
    ChainLane<SNode<NostdFam>, nostd::shared_ptr<SNode<NostdFam>>, true> a;
    ChainLane<SNode<StdFam>, std::shared_ptr<SNode<StdFam>>, true> b;
    o.add(finish(a.run(ops), b.run(ops)));
  }
  else o.tag("BADCASE");
}

int main(int argc, char **argv)
{
  // flush after every line, so that a sanitizer abort in the middle of a case never leaves a partial line behind
  std::cout.setf(std::ios::unitbuf);
  return verif::run_cases(argc, argv, [](const std::vector<Tok> &t, verif::Out &o) {
    try { run_one(t, o); }
    catch (const std::exception &e) { o.line = "EXCEPTION"; }   // an exception the std lane would not throw either
  });
}

