// C19 driver under the deterministic scheduler shim (E-sched): concurrent GetTracer / GetMeter / GetLogger on one provider,
// the interleaving given by the case's schedule.  Compiled against scratch copies (tools/shimcopy.py) of
// tracer_provider.{h,cc}, logger_provider.{h,cc}, meter_provider.{h,cc}, meter_context.{h,cc} and spin_lock_mutex.h: the
// providers' std::mutex lock_ is a verif::mutex and SpinLockMutex spins on a verif::atomic, so every lock() is a scheduling
// point; every scope-configurator condition is one too (it calls verif::this_thread::yield() before it answers), so a thread
// can be switched out while the user's code runs inside the Tracer / Meter / Logger constructor.
//
//   PRACE (T|M|L) | <rules> | T <op> ; <op> ... | T ... | s <tid> <flag> ...
//       op:  G x<name> x<version> x<schema>                                             (T, M)
//            G x<logger name> x<library name> x<version> x<schema> { x<key> (<int>|x<string>) }   (L)
//   observation, for the requests in script order (thread 0, thread 1, ...) and then for the same requests once more,
//   single-threaded, after all threads have finished:
//       H <instance, numbered by first appearance> <produced telemetry 0/1> x<scope name> x<version> x<schema> {x<key> value}
//   followed by "|| <provider-lock trace>" (see trace_tokens)
#include <algorithm>
#include <map>
#include <memory>
#include <set>
#include <sstream>
#include <string>
#include <vector>

#include "opentelemetry/common/key_value_iterable_view.h"
#include "opentelemetry/sdk/common/global_log_handler.h"
#include "opentelemetry/sdk/instrumentationscope/instrumentation_scope.h"
#include "opentelemetry/sdk/instrumentationscope/scope_configurator.h"
#include "opentelemetry/sdk/logs/logger.h"
#include "opentelemetry/sdk/logs/logger_config.h"
#include "opentelemetry/sdk/logs/logger_provider.h"
#include "opentelemetry/sdk/logs/processor.h"
#include "opentelemetry/sdk/logs/read_write_log_record.h"
#include "opentelemetry/sdk/metrics/meter.h"
#include "opentelemetry/sdk/metrics/meter_config.h"
#include "opentelemetry/sdk/metrics/meter_provider.h"
#include "opentelemetry/sdk/metrics/metric_reader.h"
#include "opentelemetry/sdk/metrics/view/view_registry.h"
#include "opentelemetry/sdk/resource/resource.h"
#include "opentelemetry/sdk/trace/processor.h"
#include "opentelemetry/sdk/trace/span_data.h"
#include "opentelemetry/sdk/trace/tracer.h"
#include "opentelemetry/sdk/trace/tracer_config.h"
#include "opentelemetry/sdk/trace/tracer_provider.h"
#include "sched/sched_driver.h"

namespace nostd  = opentelemetry::nostd;
namespace common = opentelemetry::common;
namespace msdk   = opentelemetry::sdk::metrics;
namespace tsdk   = opentelemetry::sdk::trace;
namespace lsdk   = opentelemetry::sdk::logs;
namespace scope  = opentelemetry::sdk::instrumentationscope;
using verif::ExactBuf;
using verif::Out;
using verif::Sched;
using verif::Tok;
typedef std::vector<Tok> Toks;

static nostd::string_view sv(const ExactBuf &b) { return nostd::string_view(b.p, b.n); }

// <default 0/1> { ; N x<name> e | HV e | VE x<ver> e | SE x<schema> e | ANY e }   - every condition is a scheduling point
template <class Cfg>
static bool build_configurator(const Toks &sec, std::unique_ptr<scope::ScopeConfigurator<Cfg>> &out)
{
  auto parts = verif::split_toks(sec, ";");
  if (parts.empty() || parts[0].size() != 1 || parts[0][0].kind != Tok::INT) return false;
  auto cfg = [](const Tok &t) { return t.as_ll() ? Cfg::Enabled() : Cfg::Disabled(); };
  typename scope::ScopeConfigurator<Cfg>::Builder b(cfg(parts[0][0]));
  for (size_t i = 1; i < parts.size(); i++)
  {
    const Toks &r = parts[i];
    std::string v = r.size() == 3 ? r[1].s : std::string();
    if (r.size() == 3 && r[0].is_tag("N") && r[1].kind == Tok::BYTES)
      b.AddCondition([v](const scope::InstrumentationScope &s) { verif::this_thread::yield(); return s.GetName() == v; }, cfg(r[2]));
    else if (r.size() == 2 && r[0].is_tag("HV"))
      b.AddCondition([](const scope::InstrumentationScope &s) { verif::this_thread::yield(); return !s.GetVersion().empty(); }, cfg(r[1]));
    else if (r.size() == 3 && r[0].is_tag("VE") && r[1].kind == Tok::BYTES)
      b.AddCondition([v](const scope::InstrumentationScope &s) { verif::this_thread::yield(); return s.GetVersion() == v; }, cfg(r[2]));
    else if (r.size() == 3 && r[0].is_tag("SE") && r[1].kind == Tok::BYTES)
      b.AddCondition([v](const scope::InstrumentationScope &s) { verif::this_thread::yield(); return s.GetSchemaURL() == v; }, cfg(r[2]));
    else if (r.size() == 2 && r[0].is_tag("ANY"))
      b.AddCondition([](const scope::InstrumentationScope &) { verif::this_thread::yield(); return true; }, cfg(r[1]));
    else
      return false;
  }
  out.reset(new scope::ScopeConfigurator<Cfg>(b.Build()));
  return true;
}

struct Req
{
  std::unique_ptr<ExactBuf> a, b, c, d;   // T/M: name version schema;  L: logger name, library, version, schema
  std::vector<std::unique_ptr<ExactBuf>> bufs;
  std::vector<std::pair<nostd::string_view, common::AttributeValue>> kv;
};

static bool parse_req(bool logger, const Toks &op, Req &r)
{
  if (op.empty() || !op[0].is_tag("G")) return false;
  size_t fixed = logger ? 5 : 4;
  if (op.size() < fixed || (!logger && op.size() != 4) || (logger && (op.size() - 5) % 2 != 0)) return false;
  for (size_t i = 1; i < fixed; i++)
    if (op[i].kind != Tok::BYTES) return false;
  r.a.reset(new ExactBuf(op[1].s));
  r.b.reset(new ExactBuf(op[2].s));
  r.c.reset(new ExactBuf(op[3].s));
  if (logger) r.d.reset(new ExactBuf(op[4].s));
  for (size_t i = fixed; i + 1 < op.size(); i += 2)
  {
    if (op[i].kind != Tok::BYTES) return false;
    r.bufs.emplace_back(new ExactBuf(op[i].s));
    nostd::string_view key = sv(*r.bufs.back());
    if (op[i + 1].kind == Tok::INT) r.kv.emplace_back(key, common::AttributeValue(int64_t(op[i + 1].as_ll())));
    else if (op[i + 1].kind == Tok::BYTES)
    {
      r.bufs.emplace_back(new ExactBuf(op[i + 1].s));
      r.kv.emplace_back(key, common::AttributeValue(sv(*r.bufs.back())));
    }
    else return false;
  }
  return true;
}

static std::string owned_attr_print(const opentelemetry::sdk::common::OwnedAttributeValue &v)
{
  if (nostd::holds_alternative<int64_t>(v)) return std::to_string(nostd::get<int64_t>(v));
  if (nostd::holds_alternative<std::string>(v)) return verif::hex(nostd::get<std::string>(v));
  return "OTHER";
}

static void print_handle(Out &o, size_t cls, bool produced, const scope::InstrumentationScope &sc)
{
  o.tag("H").num((long long)cls).boolean(produced).bytes(sc.GetName()).bytes(sc.GetVersion()).bytes(sc.GetSchemaURL());
  std::vector<std::pair<std::string, std::string>> a;
  for (auto &kv : sc.GetAttributes()) a.emplace_back(kv.first, owned_attr_print(kv.second));
  std::sort(a.begin(), a.end());
  for (auto &kv : a) { o.bytes(kv.first); o.tag(kv.second); }
}

template <class P>
static size_t class_of(std::vector<P> &seen, const P &p)
{
  for (size_t i = 0; i < seen.size(); i++)
    if (seen[i].get() == p.get()) { seen.push_back(p); return i; }
  seen.push_back(p);
  return seen.size() - 1;
}

// ---- sinks
class SpanProc : public tsdk::SpanProcessor
{
public:
  explicit SpanProc(std::set<std::string> *s) : names_(s) {}
  std::unique_ptr<tsdk::Recordable> MakeRecordable() noexcept override { return std::unique_ptr<tsdk::Recordable>(new tsdk::SpanData()); }
  void OnStart(tsdk::Recordable &, const opentelemetry::trace::SpanContext &) noexcept override {}
  void OnEnd(std::unique_ptr<tsdk::Recordable> &&span) noexcept override
  {
    names_->insert(std::string(static_cast<tsdk::SpanData *>(span.get())->GetName()));
  }
  bool ForceFlush(std::chrono::microseconds) noexcept override { return true; }
  bool Shutdown(std::chrono::microseconds) noexcept override { return true; }

private:
  std::set<std::string> *names_;
};
class LogProc : public lsdk::LogRecordProcessor
{
public:
  explicit LogProc(std::set<std::string> *s) : bodies_(s) {}
  std::unique_ptr<lsdk::Recordable> MakeRecordable() noexcept override { return std::unique_ptr<lsdk::Recordable>(new lsdk::ReadWriteLogRecord()); }
  void OnEmit(std::unique_ptr<lsdk::Recordable> &&rec) noexcept override
  {
    auto *r = static_cast<lsdk::ReadWriteLogRecord *>(rec.get());
    if (nostd::holds_alternative<nostd::string_view>(r->GetBody())) bodies_->insert(std::string(nostd::get<nostd::string_view>(r->GetBody())));
  }
  bool ForceFlush(std::chrono::microseconds) noexcept override { return true; }
  bool Shutdown(std::chrono::microseconds) noexcept override { return true; }

private:
  std::set<std::string> *bodies_;
};
class Reader : public msdk::MetricReader
{
public:
  msdk::AggregationTemporality GetAggregationTemporality(msdk::InstrumentType) const noexcept override { return msdk::AggregationTemporality::kCumulative; }
  bool OnForceFlush(std::chrono::microseconds) noexcept override { return true; }
  bool OnShutDown(std::chrono::microseconds) noexcept override { return true; }
};

// the case, parsed:  threads of requests + the schedule
struct Script
{
  std::vector<std::vector<Req>> threads;
  std::vector<std::pair<size_t, size_t>> order;   // (thread, op) in script order
};

static bool parse_script(bool logger, const std::vector<Toks> &secs, size_t from, Script &sc)
{
  Sched &S = Sched::I();
  bool have_sched = false;
  for (size_t i = from; i < secs.size(); i++)
  {
    if (secs[i].empty() || have_sched) return false;
    if (secs[i][0].is_tag("s"))
    {
      S.set_schedule(verif::parse_schedule(Toks(secs[i].begin() + 1, secs[i].end())));
      have_sched = true;
      continue;
    }
    if (!secs[i][0].is_tag("T")) return false;
    sc.threads.emplace_back();
    if (secs[i].size() == 1) continue;
    for (auto &op : verif::split_toks(secs[i], ";", 1))
    {
      sc.threads.back().emplace_back();
      if (!parse_req(logger, op, sc.threads.back().back())) return false;
      sc.order.emplace_back(sc.threads.size() - 1, sc.threads.back().size() - 1);
    }
  }
  return have_sched;
}

// the provider-lock trace of the race and of the single-threaded repetition, for the acceptor (coq/C19/Lts.v):
//   <thread> C | <thread> L | <thread> U | <thread> R <instance numbered by order of first return>
// the repetition is thread number <number of threads>; the provider mutex is the first mutex locked after the threads
// were spawned, a lock/unlock of any other mutex is reported as X (which the acceptor does not take)
static size_t g_ev0 = 0;
static std::string trace_tokens(size_t nthreads)
{
  Sched &S = Sched::I();
  std::string out, pmutex;
  auto &ev = S.events();
  for (size_t i = g_ev0; i < ev.size(); i++)
  {
    std::istringstream is(ev[i]);
    long long tid;
    std::string verb, a;
    is >> tid >> verb >> a;
    std::string tok;
    if (verb == "call") tok = "C";
    else if (verb == "ret") tok = "R " + a;
    else if (verb == "lock" || verb == "unlock")
    {
      if (pmutex.empty() && verb == "lock") pmutex = a;
      tok = a == pmutex ? (verb == "lock" ? "L" : "U") : "X";
    }
    else continue;   // yields, spin-lock flag operations, spawn/join: not provider-lock events
    if (!out.empty()) out += " ; ";
    out += std::to_string(tid < 0 ? (long long)nthreads : tid) + " " + tok;
  }
  return out;
}

template <class H, class GetF>
static void race(Script &sc, std::vector<std::vector<H>> &got, std::vector<H> &later, GetF get)
{
  Sched &S = Sched::I();
  got.resize(sc.threads.size());
  for (size_t ti = 0; ti < sc.threads.size(); ti++) got[ti].resize(sc.threads[ti].size());
  std::vector<H> returned;   // in the order of first return (one thread runs at a time)
  auto call = [&](Req &r) {
    S.log("call");
    H h      = get(r);
    size_t c = 0;
    while (c < returned.size() && returned[c].get() != h.get()) c++;
    if (c == returned.size()) returned.push_back(h);
    S.log("ret " + std::to_string(c));
    return h;
  };
  g_ev0 = S.events().size();
  for (size_t ti = 0; ti < sc.threads.size(); ti++)
    S.spawn([&, ti] {
      for (size_t k = 0; k < sc.threads[ti].size(); k++) got[ti][k] = call(sc.threads[ti][k]);
    });
  S.set_step_limit(20000);
  if (!sc.threads.empty()) S.run_all();
  for (auto &tk : sc.order) later.push_back(call(sc.threads[tk.first][tk.second]));   // single-threaded, afterwards
}

static void run_prace(const Toks &t, Out &o)
{
  auto secs = verif::split_toks(t, "|", 1);
  if (secs.size() < 3 || secs[0].size() != 1) { o.tag("BADCASE"); return; }
  Sched &S = Sched::I();
  S.reset();
  const Tok &kind = secs[0][0];
  Script sc;
  if (!parse_script(kind.is_tag("L"), secs, 2, sc)) { o.tag("BADCASE"); return; }
  auto resource = opentelemetry::sdk::resource::Resource::Create({});
  if (kind.is_tag("T"))
  {
    std::unique_ptr<scope::ScopeConfigurator<tsdk::TracerConfig>> conf;
    if (!build_configurator<tsdk::TracerConfig>(secs[1], conf)) { o.tag("BADCASE"); return; }
    std::set<std::string> names;
    auto provider = std::make_shared<tsdk::TracerProvider>(
        std::unique_ptr<tsdk::SpanProcessor>(new SpanProc(&names)), resource, std::unique_ptr<tsdk::Sampler>(new tsdk::AlwaysOnSampler),
        std::unique_ptr<tsdk::IdGenerator>(new tsdk::RandomIdGenerator()), std::move(conf));
    typedef nostd::shared_ptr<opentelemetry::trace::Tracer> H;
    std::vector<std::vector<H>> got;
    std::vector<H> later, all, seen;
    race(sc, got, later, [&](Req &r) { return provider->GetTracer(sv(*r.a), sv(*r.b), sv(*r.c)); });
    for (auto &tk : sc.order) all.push_back(got[tk.first][tk.second]);
    all.insert(all.end(), later.begin(), later.end());
    for (size_t i = 0; i < all.size(); i++) all[i]->StartSpan(std::to_string(i))->End();
    for (size_t i = 0; i < all.size(); i++)
      print_handle(o, class_of(seen, all[i]), names.count(std::to_string(i)) != 0,
                   static_cast<tsdk::Tracer *>(all[i].get())->GetInstrumentationScope());
  }
  else if (kind.is_tag("L"))
  {
    std::unique_ptr<scope::ScopeConfigurator<lsdk::LoggerConfig>> conf;
    if (!build_configurator<lsdk::LoggerConfig>(secs[1], conf)) { o.tag("BADCASE"); return; }
    std::set<std::string> bodies;
    auto provider = std::make_shared<lsdk::LoggerProvider>(std::unique_ptr<lsdk::LogRecordProcessor>(new LogProc(&bodies)), resource,
                                                           std::move(conf));
    typedef nostd::shared_ptr<opentelemetry::logs::Logger> H;
    std::vector<std::vector<H>> got;
    std::vector<H> later, all, seen;
    race(sc, got, later, [&](Req &r) {
      common::KeyValueIterableView<std::vector<std::pair<nostd::string_view, common::AttributeValue>>> attrs(r.kv);
      return provider->GetLogger(sv(*r.a), sv(*r.b), sv(*r.c), sv(*r.d), attrs);
    });
    for (auto &tk : sc.order) all.push_back(got[tk.first][tk.second]);
    all.insert(all.end(), later.begin(), later.end());
    std::vector<std::string> body(all.size());
    for (size_t i = 0; i < all.size(); i++)
    {
      body[i] = std::to_string(i);
      all[i]->EmitLogRecord(opentelemetry::logs::Severity::kInfo, nostd::string_view(body[i]));
    }
    for (size_t i = 0; i < all.size(); i++)
      print_handle(o, class_of(seen, all[i]), bodies.count(body[i]) != 0,
                   static_cast<lsdk::Logger *>(all[i].get())->GetInstrumentationScope());
  }
  else if (kind.is_tag("M"))
  {
    std::unique_ptr<scope::ScopeConfigurator<msdk::MeterConfig>> conf;
    if (!build_configurator<msdk::MeterConfig>(secs[1], conf)) { o.tag("BADCASE"); return; }
    auto provider = std::make_shared<msdk::MeterProvider>(std::unique_ptr<msdk::ViewRegistry>(new msdk::ViewRegistry()), resource,
                                                          std::move(conf));
    std::shared_ptr<Reader> reader(new Reader());
    provider->AddMetricReader(reader);
    typedef nostd::shared_ptr<opentelemetry::metrics::Meter> H;
    std::vector<std::vector<H>> got;
    std::vector<H> later, all, seen;
    race(sc, got, later, [&](Req &r) { return provider->GetMeter(sv(*r.a), sv(*r.b), sv(*r.c)); });
    for (auto &tk : sc.order) all.push_back(got[tk.first][tk.second]);
    all.insert(all.end(), later.begin(), later.end());
    opentelemetry::context::Context ctx;
    for (size_t i = 0; i < all.size(); i++) all[i]->CreateUInt64Counter("h" + std::to_string(i))->Add(1, ctx);
    // a counter's stream counts only if it is reported under the scope object of the meter that created it
    std::set<std::pair<std::string, const void *>> streams;
    reader->Collect([&](msdk::ResourceMetrics &rm) {
      for (auto &sm : rm.scope_metric_data_)
        for (auto &md : sm.metric_data_) streams.insert({md.instrument_descriptor.name_, sm.scope_});
      return true;
    });
    for (size_t i = 0; i < all.size(); i++)
    {
      auto *m = static_cast<msdk::Meter *>(all[i].get());
      print_handle(o, class_of(seen, all[i]), streams.count({"h" + std::to_string(i), m->GetInstrumentationScope()}) != 0,
                   *m->GetInstrumentationScope());
    }
  }
  else { o.tag("BADCASE"); return; }
  o.tag("||");
  std::string tr = trace_tokens(sc.threads.size());
  if (!tr.empty()) o.add(tr);
}

int main(int argc, char **argv)
{
  opentelemetry::sdk::common::internal_log::GlobalLogHandler::SetLogLevel(opentelemetry::sdk::common::internal_log::LogLevel::None);
  return verif::run_cases_forked(argc, argv, [](const Toks &t, Out &o) {
    if (!t.empty() && t[0].is_tag("PRACE")) run_prace(t, o);
    else o.tag("BADCASE");
  });
}
