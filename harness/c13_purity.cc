// C13 independence probe: a run-time check (NOT a theorem) of what the C13 model takes for granted about threads - the
// log pipeline keeps no hidden state shared between loggers / records / threads, and the identity a record gets is the one
// active on ITS thread.  Built with -fsanitize=thread against the SDK sources of the tree under test.
//
//   c13_purity <scenario> <threads> <rounds> <iters>     ->  PURE | DIFFERS x<hex description>
//     scenario 0: one SimpleLogRecordProcessor, 1: two of them, 2: simple + BatchLogRecordProcessor (ForceFlush at the end);
//     every exporter COPIES what it is handed (canonical string per record) inside Export.
//   Every round builds a fresh LoggerProvider.  3-4 REAL threads released by a barrier; each thread, inside its own nested
//   scopes (its own span identities), emits `iters` times every argument shape the model knows - through ITS OWN logger and
//   through ONE SHARED logger.  Each thread keeps its buffers alive and unchanged until the flush (F15 is not the subject).
//   Afterwards, per processor, the multiset of records seen must be the single-threaded reference (the same thread programs
//   run one after the other): every record exactly once, fields as supplied, the emitting thread's identity.
//   A ThreadSanitizer report (tools/purity.py) becomes RACE x<report head> when it has a frame in the library.
#include <algorithm>
#include <chrono>
#include <cstring>
#include <map>
#include <memory>
#include <mutex>
#include <sstream>
#include <string>
#include <thread>
#include <vector>

#include "opentelemetry/common/key_value_iterable_view.h"
#include "opentelemetry/context/runtime_context.h"
#include "opentelemetry/logs/logger.h"
#include "opentelemetry/sdk/logs/batch_log_record_processor.h"
#include "opentelemetry/sdk/logs/batch_log_record_processor_options.h"
#include "opentelemetry/sdk/logs/exporter.h"
#include "opentelemetry/sdk/logs/logger_provider.h"
#include "opentelemetry/sdk/logs/read_write_log_record.h"
#include "opentelemetry/sdk/logs/simple_log_record_processor.h"
#include "opentelemetry/sdk/resource/resource.h"
#include "opentelemetry/trace/default_span.h"
#include "opentelemetry/trace/scope.h"
#include "opentelemetry/trace/span_context.h"
#include "purity/purity_probe.h"

namespace nostd  = opentelemetry::nostd;
namespace common = opentelemetry::common;
namespace logs   = opentelemetry::logs;
namespace trace  = opentelemetry::trace;
namespace lsdk   = opentelemetry::sdk::logs;
namespace rsdk   = opentelemetry::sdk::resource;
typedef std::vector<std::pair<nostd::string_view, common::AttributeValue>> KvVec;

static std::string hexs(const void *p, size_t n) { return purity::hex(std::string(static_cast<const char *>(p), n)); }

static void put_value(std::ostringstream &o, const common::AttributeValue &v)
{
  switch (v.index())
  {
    case common::kTypeBool: o << "b" << nostd::get<bool>(v); break;
    case common::kTypeInt: o << "i" << nostd::get<int32_t>(v); break;
    case common::kTypeInt64: o << "l" << nostd::get<int64_t>(v); break;
    case common::kTypeUInt: o << "u" << nostd::get<uint32_t>(v); break;
    case common::kTypeDouble: o << "d" << nostd::get<double>(v); break;
    case common::kTypeCString: o << "c" << nostd::get<const char *>(v); break;
    case common::kTypeString: { auto s = nostd::get<nostd::string_view>(v); o << "s" << std::string(s.data(), s.size()); break; }
    case common::kTypeSpanInt64: { o << "L"; for (auto x : nostd::get<nostd::span<const int64_t>>(v)) o << "," << x; break; }
    case common::kTypeSpanString: { o << "S"; for (auto x : nostd::get<nostd::span<const nostd::string_view>>(v)) o << "," << std::string(x.data(), x.size()); break; }
    default: o << "?" << v.index();
  }
}

// everything but the observed timestamp (a clock value)
static std::string render(const lsdk::ReadWriteLogRecord &r)
{
  std::ostringstream o;
  o << "sev=" << int(static_cast<uint8_t>(r.GetSeverity())) << " body=";
  put_value(o, r.GetBody());
  o << " ts=" << r.GetTimestamp().time_since_epoch().count() << " eid=" << r.GetEventId() << " en=" << std::string(r.GetEventName().data(), r.GetEventName().size());
  o << " tid=" << hexs(r.GetTraceId().Id().data(), 16) << " sid=" << hexs(r.GetSpanId().Id().data(), 8) << " fl=" << int(r.GetTraceFlags().flags());
  std::map<std::string, std::string> at;
  for (auto &kv : r.GetAttributes()) { std::ostringstream v; put_value(v, kv.second); at[kv.first] = v.str(); }
  for (auto &kv : at) o << " " << kv.first << "=" << kv.second;
  o << " scope=" << r.GetInstrumentationScope().GetName();
  auto it = r.GetResource().GetAttributes().find("verif.id");
  o << " res=" << (it != r.GetResource().GetAttributes().end() && nostd::holds_alternative<std::string>(it->second) ? nostd::get<std::string>(it->second) : "?");
  return o.str();
}

struct Sink
{
  std::mutex m;
  std::vector<std::string> seen;
};
class CopyExporter final : public lsdk::LogRecordExporter
{
public:
  explicit CopyExporter(std::shared_ptr<Sink> s) : s_(std::move(s)) {}
  std::unique_ptr<lsdk::Recordable> MakeRecordable() noexcept override { return std::unique_ptr<lsdk::Recordable>(new lsdk::ReadWriteLogRecord()); }
  opentelemetry::sdk::common::ExportResult Export(const nostd::span<std::unique_ptr<lsdk::Recordable>> &records) noexcept override
  {
    for (auto &r : records)
    {
      if (!r) continue;
      std::string line = render(*static_cast<lsdk::ReadWriteLogRecord *>(r.get()));
      std::lock_guard<std::mutex> g(s_->m);
      s_->seen.push_back(std::move(line));
    }
    return opentelemetry::sdk::common::ExportResult::kSuccess;
  }
  bool ForceFlush(std::chrono::microseconds) noexcept override { return true; }
  bool Shutdown(std::chrono::microseconds) noexcept override { return true; }

private:
  std::shared_ptr<Sink> s_;
};

static trace::SpanContext ctx_of(int t, int level)
{
  uint8_t tid[16], sid[8];
  std::memset(tid, 0x10 + t, 16); tid[15] = uint8_t(level);
  std::memset(sid, 0x40 + t, 8);  sid[7] = uint8_t(level);
  return trace::SpanContext(trace::TraceId(tid), trace::SpanId(sid), trace::TraceFlags(uint8_t(level == 1 ? 1 : 3)), false);
}

// one thread's program: its buffers live in `st` until the caller has flushed
struct ThreadStore
{
  std::vector<std::unique_ptr<std::string>> strings;
  std::vector<std::unique_ptr<std::vector<int64_t>>> arrays;
  std::vector<std::unique_ptr<std::vector<nostd::string_view>>> views;
  std::vector<std::unique_ptr<KvVec>> kvs;
  const std::string &str(const std::string &s) { strings.emplace_back(new std::string(s)); return *strings.back(); }
};

static void program(int t, int iters, logs::Logger &own, logs::Logger &shared, ThreadStore &st)
{
  nostd::shared_ptr<trace::Span> outer(new trace::DefaultSpan(ctx_of(t, 1)));
  nostd::shared_ptr<trace::Span> inner(new trace::DefaultSpan(ctx_of(t, 2)));
  trace::Scope so(outer);
  for (int i = 0; i < iters; i++)
  {
    for (int which = 0; which < 2; which++)
    {
      logs::Logger &lg = which ? shared : own;
      auto label = [&](int shape) -> KvVec & {
        st.kvs.emplace_back(new KvVec());
        KvVec &kv = *st.kvs.back();
        kv.emplace_back("t", int32_t(t)); kv.emplace_back("i", int32_t(i)); kv.emplace_back("s", int32_t(shape)); kv.emplace_back("w", which != 0);
        kv.emplace_back("str", nostd::string_view(st.str("v" + std::to_string(t) + "." + std::to_string(i))));
        kv.emplace_back("t", int32_t(t));   // written twice: last write wins
        return kv;
      };
      const std::string &body = st.str("body t" + std::to_string(t) + " i" + std::to_string(i));
      {   // 0: severity, string_view, KeyValueIterable
        KvVec &kv = label(0); common::KeyValueIterableView<KvVec> view(kv);
        const common::KeyValueIterable &kvi = view;
        lg.EmitLogRecord(logs::Severity::kInfo, nostd::string_view(body), kvi);
      }
      {   // 1: event id with a name, const char*, container; inside the inner scope
        trace::Scope si(inner);
        KvVec &kv = label(1);
        logs::EventId e(100 + t, "evt" + std::to_string(t));
        lg.EmitLogRecord(logs::Severity::kWarn, e, body.c_str(), kv);
      }
      {   // 2: event id without a name, AttributeValue body, MakeAttributes span, SystemTimestamp (outer scope again)
        KvVec &kv = label(2);
        logs::EventId e(200 + t);
        common::AttributeValue bv = int64_t(1000 * t + i);
        lg.EmitLogRecord(e, bv, common::MakeAttributes(nostd::span<const std::pair<nostd::string_view, common::AttributeValue>>(kv.data(), kv.size())),
                         common::SystemTimestamp(std::chrono::nanoseconds(7000 + t)));
      }
      {   // 3: explicit SpanContext wins, time_point
        KvVec &kv = label(3);
        trace::SpanContext ex = ctx_of(t + 8, 5);
        lg.EmitLogRecord(logs::Severity::kError, ex, nostd::string_view(body), kv,
                         std::chrono::system_clock::time_point(std::chrono::duration_cast<std::chrono::system_clock::duration>(std::chrono::nanoseconds(9000 + t))));
      }
      {   // 4: explicit trace id only: span id / flags stay those of the active span
        KvVec &kv = label(4);
        lg.EmitLogRecord(ctx_of(t + 4, 6).trace_id(), logs::Severity::kDebug, kv);
      }
      {   // 5: Log() wrapper and a named level, array values
        KvVec &kv = label(5);
        st.arrays.emplace_back(new std::vector<int64_t>{t, i, 42});
        kv.emplace_back("arr", nostd::span<const int64_t>(st.arrays.back()->data(), st.arrays.back()->size()));
        common::KeyValueIterableView<KvVec> view(kv);
        const common::KeyValueIterable &kvi = view;
        lg.Log(logs::Severity::kFatal, int64_t(300 + t), nostd::string_view(body), kvi);
        lg.Info(nostd::string_view(body), kvi);
      }
      {   // 6: Create / set / Emit, created in the inner scope, emitted outside it
        KvVec &kv = label(6);
        nostd::unique_ptr<logs::LogRecord> r;
        { trace::Scope si(inner); r = lg.CreateLogRecord(); }
        if (r)
        {
          r->SetSeverity(logs::Severity::kTrace);
          st.views.emplace_back(new std::vector<nostd::string_view>{nostd::string_view(body), nostd::string_view("x")});
          r->SetBody(nostd::span<const nostd::string_view>(st.views.back()->data(), st.views.back()->size()));
          for (auto &p : kv) r->SetAttribute(p.first, p.second);
          r->SetEventId(400 + t, "raw");
        }
        lg.EmitLogRecord(std::move(r));
        lg.EmitLogRecord(nostd::unique_ptr<logs::LogRecord>());   // a null record is ignored
      }
    }
  }
}

struct Result { std::vector<std::vector<std::string>> per_proc; };

static Result run_world(int scenario, int threads, int iters, bool concurrent)
{
  std::vector<std::shared_ptr<Sink>> sinks;
  std::vector<std::unique_ptr<lsdk::LogRecordProcessor>> procs;
  auto simple = [&] {
    sinks.push_back(std::make_shared<Sink>());
    procs.emplace_back(new lsdk::SimpleLogRecordProcessor(std::unique_ptr<lsdk::LogRecordExporter>(new CopyExporter(sinks.back()))));
  };
  simple();
  if (scenario == 1) simple();
  if (scenario == 2)
  {
    sinks.push_back(std::make_shared<Sink>());
    lsdk::BatchLogRecordProcessorOptions opt;
    opt.max_queue_size = 8192; opt.schedule_delay_millis = std::chrono::milliseconds(1); opt.max_export_batch_size = 16;
    procs.emplace_back(new lsdk::BatchLogRecordProcessor(std::unique_ptr<lsdk::LogRecordExporter>(new CopyExporter(sinks.back())), opt));
  }
  std::vector<ThreadStore> stores(threads);   // outlives the provider: nothing is freed while a processor can still read it
  lsdk::LoggerProvider prov(std::move(procs), rsdk::Resource::Create({{"verif.id", std::string("res")}}));
  auto shared = prov.GetLogger("shared", "shared-lib", "1", "");
  auto body = [&](int t) {
    auto own = prov.GetLogger("own" + std::to_string(t), "lib" + std::to_string(t), "", "");
    program(t, iters, *own, *shared, stores[t]);
  };
  if (concurrent)
  {
    purity::Barrier bar(threads);
    std::vector<std::thread> ts;
    for (int t = 0; t < threads; t++) ts.emplace_back([&, t] { bar.wait(); body(t); });
    for (auto &th : ts) th.join();
  }
  else
    for (int t = 0; t < threads; t++) body(t);
  prov.ForceFlush();
  Result r;
  for (auto &s : sinks)
  {
    std::lock_guard<std::mutex> g(s->m);
    r.per_proc.push_back(s->seen);
    std::sort(r.per_proc.back().begin(), r.per_proc.back().end());
  }
  return r;
}

static std::string first_difference(const Result &ref, const Result &got)
{
  for (size_t p = 0; p < ref.per_proc.size(); p++)
  {
    const auto &a = ref.per_proc[p], &b = got.per_proc[p];
    size_t i = 0, j = 0;
    while (i < a.size() && j < b.size() && a[i] == b[j]) { i++; j++; }
    if (i == a.size() && j == b.size()) continue;
    std::ostringstream o;
    o << "processor " << p << ": expected " << a.size() << " records, saw " << b.size() << "; ";
    if (j < b.size() && (i == a.size() || b[j] < a[i]))
      o << (j > 0 && b[j] == b[j - 1] ? "seen twice: " : "not emitted: ") << b[j].substr(0, 300);
    else
      o << "missing: " << a[i].substr(0, 300);
    return o.str();
  }
  return "";
}

int main(int argc, char **argv)
{
  if (argc != 5) { std::printf("BADCASE\n"); return 0; }
  const int scenario = std::atoi(argv[1]), threads = std::atoi(argv[2]), rounds = std::atoi(argv[3]), iters = std::atoi(argv[4]);
  if (scenario < 0 || scenario > 2 || threads < 1 || threads > 8 || rounds < 1 || iters < 1) { std::printf("BADCASE\n"); return 0; }
  Result ref = run_world(scenario, threads, iters, false);
  std::string mismatch = first_difference(ref, run_world(scenario, threads, iters, false));
  if (!mismatch.empty()) mismatch = "single-threaded second run differs: " + mismatch;
  // 16 records per (thread, iteration): 7 shapes (shape 5 emits two) through two loggers
  for (auto &p : ref.per_proc)
    if (mismatch.empty() && p.size() != size_t(threads) * size_t(iters) * 16) mismatch = "reference: " + std::to_string(p.size()) + " records";
  for (int r = 0; r < rounds && mismatch.empty(); r++)
  {
    std::string d = first_difference(ref, run_world(scenario, threads, iters, true));
    if (!d.empty()) mismatch = "round " + std::to_string(r) + ": " + d;
  }
  if (mismatch.empty()) std::printf("PURE\n");
  else std::printf("DIFFERS %s\n", purity::hex(mismatch.substr(0, 500)).c_str());
  return 0;
}
