// C01-C03 independence probe: a run-time check (NOT a theorem) of what the batch / simple processor models assume beyond ONE
// processor's protocol: distinct processor objects are independent - no hidden mutable state (a function-local or class
// static, a shared scratch buffer) is shared between two processors or between the span and the log variant.  Every
// operation builds its OWN processor with its OWN recording exporter, feeds it a burst of records from the calling thread,
// flushes, shuts down and returns what that exporter saw; several REAL threads run these operations at the same time (the
// workers of all those processors run too).  The result must equal the single-threaded reference, and ThreadSanitizer must
// stay silent: an unsynchronised pair of accesses is reported whenever both execute without a happens-before edge - locks of
// different processors establish none - so no particular interleaving is needed.
// Case: PURITY <size> <threads> <rounds> <iters>     observation: PURE | DIFFERS x..   (RACE: tools/purity.py)
#include <chrono>
#include <memory>
#include <mutex>
#include <string>
#include <vector>

#include "opentelemetry/sdk/common/global_log_handler.h"
#include "opentelemetry/sdk/logs/batch_log_record_processor.h"
#include "opentelemetry/sdk/logs/exporter.h"
#include "opentelemetry/sdk/logs/read_write_log_record.h"
#include "opentelemetry/sdk/logs/simple_log_record_processor.h"
#include "opentelemetry/sdk/trace/batch_span_processor.h"
#include "opentelemetry/sdk/trace/batch_span_processor_options.h"
#include "opentelemetry/sdk/trace/exporter.h"
#include "opentelemetry/sdk/trace/simple_processor.h"
#include "opentelemetry/sdk/trace/span_data.h"
#include "purity/purity_probe.h"

namespace nostd    = opentelemetry::nostd;
namespace sdktrace = opentelemetry::sdk::trace;
namespace sdklogs  = opentelemetry::sdk::logs;
namespace sdkc     = opentelemetry::sdk::common;

namespace
{
struct Seen
{
  std::mutex m;
  std::vector<std::string> ids;     // in export order
  std::vector<size_t> batches;
  int flushes = 0, shutdowns = 0;
  std::string str()
  {
    std::lock_guard<std::mutex> g(m);
    std::string s = "X";
    for (auto &i : ids) s += " " + i;
    s += " B";
    for (auto b : batches) s += " " + std::to_string(b);
    s += " S " + std::to_string(shutdowns);
    return s;
  }
};

class SpanExp final : public sdktrace::SpanExporter
{
public:
  explicit SpanExp(std::shared_ptr<Seen> s) : seen_(std::move(s)) {}
  std::unique_ptr<sdktrace::Recordable> MakeRecordable() noexcept override { return std::unique_ptr<sdktrace::Recordable>(new sdktrace::SpanData()); }
  sdkc::ExportResult Export(const nostd::span<std::unique_ptr<sdktrace::Recordable>> &batch) noexcept override
  {
    std::lock_guard<std::mutex> g(seen_->m);
    seen_->batches.push_back(batch.size());
    for (auto &r : batch)
      seen_->ids.push_back(r ? std::string(static_cast<sdktrace::SpanData *>(r.get())->GetName()) : std::string("NULL"));
    return sdkc::ExportResult::kSuccess;
  }
  bool ForceFlush(std::chrono::microseconds) noexcept override { std::lock_guard<std::mutex> g(seen_->m); seen_->flushes++; return true; }
  bool Shutdown(std::chrono::microseconds) noexcept override { std::lock_guard<std::mutex> g(seen_->m); seen_->shutdowns++; return true; }

private:
  std::shared_ptr<Seen> seen_;
};

class LogExp final : public sdklogs::LogRecordExporter
{
public:
  explicit LogExp(std::shared_ptr<Seen> s) : seen_(std::move(s)) {}
  std::unique_ptr<sdklogs::Recordable> MakeRecordable() noexcept override { return std::unique_ptr<sdklogs::Recordable>(new sdklogs::ReadWriteLogRecord()); }
  sdkc::ExportResult Export(const nostd::span<std::unique_ptr<sdklogs::Recordable>> &batch) noexcept override
  {
    std::lock_guard<std::mutex> g(seen_->m);
    seen_->batches.push_back(batch.size());
    for (auto &r : batch)
      seen_->ids.push_back(r ? std::to_string(static_cast<sdklogs::ReadWriteLogRecord *>(r.get())->GetEventId()) : std::string("NULL"));
    return sdkc::ExportResult::kSuccess;
  }
  bool ForceFlush(std::chrono::microseconds) noexcept override { std::lock_guard<std::mutex> g(seen_->m); seen_->flushes++; return true; }
  bool Shutdown(std::chrono::microseconds) noexcept override { std::lock_guard<std::mutex> g(seen_->m); seen_->shutdowns++; return true; }

private:
  std::shared_ptr<Seen> seen_;
};

// ids are tagged with the operation, not with the thread: every thread must get the reference result
std::string span_run(sdktrace::SpanProcessor &p, int op, int n, bool flush)
{
  for (int i = 0; i < n; i++)
  {
    auto r = p.MakeRecordable();
    r->SetName("s" + std::to_string(op) + "_" + std::to_string(i));
    p.OnEnd(std::move(r));
  }
  std::string s;
  if (flush) s += p.ForceFlush(std::chrono::microseconds::max()) ? " F1" : " F0";
  s += p.Shutdown(std::chrono::microseconds::max()) ? " H1" : " H0";
  return s;
}
std::string log_run(sdklogs::LogRecordProcessor &p, int op, int n, bool flush)
{
  for (int i = 0; i < n; i++)
  {
    auto r = p.MakeRecordable();
    r->SetEventId(op * 1000 + i, "");
    p.OnEmit(std::move(r));
  }
  std::string s;
  if (flush) s += p.ForceFlush(std::chrono::microseconds::max()) ? " F1" : " F0";
  s += p.Shutdown(std::chrono::microseconds::max()) ? " H1" : " H0";
  return s;
}

class BatchWorld final : public purity::World
{
public:
  explicit BatchWorld(int size) : n_(size <= 0 ? 3 : size) {}
  size_t n_ops() const override { return 6; }
  const char *op_name(size_t i) const override
  {
    static const char *names[] = {"batch_span_flush", "batch_log_flush", "simple_span", "simple_log", "batch_span_shutdown_only",
                                  "batch_log_small_batches"};
    return names[i];
  }
  std::string run_op(size_t i, int) const override
  {
    auto seen = std::make_shared<Seen>();
    std::string r;
    switch (i)
    {
      case 0: {
        sdktrace::BatchSpanProcessorOptions o;
        o.max_queue_size        = 64;
        o.max_export_batch_size = 4;
        o.schedule_delay_millis = std::chrono::milliseconds(2);
        sdktrace::BatchSpanProcessor p(std::unique_ptr<sdktrace::SpanExporter>(new SpanExp(seen)), o);
        r = span_run(p, 0, n_ * 3, true);
        break;
      }
      case 1: {
        sdklogs::BatchLogRecordProcessor p(std::unique_ptr<sdklogs::LogRecordExporter>(new LogExp(seen)), 64, std::chrono::milliseconds(2), 4);
        r = log_run(p, 1, n_ * 3, true);
        break;
      }
      case 2: {
        sdktrace::SimpleSpanProcessor p(std::unique_ptr<sdktrace::SpanExporter>(new SpanExp(seen)));
        r = span_run(p, 2, n_, true);
        break;
      }
      case 3: {
        sdklogs::SimpleLogRecordProcessor p(std::unique_ptr<sdklogs::LogRecordExporter>(new LogExp(seen)));
        r = log_run(p, 3, n_, true);
        break;
      }
      case 4: {
        sdktrace::BatchSpanProcessorOptions o;
        o.max_queue_size        = 128;
        o.max_export_batch_size = 128;
        o.schedule_delay_millis = std::chrono::milliseconds(5000);
        sdktrace::BatchSpanProcessor p(std::unique_ptr<sdktrace::SpanExporter>(new SpanExp(seen)), o);
        r = span_run(p, 4, n_ * 2, false);
        break;
      }
      default: {
        sdklogs::BatchLogRecordProcessor p(std::unique_ptr<sdklogs::LogRecordExporter>(new LogExp(seen)), 64, std::chrono::milliseconds(5000), 1);
        r = log_run(p, 5, n_ * 2, true);
        break;
      }
    }
    // what the exporter saw: the records in order (batch boundaries depend on the worker's timing and are not compared;
    // the batch-size bound is) + the exporter shutdown count
    std::string s;
    {
      std::lock_guard<std::mutex> g(seen->m);
      s = "X";
      for (auto &id : seen->ids) s += " " + id;
      size_t maxb = 0;
      for (auto b : seen->batches) maxb = b > maxb ? b : maxb;
      size_t bound = (i == 0 || i == 1) ? 4 : (i == 5 ? 1 : (i == 4 ? 128 : 1));
      s += maxb <= bound ? " Bok" : " Btoo_large";
      s += " S " + std::to_string(seen->shutdowns);
    }
    return s + r;
  }

private:
  int n_;
};
}  // namespace

int main(int argc, char **argv)
{
  sdkc::internal_log::GlobalLogHandler::SetLogLevel(sdkc::internal_log::LogLevel::None);
  return purity::main_probe(argc, argv, [](int size) { return std::unique_ptr<purity::World>(new BatchWorld(size)); });
}
