// Shared by harness/c06_driver.cc (E-diff: SEQ, RACE with real threads) and harness/c06_sched_driver.cc (E-sched: SRACE
// under the deterministic scheduler shim): one MeterProvider with own MetricReaders, instrument handles, Add, Collect.
#pragma once
#include <algorithm>
#include <atomic>
#include <chrono>
#include <cmath>
#include <map>
#include <memory>
#include <string>
#include <thread>
#include <utility>
#include <vector>

#ifdef C06_OPEN_PRIVATE
// the scheduler-shim driver names the SDK's lock objects in the shim's log: it needs their addresses
#  define private public
#  define protected public
#endif
#include "opentelemetry/common/key_value_iterable_view.h"
#include "opentelemetry/metrics/sync_instruments.h"
#include "opentelemetry/sdk/common/global_log_handler.h"
#include "opentelemetry/sdk/metrics/meter_context.h"
#include "opentelemetry/sdk/metrics/meter_provider.h"
#include "opentelemetry/sdk/metrics/metric_reader.h"
#include "opentelemetry/sdk/metrics/view/instrument_selector.h"
#include "opentelemetry/sdk/metrics/view/meter_selector.h"
#include "opentelemetry/sdk/metrics/view/view.h"
#include "opentelemetry/sdk/metrics/view/view_registry.h"
#include "opentelemetry/sdk/metrics/meter.h"
#include "opentelemetry/sdk/metrics/state/sync_metric_storage.h"
#ifdef C06_OPEN_PRIVATE
#  undef private
#  undef protected
#endif
#include "common/verif_io.h"

namespace nostd  = opentelemetry::nostd;
namespace common = opentelemetry::common;
namespace msdk   = opentelemetry::sdk::metrics;
namespace mapi   = opentelemetry::metrics;
using verif::Out;
using verif::Tok;
typedef std::vector<Tok> Toks;
typedef std::vector<std::pair<std::string, std::string>> Key;

class Reader : public msdk::MetricReader
{
public:
  explicit Reader(msdk::AggregationTemporality t) : t_(t) {}
  msdk::AggregationTemporality GetAggregationTemporality(msdk::InstrumentType) const noexcept override { return t_; }

private:
  bool OnForceFlush(std::chrono::microseconds) noexcept override { return true; }
  bool OnShutDown(std::chrono::microseconds) noexcept override { return true; }
  msdk::AggregationTemporality t_;
};

struct Handle
{
  int kind = -1;   // 0 uint64 counter, 1 double counter, 2 int64 up-down, 3 double up-down
  long long meter = -1;
  std::string name;
  nostd::unique_ptr<mapi::Counter<uint64_t>> lc;
  nostd::unique_ptr<mapi::Counter<double>> dc;
  nostd::unique_ptr<mapi::UpDownCounter<int64_t>> lu;
  nostd::unique_ptr<mapi::UpDownCounter<double>> du;
};

struct AddOp
{
  size_t h = 0;
  bool with_attrs = false;
  Tok value;
  std::vector<std::pair<std::string, std::string>> kv;
};

struct Point
{
  Key key;
  bool bad = false;   // not a sum point / not an integer / not a string attribute
  bool mono = false, dbl = false;
  long long v = 0;
};
struct Stream
{
  long long meter = -1;
  std::string name;
  bool delta = false;
  bool desc_mono = false, desc_dbl = false;   // from the MetricData's instrument descriptor
  int64_t start_ns = 0, end_ns = 0;
  std::vector<Point> pts;
};

struct Sdk
{
  msdk::MeterContext *ctx = nullptr;
  std::shared_ptr<msdk::MeterProvider> provider;
  std::vector<std::shared_ptr<Reader>> readers;
  std::vector<bool> reader_delta;
  std::vector<nostd::shared_ptr<mapi::Meter>> meters;
  std::vector<std::unique_ptr<Handle>> handles;
  int64_t start_ns = 0;
};

static bool setup(const Toks &readers, const Toks &views, const Toks &meters, Sdk &s)
{
  if (readers.empty() || readers.size() > 8) return false;
  if (meters.size() != 1 || meters[0].kind != Tok::INT) return false;
  long long nm = meters[0].as_ll();
  if (nm < 1 || nm > 4) return false;
  std::unique_ptr<msdk::ViewRegistry> reg(new msdk::ViewRegistry());
  if (!views.empty())
    for (auto &v : verif::split_toks(views, ";"))
    {
      // V <counter 0/1> <x<name> | ANY> <meter | -1> x<stream name>
      if (v.size() != 5 || !v[0].is_tag("V") || v[1].kind != Tok::INT || v[3].kind != Tok::INT || v[4].kind != Tok::BYTES) return false;
      std::string pat;
      if (v[2].kind == Tok::BYTES) pat = v[2].s;
      else if (v[2].is_tag("ANY")) pat = "*";
      else return false;
      long long m = v[3].as_ll();
      if (m >= nm) return false;
      std::string mname = m < 0 ? std::string() : "m" + std::to_string(m);
      auto type = v[1].as_ll() == 1 ? msdk::InstrumentType::kCounter : msdk::InstrumentType::kUpDownCounter;
      std::unique_ptr<msdk::InstrumentSelector> is(new msdk::InstrumentSelector(type, pat, ""));
      std::unique_ptr<msdk::MeterSelector> ms(new msdk::MeterSelector(mname, "", ""));
      std::unique_ptr<msdk::View> view(new msdk::View(v[4].s));
      reg->AddView(std::move(is), std::move(ms), std::move(view));
    }
  std::unique_ptr<msdk::MeterContext> ctx(new msdk::MeterContext(std::move(reg)));
  s.ctx      = ctx.get();
  s.start_ns = s.ctx->GetSDKStartTime().time_since_epoch().count();
  s.provider = std::make_shared<msdk::MeterProvider>(std::move(ctx));
  for (auto &r : readers)
  {
    if (r.kind != Tok::INT || (r.as_ll() != 0 && r.as_ll() != 1)) return false;
    bool delta = r.as_ll() == 0;
    s.readers.emplace_back(new Reader(delta ? msdk::AggregationTemporality::kDelta : msdk::AggregationTemporality::kCumulative));
    s.reader_delta.push_back(delta);
    s.provider->AddMetricReader(s.readers.back());
  }
  for (long long m = 0; m < nm; m++) s.meters.push_back(s.provider->GetMeter("m" + std::to_string(m)));
  return true;
}

static bool do_new(Sdk &s, const Toks &op)
{
  if (op.size() != 4 || !op[0].is_tag("N") || op[1].kind != Tok::INT || op[2].kind != Tok::INT || op[3].kind != Tok::BYTES) return false;
  long long m = op[1].as_ll(), k = op[2].as_ll();
  if (m < 0 || m >= (long long)s.meters.size() || k < 0 || k > 3) return false;
  std::unique_ptr<Handle> h(new Handle());
  h->kind = int(k);
  h->meter = m;
  h->name  = op[3].s;
  nostd::string_view name(op[3].s.data(), op[3].s.size());
  switch (k)
  {
    case 0: h->lc = s.meters[m]->CreateUInt64Counter(name, "", ""); break;
    case 1: h->dc = s.meters[m]->CreateDoubleCounter(name, "", ""); break;
    case 2: h->lu = s.meters[m]->CreateInt64UpDownCounter(name, "", ""); break;
    default: h->du = s.meters[m]->CreateDoubleUpDownCounter(name, "", ""); break;
  }
  s.handles.push_back(std::move(h));
  return true;
}

// A <handle> <value>   |   K <handle> <value> (x<key> x<value>)*
static bool parse_add(const Toks &op, size_t from, AddOp &a)
{
  if (op.size() < from + 3 || op[from + 1].kind != Tok::INT || op[from + 2].kind != Tok::INT) return false;
  if (op[from + 1].as_ll() < 0) return false;
  a.h     = size_t(op[from + 1].as_ll());
  a.value = op[from + 2];
  if (op[from].is_tag("A")) { a.with_attrs = false; return op.size() == from + 3; }
  if (!op[from].is_tag("K")) return false;
  a.with_attrs = true;
  if ((op.size() - from - 3) % 2 != 0) return false;
  for (size_t i = from + 3; i + 1 < op.size(); i += 2)
  {
    if (op[i].kind != Tok::BYTES || op[i + 1].kind != Tok::BYTES) return false;
    a.kv.emplace_back(op[i].s, op[i + 1].s);
  }
  return true;
}

static bool do_add(Sdk &s, const AddOp &a)
{
  if (a.h >= s.handles.size()) return false;
  Handle &h = *s.handles[a.h];
  std::vector<std::pair<nostd::string_view, common::AttributeValue>> kv;
  for (auto &p : a.kv)
    kv.emplace_back(nostd::string_view(p.first.data(), p.first.size()),
                    common::AttributeValue(nostd::string_view(p.second.data(), p.second.size())));
  common::KeyValueIterableView<std::vector<std::pair<nostd::string_view, common::AttributeValue>>> attrs(kv);
  // all four overloads of Add are driven: with/without attributes as the script says, with an explicit Context for odd values
  opentelemetry::context::Context ctx{};
  bool with_ctx = !a.value.s.empty() && ((a.value.s.back() - '0') % 2 == 1);
  switch (h.kind)
  {
    case 0:
    {
      uint64_t v = a.value.as_ull();
      if (a.with_attrs) { if (with_ctx) h.lc->Add(v, attrs, ctx); else h.lc->Add(v, attrs); }
      else { if (with_ctx) h.lc->Add(v, ctx); else h.lc->Add(v); }
      break;
    }
    case 1:
    {
      double v = double(a.value.as_ll());
      if (a.with_attrs) { if (with_ctx) h.dc->Add(v, attrs, ctx); else h.dc->Add(v, attrs); }
      else { if (with_ctx) h.dc->Add(v, ctx); else h.dc->Add(v); }
      break;
    }
    case 2:
    {
      int64_t v = a.value.as_ll();
      if (a.with_attrs) { if (with_ctx) h.lu->Add(v, attrs, ctx); else h.lu->Add(v, attrs); }
      else { if (with_ctx) h.lu->Add(v, ctx); else h.lu->Add(v); }
      break;
    }
    default:
    {
      double v = double(a.value.as_ll());
      if (a.with_attrs) { if (with_ctx) h.du->Add(v, attrs, ctx); else h.du->Add(v, attrs); }
      else { if (with_ctx) h.du->Add(v, ctx); else h.du->Add(v); }
      break;
    }
  }
  return true;
}

static long long meter_index(const std::string &scope_name)
{
  if (scope_name.size() == 2 && scope_name[0] == 'm' && scope_name[1] >= '0' && scope_name[1] <= '9') return scope_name[1] - '0';
  return -1;
}

static std::vector<Stream> collect(Sdk &s, size_t r)
{
  std::vector<Stream> out;
  s.readers[r]->Collect([&](msdk::ResourceMetrics &rm) {
    for (auto &sm : rm.scope_metric_data_)
      for (auto &md : sm.metric_data_)
      {
        Stream st;
        st.meter    = meter_index(sm.scope_->GetName());
        st.name     = md.instrument_descriptor.name_;
        st.delta    = md.aggregation_temporality == msdk::AggregationTemporality::kDelta;
        st.desc_mono = md.instrument_descriptor.type_ == msdk::InstrumentType::kCounter;
        st.desc_dbl  = md.instrument_descriptor.value_type_ == msdk::InstrumentValueType::kDouble;
        st.start_ns = md.start_ts.time_since_epoch().count();
        st.end_ns   = md.end_ts.time_since_epoch().count();
        for (auto &p : md.point_data_attr_)
        {
          Point pt;
          for (auto &kv : p.attributes)
          {
            if (nostd::holds_alternative<std::string>(kv.second)) pt.key.emplace_back(kv.first, nostd::get<std::string>(kv.second));
            else pt.bad = true;
          }
          if (nostd::holds_alternative<msdk::SumPointData>(p.point_data))
          {
            auto &sp = nostd::get<msdk::SumPointData>(p.point_data);
            pt.mono  = sp.is_monotonic_;
            if (nostd::holds_alternative<int64_t>(sp.value_)) pt.v = nostd::get<int64_t>(sp.value_);
            else
            {
              double d = nostd::get<double>(sp.value_);
              pt.dbl   = true;
              if (d == std::floor(d) && std::fabs(d) < 9.0e18) pt.v = (long long)d;
              else pt.bad = true;
            }
          }
          else pt.bad = true;
          st.pts.push_back(std::move(pt));
        }
        std::sort(st.pts.begin(), st.pts.end(), [](const Point &a, const Point &b) { return a.key < b.key; });
        out.push_back(std::move(st));
      }
    return true;
  });
  std::sort(out.begin(), out.end(), [](const Stream &a, const Stream &b) {
    return a.meter != b.meter ? a.meter < b.meter : a.name < b.name;
  });
  return out;
}

static void print_key(Out &o, const Key &k)
{
  for (auto &kv : k) { o.bytes(kv.first); o.bytes(kv.second); }
}

