// C19 driver: instrument name/unit validation, view selection and shaping, scope configurators,
// provider registries (identity of returned tracers/meters/loggers).  Public SDK API only.
//
//   NAME x<name>                       ->  N <regex variant 0/1> <hand-written variant 0/1, 2 = not called (empty name)>
//   UNIT x<unit>                       ->  U <regex variant 0/1> <hand-written variant 0/1>
//   PRED P|E x<pattern> x<string>      ->  P <0/1>        (PredicateFactory: kPattern / kExact)
//   MET <rules> | <views> | <keys> | <ops>                (one MeterProvider, one Collect)
//   TR  <rules> | <ops>                                   (one TracerProvider)
//   LG  <rules> | <ops>                                   (one LoggerProvider)
// see coq/C19/Glue.v for the grammar of the sections.
#include <algorithm>
#include <map>
#include <memory>
#include <string>
#include <tuple>
#include <unordered_map>
#include <vector>

#include "opentelemetry/common/key_value_iterable_view.h"
#include "opentelemetry/logs/logger.h"
#include "opentelemetry/metrics/async_instruments.h"
#include "opentelemetry/metrics/observer_result.h"
#include "opentelemetry/metrics/sync_instruments.h"
#include "opentelemetry/sdk/common/global_log_handler.h"
#include "opentelemetry/sdk/instrumentationscope/instrumentation_scope.h"
#include "opentelemetry/sdk/instrumentationscope/scope_configurator.h"
#include "opentelemetry/sdk/logs/logger_config.h"
#include "opentelemetry/sdk/logs/logger_provider.h"
#include "opentelemetry/sdk/logs/processor.h"
#include "opentelemetry/sdk/logs/read_write_log_record.h"
#include "opentelemetry/sdk/metrics/instrument_metadata_validator.h"
#include "opentelemetry/sdk/metrics/meter_config.h"
#include "opentelemetry/sdk/metrics/meter_provider.h"
#include "opentelemetry/sdk/metrics/metric_reader.h"
#include "opentelemetry/sdk/metrics/view/attributes_processor.h"
#include "opentelemetry/sdk/metrics/view/instrument_selector.h"
#include "opentelemetry/sdk/metrics/view/meter_selector.h"
#include "opentelemetry/sdk/metrics/view/predicate_factory.h"
#include "opentelemetry/sdk/metrics/view/view.h"
#include "opentelemetry/sdk/metrics/view/view_registry.h"
#include "opentelemetry/sdk/resource/resource.h"
#include "opentelemetry/sdk/trace/processor.h"
#include "opentelemetry/sdk/trace/span_data.h"
#include "opentelemetry/sdk/trace/tracer_config.h"
#include "opentelemetry/sdk/trace/tracer_provider.h"
#include "common/verif_io.h"

namespace nostd   = opentelemetry::nostd;
namespace common  = opentelemetry::common;
namespace msdk    = opentelemetry::sdk::metrics;
namespace tsdk    = opentelemetry::sdk::trace;
namespace lsdk    = opentelemetry::sdk::logs;
namespace scope   = opentelemetry::sdk::instrumentationscope;
namespace mapi    = opentelemetry::metrics;
using verif::ExactBuf;
using verif::Out;
using verif::Tok;
typedef std::vector<Tok> Toks;

namespace verif
{
// harness/c19_noregex.cc: the #else branches of instrument_metadata_validator.cc
bool noregex_validate_name(opentelemetry::nostd::string_view s);
bool noregex_validate_unit(opentelemetry::nostd::string_view s);
}  // namespace verif

static nostd::string_view sv(const ExactBuf &b) { return nostd::string_view(b.p, b.n); }

// ------------------------------------------------------------------ scope configurator rules
// <default 0/1> { ; N x<name> e | HV e | VE x<ver> e | SE x<schema> e | ANY e }
template <class Cfg>
static bool build_configurator(const Toks &sec, std::unique_ptr<scope::ScopeConfigurator<Cfg>> &out)
{
  auto parts = verif::split_toks(sec, ";");
  if (parts.empty() || parts[0].size() != 1 || parts[0][0].kind != Tok::INT) return false;
  auto cfg = [](const Tok &t) { return t.as_ll() ? Cfg::Enabled() : Cfg::Disabled(); };
  typename scope::ScopeConfigurator<Cfg>::Builder b(cfg(parts[0][0]));
  for (size_t i = 1; i < parts.size(); i++)
  {
    const Toks &r = parts[i];
    if (r.size() == 3 && r[0].is_tag("N") && r[1].kind == Tok::BYTES)
      b.AddConditionNameEquals(r[1].s, cfg(r[2]));
    else if (r.size() == 2 && r[0].is_tag("HV"))
      b.AddCondition([](const scope::InstrumentationScope &s) { return !s.GetVersion().empty(); }, cfg(r[1]));
    else if (r.size() == 3 && r[0].is_tag("VE") && r[1].kind == Tok::BYTES)
    {
      std::string v = r[1].s;
      b.AddCondition([v](const scope::InstrumentationScope &s) { return s.GetVersion() == v; }, cfg(r[2]));
    }
    else if (r.size() == 3 && r[0].is_tag("SE") && r[1].kind == Tok::BYTES)
    {
      std::string v = r[1].s;
      b.AddCondition([v](const scope::InstrumentationScope &s) { return s.GetSchemaURL() == v; }, cfg(r[2]));
    }
    else if (r.size() == 2 && r[0].is_tag("ANY"))
      b.AddCondition([](const scope::InstrumentationScope &) { return true; }, cfg(r[1]));
    else
      return false;
  }
  out.reset(new scope::ScopeConfigurator<Cfg>(b.Build()));
  return true;
}

// small index of a returned instance: position of the first call that returned the same object
template <class P>
static size_t instance_index(std::vector<P> &seen, const P &p)
{
  for (size_t i = 0; i < seen.size(); i++)
    if (seen[i].get() == p.get()) { seen.push_back(p); return i; }
  seen.push_back(p);
  return seen.size() - 1;
}

// ------------------------------------------------------------------ metrics
class Reader : public msdk::MetricReader
{
public:
  msdk::AggregationTemporality GetAggregationTemporality(msdk::InstrumentType) const noexcept override
  {
    return msdk::AggregationTemporality::kCumulative;
  }
  bool OnForceFlush(std::chrono::microseconds) noexcept override { return true; }
  bool OnShutDown(std::chrono::microseconds) noexcept override { return true; }
};

struct Measure
{
  std::vector<std::pair<nostd::string_view, common::AttributeValue>> kv;
};

static void observe_cb(mapi::ObserverResult r, void *state)
{
  Measure *m = static_cast<Measure *>(state);
  common::KeyValueIterableView<std::vector<std::pair<nostd::string_view, common::AttributeValue>>> it(m->kv);
  if (nostd::holds_alternative<nostd::shared_ptr<mapi::ObserverResultT<int64_t>>>(r))
    nostd::get<nostd::shared_ptr<mapi::ObserverResultT<int64_t>>>(r)->Observe(1, it);
  else
    nostd::get<nostd::shared_ptr<mapi::ObserverResultT<double>>>(r)->Observe(1.0, it);
}

static std::string num_field(long long v) { return std::string(1, char(v)); }

static void run_met(const Toks &t, Out &o)
{
  auto secs = verif::split_toks(t, "|", 1);
  if (secs.size() != 4) { o.tag("BADCASE"); return; }
  std::unique_ptr<scope::ScopeConfigurator<msdk::MeterConfig>> conf;
  if (!build_configurator<msdk::MeterConfig>(secs[0], conf)) { o.tag("BADCASE"); return; }
  std::unique_ptr<msdk::ViewRegistry> views(new msdk::ViewRegistry());
  std::vector<std::unique_ptr<ExactBuf>> bufs;   // keeps the non-terminated views alive
  auto buf = [&bufs](const std::string &s) { bufs.emplace_back(new ExactBuf(s)); return sv(*bufs.back()); };
  // views:  <itype> x<pattern> x<unit> x<mname> x<mver> x<mschema> x<vname> x<vdesc> <agg> (NOF | F x<key>*)
  if (!secs[1].empty())
    for (auto &v : verif::split_toks(secs[1], ";"))
    {
      if (v.size() < 10) { o.tag("BADCASE"); return; }
      std::unique_ptr<msdk::AttributesProcessor> proc;
      if (v[9].is_tag("NOF") && v.size() == 10) proc.reset(new msdk::DefaultAttributesProcessor());
      else if (v[9].is_tag("F"))
      {
        std::unordered_map<std::string, bool> allowed;
        for (size_t i = 10; i < v.size(); i++) allowed[v[i].s] = true;
        proc.reset(new msdk::FilteringAttributesProcessor(std::move(allowed)));
      }
      else { o.tag("BADCASE"); return; }
      std::unique_ptr<msdk::InstrumentSelector> is(
          new msdk::InstrumentSelector(static_cast<msdk::InstrumentType>(v[0].as_ll()), v[1].s, v[2].s));
      std::unique_ptr<msdk::MeterSelector> ms(new msdk::MeterSelector(v[3].s, v[4].s, v[5].s));
      std::unique_ptr<msdk::View> view(new msdk::View(v[6].s, v[7].s, "", static_cast<msdk::AggregationType>(v[8].as_ll()),
                                                      nullptr, std::move(proc)));
      views->AddView(std::move(is), std::move(ms), std::move(view));
    }
  Measure meas;
  for (auto &k : secs[2])
  {
    if (k.kind != Tok::BYTES) { o.tag("BADCASE"); return; }
    meas.kv.emplace_back(buf(k.s), common::AttributeValue(int64_t(1)));
  }
  common::KeyValueIterableView<std::vector<std::pair<nostd::string_view, common::AttributeValue>>> attrs(meas.kv);

  auto provider = std::make_shared<msdk::MeterProvider>(std::move(views), opentelemetry::sdk::resource::Resource::Create({}),
                                                        std::move(conf));
  std::shared_ptr<Reader> reader(new Reader());
  provider->AddMetricReader(reader);

  std::vector<nostd::shared_ptr<mapi::Meter>> seen;
  std::vector<nostd::shared_ptr<mapi::ObservableInstrument>> observables;
  nostd::shared_ptr<mapi::Meter> cur;
  opentelemetry::context::Context ctx;
  // ops:  M x<name> x<version> x<schema>   |   I <itype> <vtype 0=long 1=double> x<name> x<desc> x<unit>
  if (!secs[3].empty())
    for (auto &op : verif::split_toks(secs[3], ";"))
    {
      if (op.size() == 4 && op[0].is_tag("M"))
      {
        cur = provider->GetMeter(buf(op[1].s), buf(op[2].s), buf(op[3].s));
        o.num((long long)instance_index(seen, cur));
      }
      else if (op.size() == 6 && op[0].is_tag("I") && cur)
      {
        long long ty = op[1].as_ll(), vt = op[2].as_ll();
        auto name = buf(op[3].s), desc = buf(op[4].s), unit = buf(op[5].s);
        switch (ty)
        {
          case 0:
            if (vt == 0) cur->CreateUInt64Counter(name, desc, unit)->Add(1, attrs, ctx);
            else cur->CreateDoubleCounter(name, desc, unit)->Add(1.0, attrs, ctx);
            break;
          case 1:
            if (vt == 0) cur->CreateUInt64Histogram(name, desc, unit)->Record(1, attrs, ctx);
            else cur->CreateDoubleHistogram(name, desc, unit)->Record(1.0, attrs, ctx);
            break;
          case 2:
            if (vt == 0) cur->CreateInt64UpDownCounter(name, desc, unit)->Add(1, attrs, ctx);
            else cur->CreateDoubleUpDownCounter(name, desc, unit)->Add(1.0, attrs, ctx);
            break;
          case 3:
            observables.push_back(vt == 0 ? cur->CreateInt64ObservableCounter(name, desc, unit)
                                          : cur->CreateDoubleObservableCounter(name, desc, unit));
            observables.back()->AddCallback(observe_cb, &meas);
            break;
          case 4:
            observables.push_back(vt == 0 ? cur->CreateInt64ObservableGauge(name, desc, unit)
                                          : cur->CreateDoubleObservableGauge(name, desc, unit));
            observables.back()->AddCallback(observe_cb, &meas);
            break;
          case 5:
            observables.push_back(vt == 0 ? cur->CreateInt64ObservableUpDownCounter(name, desc, unit)
                                          : cur->CreateDoubleObservableUpDownCounter(name, desc, unit));
            observables.back()->AddCallback(observe_cb, &meas);
            break;
          default: o.tag("BADCASE"); return;
        }
      }
      else { o.tag("BADCASE"); return; }
    }
  // one collection; streams as field vectors, sorted
  std::vector<std::vector<std::string>> streams;
  reader->Collect([&](msdk::ResourceMetrics &rm) {
    for (auto &sm : rm.scope_metric_data_)
      for (auto &md : sm.metric_data_)
      {
        std::vector<std::string> f;
        f.push_back(sm.scope_->GetName());
        f.push_back(sm.scope_->GetVersion());
        f.push_back(sm.scope_->GetSchemaURL());
        f.push_back(md.instrument_descriptor.name_);
        f.push_back(md.instrument_descriptor.description_);
        f.push_back(md.instrument_descriptor.unit_);
        f.push_back(num_field((long long)md.instrument_descriptor.type_));
        f.push_back(num_field(md.instrument_descriptor.value_type_ == msdk::InstrumentValueType::kLong ? 0 : 1));
        // aggregation as seen in the points: 0 drop 1 histogram 2 last value 3 sum(non-monotonic) 4 sum(monotonic) 9 no point
        long long agg = 9;
        std::vector<std::string> keys;
        for (auto &p : md.point_data_attr_)
        {
          long long a = 9;
          if (nostd::holds_alternative<msdk::SumPointData>(p.point_data))
            a = nostd::get<msdk::SumPointData>(p.point_data).is_monotonic_ ? 4 : 3;
          else if (nostd::holds_alternative<msdk::HistogramPointData>(p.point_data)) a = 1;
          else if (nostd::holds_alternative<msdk::LastValuePointData>(p.point_data)) a = 2;
          else if (nostd::holds_alternative<msdk::DropPointData>(p.point_data)) a = 0;
          if (agg != 9 && a != agg) a = 8;   // mixed point kinds in one stream: never expected
          agg = a;
          for (auto &kv : p.attributes) keys.push_back(kv.first);
        }
        f.push_back(num_field(agg));
        f.push_back(num_field((long long)md.point_data_attr_.size()));
        for (auto &k : keys) f.push_back(k);
        streams.push_back(f);
      }
    return true;
  });
  std::sort(streams.begin(), streams.end());
  for (auto &f : streams)
  {
    o.tag("S");
    for (size_t i = 0; i < f.size(); i++)
    {
      if (i >= 6 && i <= 9) o.num((long long)(unsigned char)f[i][0]);
      else o.bytes(f[i]);
    }
  }
  observables.clear();
}

// ------------------------------------------------------------------ traces
struct SpanSink
{
  std::vector<std::vector<std::string>> spans;
};
class SpanProc : public tsdk::SpanProcessor
{
public:
  explicit SpanProc(SpanSink *s) : sink_(s) {}
  std::unique_ptr<tsdk::Recordable> MakeRecordable() noexcept override
  {
    return std::unique_ptr<tsdk::Recordable>(new tsdk::SpanData());
  }
  void OnStart(tsdk::Recordable &, const opentelemetry::trace::SpanContext &) noexcept override {}
  void OnEnd(std::unique_ptr<tsdk::Recordable> &&span) noexcept override
  {
    auto *d = static_cast<tsdk::SpanData *>(span.get());
    auto &sc = d->GetInstrumentationScope();
    sink_->spans.push_back({std::string(d->GetName()), sc.GetName(), sc.GetVersion(), sc.GetSchemaURL()});
  }
  bool ForceFlush(std::chrono::microseconds) noexcept override { return true; }
  bool Shutdown(std::chrono::microseconds) noexcept override { return true; }

private:
  SpanSink *sink_;
};

static void run_tr(const Toks &t, Out &o)
{
  auto secs = verif::split_toks(t, "|", 1);
  if (secs.size() != 2) { o.tag("BADCASE"); return; }
  std::unique_ptr<scope::ScopeConfigurator<tsdk::TracerConfig>> conf;
  if (!build_configurator<tsdk::TracerConfig>(secs[0], conf)) { o.tag("BADCASE"); return; }
  SpanSink sink;
  auto provider = std::make_shared<tsdk::TracerProvider>(
      std::unique_ptr<tsdk::SpanProcessor>(new SpanProc(&sink)), opentelemetry::sdk::resource::Resource::Create({}),
      std::unique_ptr<tsdk::Sampler>(new tsdk::AlwaysOnSampler), std::unique_ptr<tsdk::IdGenerator>(new tsdk::RandomIdGenerator()),
      std::move(conf));
  std::vector<nostd::shared_ptr<opentelemetry::trace::Tracer>> seen;
  // ops:  G x<name> x<version> x<schema>      (get the tracer, start and end one span named by the op's position)
  size_t n = 0;
  if (!secs[1].empty())
    for (auto &op : verif::split_toks(secs[1], ";"))
    {
      if (!(op.size() == 4 && op[0].is_tag("G"))) { o.tag("BADCASE"); return; }
      ExactBuf a(op[1].s), b(op[2].s), c(op[3].s);
      auto tr = provider->GetTracer(sv(a), sv(b), sv(c));
      o.num((long long)instance_index(seen, tr));
      auto span = tr->StartSpan(std::to_string(n));
      span->End();
      n++;
    }
  for (auto &s : sink.spans) o.tag("E").num(std::atoll(s[0].c_str())).bytes(s[1]).bytes(s[2]).bytes(s[3]);
  seen.clear();
}

// ------------------------------------------------------------------ logs
struct LogSink
{
  std::vector<std::vector<std::string>> recs;                       // body, scope name, version, schema
  std::vector<std::vector<std::pair<std::string, std::string>>> attrs;   // scope attributes, sorted, printed form
};
static std::string owned_attr_print(const opentelemetry::sdk::common::OwnedAttributeValue &v)
{
  if (nostd::holds_alternative<int64_t>(v)) return std::to_string(nostd::get<int64_t>(v));
  if (nostd::holds_alternative<std::string>(v)) return verif::hex(nostd::get<std::string>(v));
  return "OTHER";
}
class LogProc : public lsdk::LogRecordProcessor
{
public:
  explicit LogProc(LogSink *s) : sink_(s) {}
  std::unique_ptr<lsdk::Recordable> MakeRecordable() noexcept override
  {
    return std::unique_ptr<lsdk::Recordable>(new lsdk::ReadWriteLogRecord());
  }
  void OnEmit(std::unique_ptr<lsdk::Recordable> &&rec) noexcept override
  {
    auto *r = static_cast<lsdk::ReadWriteLogRecord *>(rec.get());
    auto &sc = r->GetInstrumentationScope();
    std::string body;
    if (nostd::holds_alternative<nostd::string_view>(r->GetBody())) body = std::string(nostd::get<nostd::string_view>(r->GetBody()));
    else if (nostd::holds_alternative<const char *>(r->GetBody())) body = nostd::get<const char *>(r->GetBody());
    sink_->recs.push_back({body, sc.GetName(), sc.GetVersion(), sc.GetSchemaURL()});
    std::vector<std::pair<std::string, std::string>> a;
    for (auto &kv : sc.GetAttributes()) a.emplace_back(kv.first, owned_attr_print(kv.second));
    std::sort(a.begin(), a.end());
    sink_->attrs.push_back(a);
  }
  bool ForceFlush(std::chrono::microseconds) noexcept override { return true; }
  bool Shutdown(std::chrono::microseconds) noexcept override { return true; }

private:
  LogSink *sink_;
};

static void run_lg(const Toks &t, Out &o)
{
  auto secs = verif::split_toks(t, "|", 1);
  if (secs.size() != 2) { o.tag("BADCASE"); return; }
  std::unique_ptr<scope::ScopeConfigurator<lsdk::LoggerConfig>> conf;
  if (!build_configurator<lsdk::LoggerConfig>(secs[0], conf)) { o.tag("BADCASE"); return; }
  LogSink sink;
  auto provider = std::make_shared<lsdk::LoggerProvider>(std::unique_ptr<lsdk::LogRecordProcessor>(new LogProc(&sink)),
                                                         opentelemetry::sdk::resource::Resource::Create({}), std::move(conf));
  std::vector<nostd::shared_ptr<opentelemetry::logs::Logger>> seen;
  // ops:  G x<logger name> x<library name> x<version> x<schema> { x<key> (<int> | x<string>) }
  size_t n = 0;
  if (!secs[1].empty())
    for (auto &op : verif::split_toks(secs[1], ";"))
    {
      if (!(op.size() >= 5 && op.size() % 2 == 1 && op[0].is_tag("G"))) { o.tag("BADCASE"); return; }
      ExactBuf a(op[1].s), b(op[2].s), c(op[3].s), d(op[4].s);
      std::vector<std::unique_ptr<ExactBuf>> bufs;
      std::vector<std::pair<nostd::string_view, common::AttributeValue>> kv;
      for (size_t i = 5; i + 1 < op.size(); i += 2)
      {
        bufs.emplace_back(new ExactBuf(op[i].s));
        nostd::string_view key = sv(*bufs.back());
        if (op[i + 1].kind == Tok::INT) kv.emplace_back(key, common::AttributeValue(int64_t(op[i + 1].as_ll())));
        else
        {
          bufs.emplace_back(new ExactBuf(op[i + 1].s));
          kv.emplace_back(key, common::AttributeValue(sv(*bufs.back())));
        }
      }
      common::KeyValueIterableView<std::vector<std::pair<nostd::string_view, common::AttributeValue>>> attrs(kv);
      auto lg = provider->GetLogger(sv(a), sv(b), sv(c), sv(d), attrs);
      o.num((long long)instance_index(seen, lg));
      std::string body = std::to_string(n);
      lg->EmitLogRecord(opentelemetry::logs::Severity::kInfo, nostd::string_view(body));
      n++;
    }
  for (size_t i = 0; i < sink.recs.size(); i++)
  {
    auto &s = sink.recs[i];
    o.tag("E").num(std::atoll(s[0].c_str())).bytes(s[1]).bytes(s[2]).bytes(s[3]);
    for (auto &kv : sink.attrs[i]) { o.bytes(kv.first); o.tag(kv.second); }
  }
  seen.clear();
}

int main(int argc, char **argv)
{
  // the SDK's diagnostics (invalid instrument name, empty library name, ...) are not part of the observation
  opentelemetry::sdk::common::internal_log::GlobalLogHandler::SetLogLevel(opentelemetry::sdk::common::internal_log::LogLevel::None);
  return verif::run_cases(argc, argv, [](const Toks &t, Out &o) {
    if (t.empty()) { o.tag("BADCASE"); return; }
    if (t[0].is_tag("NAME") && t.size() == 2 && t[1].kind == Tok::BYTES)
    {
      msdk::InstrumentMetaDataValidator v;
      ExactBuf b(t[1].s);
      o.tag("N").boolean(v.ValidateName(sv(b)));
      // the hand-written variant reads name[0] before looking at the size: not called on an empty view
      if (t[1].s.empty()) o.num(2); else o.boolean(verif::noregex_validate_name(sv(b)));
    }
    else if (t[0].is_tag("UNIT") && t.size() == 2 && t[1].kind == Tok::BYTES)
    {
      msdk::InstrumentMetaDataValidator v;
      ExactBuf b(t[1].s);
      o.tag("U").boolean(v.ValidateUnit(sv(b)));
      o.boolean(verif::noregex_validate_unit(sv(b)));
    }
    else if (t[0].is_tag("PRED") && t.size() == 4 && t[2].kind == Tok::BYTES && t[3].kind == Tok::BYTES)
    {
      ExactBuf p(t[2].s), s(t[3].s);
      auto pred = msdk::PredicateFactory::GetPredicate(sv(p), t[1].is_tag("P") ? msdk::PredicateType::kPattern : msdk::PredicateType::kExact);
      o.tag("P").boolean(pred->Match(sv(s)));
    }
    else if (t[0].is_tag("MET")) run_met(t, o);
    else if (t[0].is_tag("TR")) run_tr(t, o);
    else if (t[0].is_tag("LG")) run_lg(t, o);
    else o.tag("BADCASE");
  });
}
