// C05 independence probe: a run-time check (NOT a theorem) of what the C05 model takes for granted about StartSpan
// called from several threads at the same time - the model runs the threads in lock step and treats the id generator
// as an oracle of fresh ids; here 3-4 REAL threads, released by a barrier, use ONE shared tracer of one shared
// provider (default RandomIdGenerator, built-in samplers, a recording processor) without any synchronisation of the
// harness' own.  Built with -fsanitize=thread against the SDK sources of the tree under test.
//
//   c05_purity <scenario> <threads> <rounds> <iters>          ->  PURE | DIFFERS x<hex description>
//     scenario 0  every thread builds its own span tree on the shared tracer, for every built-in sampler configuration:
//                 a root, nested children under Scopes, a child of an explicit remote SpanContext, a child of an explicit
//                 Context (SetSpan), a root through the root marker, a child of a remote DefaultSpan made active, a sibling
//                 after the scopes were closed.  Checked per thread: parentage (trace id inherited, parent span id
//                 exported), flags = decision and <= 1, recording/exported = decision, ids non-zero; over ALL threads:
//                 span ids pairwise distinct, trace ids of roots pairwise distinct.  The id-independent abstraction of
//                 the result must be the single-threaded reference.
//     scenario 1  the first StartSpan on freshly obtained tracers, concurrently (same tracer objects handed to all threads,
//                 and tracers each thread obtains itself), on a provider whose configurator disables some scopes with
//                 conditions that take a few hundred arithmetic steps: enabled scopes give valid recording exported
//                 spans, disabled ones the no-op span - on every thread, from the very first call.
//   a ThreadSanitizer report (tools/purity.py) becomes RACE x<report head> when it has a frame in the library.
#include <algorithm>
#include <map>
#include <set>
#include <sstream>

#include "opentelemetry/context/context.h"
#include "opentelemetry/sdk/common/global_log_handler.h"
#include "opentelemetry/sdk/instrumentationscope/scope_configurator.h"
#include "opentelemetry/sdk/resource/resource.h"
#include "opentelemetry/sdk/trace/processor.h"
#include "opentelemetry/sdk/trace/random_id_generator.h"
#include "opentelemetry/sdk/trace/samplers/always_off.h"
#include "opentelemetry/sdk/trace/samplers/always_on.h"
#include "opentelemetry/sdk/trace/samplers/parent.h"
#include "opentelemetry/sdk/trace/samplers/trace_id_ratio.h"
#include "opentelemetry/sdk/trace/span_data.h"
#include "opentelemetry/sdk/trace/tracer.h"
#include "opentelemetry/sdk/trace/tracer_config.h"
#include "opentelemetry/sdk/trace/tracer_provider.h"
#include "opentelemetry/trace/context.h"
#include "opentelemetry/trace/default_span.h"
#include "opentelemetry/trace/scope.h"
#include "opentelemetry/trace/span_metadata.h"
#include "opentelemetry/trace/span_startoptions.h"
#include "purity/purity_probe.h"

namespace nostd = opentelemetry::nostd;
namespace tsdk  = opentelemetry::sdk::trace;
namespace tapi  = opentelemetry::trace;
namespace scope = opentelemetry::sdk::instrumentationscope;

struct Exported
{
  std::string name, tid, sid, psid;
  int flags;
};
// per-thread sinks: the harness adds no synchronisation of its own between the threads
static thread_local std::vector<Exported> *tl_sink = nullptr;

static std::string bytes_of(const tapi::TraceId &t) { return std::string(reinterpret_cast<const char *>(t.Id().data()), 16); }
static std::string bytes_of(const tapi::SpanId &s) { return std::string(reinterpret_cast<const char *>(s.Id().data()), 8); }

class Proc : public tsdk::SpanProcessor
{
public:
  std::unique_ptr<tsdk::Recordable> MakeRecordable() noexcept override { return std::unique_ptr<tsdk::Recordable>(new tsdk::SpanData()); }
  void OnStart(tsdk::Recordable &, const tapi::SpanContext &) noexcept override {}
  void OnEnd(std::unique_ptr<tsdk::Recordable> &&span) noexcept override
  {
    auto *d = static_cast<tsdk::SpanData *>(span.get());
    auto nm = d->GetName();
    if (tl_sink)
      tl_sink->push_back({std::string(nm.data(), nm.size()), bytes_of(d->GetTraceId()), bytes_of(d->GetSpanId()), bytes_of(d->GetParentSpanId()),
                          int(d->GetFlags().flags())});
  }
  bool ForceFlush(std::chrono::microseconds) noexcept override { return true; }
  bool Shutdown(std::chrono::microseconds) noexcept override { return true; }
};

static void run_threads(int concurrent, int nworkers, const std::function<void(int)> &work)
{
  if (!concurrent)
  {
    for (int t = 0; t < nworkers; t++) work(t);
    return;
  }
  purity::Barrier bar(nworkers);
  std::vector<std::thread> ts;
  for (int t = 0; t < nworkers; t++)
    ts.emplace_back([&, t] {
      bar.wait();
      work(t);
    });
  for (auto &t : ts) t.join();
}

// ------------------------------------------------------------------ scenario 0: span trees on a shared tracer
enum SamplerKind { ON, OFF, RATIO1, RATIO0, RATIOHALF, PB_ON, PB_OFF, NKINDS };
static const char *kKindName[] = {"on", "off", "ratio1", "ratio0", "ratio.5", "pb_on", "pb_off"};
static std::unique_ptr<tsdk::Sampler> make_sampler(int k)
{
  switch (k)
  {
    case ON: return std::unique_ptr<tsdk::Sampler>(new tsdk::AlwaysOnSampler);
    case OFF: return std::unique_ptr<tsdk::Sampler>(new tsdk::AlwaysOffSampler);
    case RATIO1: return std::unique_ptr<tsdk::Sampler>(new tsdk::TraceIdRatioBasedSampler(1.0));
    case RATIO0: return std::unique_ptr<tsdk::Sampler>(new tsdk::TraceIdRatioBasedSampler(0.0));
    case RATIOHALF: return std::unique_ptr<tsdk::Sampler>(new tsdk::TraceIdRatioBasedSampler(0.5));
    case PB_ON: return std::unique_ptr<tsdk::Sampler>(new tsdk::ParentBasedSampler(std::make_shared<tsdk::AlwaysOnSampler>()));
    default: return std::unique_ptr<tsdk::Sampler>(new tsdk::ParentBasedSampler(std::make_shared<tsdk::AlwaysOffSampler>()));
  }
}

struct Started
{
  std::string label;
  tapi::SpanContext ctx = tapi::SpanContext::GetInvalid();
  bool recording        = false;
  int parent            = -1;                                   // index of the expected parent among this thread's spans, or
  tapi::SpanContext remote_parent = tapi::SpanContext::GetInvalid();   // the expected remote parent (parent == -2), or none (-1)
};

static tapi::SpanContext remote_ctx(int t, int k, bool sampled)
{
  uint8_t tb[16], sb[8];
  for (int i = 0; i < 16; i++) tb[i] = uint8_t(0xA0 + t + 16 * k + i);
  for (int i = 0; i < 8; i++) sb[i] = uint8_t(0xB0 + t + 16 * k + i);
  return tapi::SpanContext(tapi::TraceId(tb), tapi::SpanId(sb), tapi::TraceFlags(uint8_t(sampled ? 0x01 : 0xfe)), true,
                           tapi::TraceState::FromHeader(sampled ? "r=1" : "r=0"));
}

// one thread's tree on the shared tracer
static void build_tree(tapi::Tracer &tracer, int t, int kind, int round, std::vector<Started> &out)
{
  const std::string pfx = std::string(kKindName[kind]) + "." + std::to_string(t) + "." + std::to_string(round) + ".";
  auto start = [&](const char *label, const tapi::StartSpanOptions &o, int parent, tapi::SpanContext rp = tapi::SpanContext::GetInvalid()) {
    auto sp = tracer.StartSpan(pfx + label, o);
    Started s;
    s.label = label; s.ctx = sp->GetContext(); s.recording = sp->IsRecording(); s.parent = parent; s.remote_parent = rp;
    out.push_back(s);
    return sp;
  };
  const size_t base = out.size();
  tapi::StartSpanOptions def;
  auto root = start("root", def, -1);
  {
    tapi::Scope s1(root);
    auto c1 = start("c1", def, int(base));
    {
      tapi::Scope s2(c1);
      auto c2 = start("c2", def, int(base + 1));
      // explicit remote SpanContext wins over the active span
      tapi::StartSpanOptions o;
      auto r1  = remote_ctx(t, 0, t % 2 == 0);
      o.parent = r1;
      auto e1 = start("e1", o, -2, r1);
      {
        tapi::Scope s3(c2);
        // explicit Context carrying the root span; then one marked as root
        opentelemetry::context::Context empty;
        tapi::StartSpanOptions oc;
        oc.parent = tapi::SetSpan(empty, root);
        auto x1 = start("x1", oc, int(base));
        tapi::StartSpanOptions orr;
        orr.parent = empty.SetValue(tapi::kIsRootSpanKey, true);
        auto x2 = start("x2", orr, -1);
        x2->End(); x1->End();
      }
      // a propagated remote parent made active
      auto r2 = remote_ctx(t, 1, t % 2 == 1);
      {
        tapi::Scope s4(nostd::shared_ptr<tapi::Span>(new tapi::DefaultSpan(r2)));
        auto d1 = start("d1", def, -2, r2);
        d1->End();
      }
      auto c3 = start("c3", def, int(base + 1));   // the scope of c1 is active again
      c3->End(); e1->End(); c2->End();
    }
    c1->End();
    auto sib = start("sib", def, int(base));
    sib->End();
  }
  root->End();
  auto after = start("after", def, -1);
  after->End();
}

static bool zero(const std::string &s) { return s == std::string(s.size(), '\0'); }

static std::string scenario_trees(int concurrent, int nworkers, int iters)
{
  std::string abstraction;
  std::vector<std::string> bad;
  for (int kind = 0; kind < NKINDS; kind++)
  {
    auto provider = std::make_shared<tsdk::TracerProvider>(std::unique_ptr<tsdk::SpanProcessor>(new Proc()),
                                                           opentelemetry::sdk::resource::Resource::Create({}), make_sampler(kind),
                                                           std::unique_ptr<tsdk::IdGenerator>(new tsdk::RandomIdGenerator()));
    auto tracer = provider->GetTracer("c05", "1.0");
    std::vector<std::vector<Started>> started(nworkers);
    std::vector<std::vector<Exported>> sinks(nworkers);
    run_threads(concurrent, nworkers, [&](int t) {
      tl_sink = &sinks[t];
      for (int k = 0; k < iters; k++) build_tree(*tracer, t, kind, k, started[t]);
      tl_sink = nullptr;
    });
    std::set<std::string> all_sids, root_tids;
    for (int t = 0; t < nworkers; t++)
    {
      std::map<std::string, const Exported *> exp;
      for (auto &e : sinks[t]) exp[e.name] = &e;
      if (exp.size() != sinks[t].size()) bad.push_back("thread " + std::to_string(t) + ": a span exported twice");
      int round = -1;
      for (size_t i = 0; i < started[t].size(); i++)
      {
        const Started &s = started[t][i];
        if (s.label == "root") round++;
        const std::string who = std::string(kKindName[kind]) + "." + std::to_string(t) + "." + std::to_string(round) + "." + s.label;
        const std::string tid = bytes_of(s.ctx.trace_id()), sid = bytes_of(s.ctx.span_id());
        if (zero(tid) || zero(sid) || !s.ctx.IsValid()) bad.push_back(who + ": zero id / invalid context");
        if (!zero(sid) && !all_sids.insert(sid).second) bad.push_back(who + ": span id not fresh");
        bool parent_sampled = false, has_parent = false;
        std::string ptid, psid(8, '\0');
        if (s.parent >= 0) { auto &p = started[t][size_t(s.parent)].ctx; ptid = bytes_of(p.trace_id()); psid = bytes_of(p.span_id()); parent_sampled = p.IsSampled(); has_parent = true; }
        else if (s.parent == -2) { ptid = bytes_of(s.remote_parent.trace_id()); psid = bytes_of(s.remote_parent.span_id()); parent_sampled = s.remote_parent.IsSampled(); has_parent = true; }
        if (has_parent && tid != ptid) bad.push_back(who + ": trace id not inherited from the parent");
        if (!has_parent && !zero(tid) && !root_tids.insert(tid).second) bad.push_back(who + ": trace id of a new trace not fresh");
        if (s.ctx.trace_flags().flags() > 1) bad.push_back(who + ": flag bits beyond level 1");
        if (s.ctx.IsRemote()) bad.push_back(who + ": marked remote");
        bool want_sampled = false, known = true;
        switch (kind)
        {
          case ON: case RATIO1: want_sampled = true; break;
          case OFF: case RATIO0: want_sampled = false; break;
          case PB_ON: want_sampled = has_parent ? parent_sampled : true; break;
          case PB_OFF: want_sampled = has_parent ? parent_sampled : false; break;
          default: known = false;
        }
        if (known && s.ctx.IsSampled() != want_sampled) bad.push_back(who + ": sampled flag differs from the decision");
        if (s.recording != s.ctx.IsSampled()) bad.push_back(who + ": recording differs from the decision");   // built-in samplers: DROP or RECORD_AND_SAMPLE
        auto it = exp.find(who);
        if (s.recording != (it != exp.end())) bad.push_back(who + (s.recording ? ": recorded but not exported" : ": not recorded but exported"));
        if (it != exp.end())
        {
          if (it->second->tid != tid || it->second->sid != sid) bad.push_back(who + ": exported identity differs from the context");
          if (it->second->psid != psid) bad.push_back(who + ": exported parent span id is not the parent's");
          if (it->second->flags != int(s.ctx.trace_flags().flags())) bad.push_back(who + ": exported flags differ");
        }
        if (kind != RATIOHALF) abstraction += who + (s.ctx.IsSampled() ? "+S" : "-S") + (s.recording ? "+R" : "-R") + (it != exp.end() ? "+X" : "-X") + ";";
      }
    }
  }
  if (!bad.empty()) return "VIOLATED(" + std::to_string(bad.size()) + "): " + bad[0];
  return abstraction;
}

// ------------------------------------------------------------------ scenario 1: the first StartSpan on fresh tracers
static bool slow_name_is(const scope::InstrumentationScope &s, const std::string &name)
{
  volatile unsigned x = 1;
  for (int i = 0; i < 400; i++) x = x * 1664525u + 1013904223u;
  return s.GetName() == name && x != 0;
}
static std::unique_ptr<scope::ScopeConfigurator<tsdk::TracerConfig>> configurator()
{
  scope::ScopeConfigurator<tsdk::TracerConfig>::Builder b(tsdk::TracerConfig::Enabled());
  for (const char *off : {"off1", "off2", "off3"})
  {
    std::string n = off;
    b.AddCondition([n](const scope::InstrumentationScope &s) { return slow_name_is(s, n); }, tsdk::TracerConfig::Disabled());
  }
  return std::unique_ptr<scope::ScopeConfigurator<tsdk::TracerConfig>>(new scope::ScopeConfigurator<tsdk::TracerConfig>(b.Build()));
}
static const char *kScopes[] = {"on1", "off1", "on2", "off2", "on3", "off3"};

static std::string scenario_first_start(int concurrent, int nworkers, int iters)
{
  std::string abstraction;
  for (int k = 0; k < iters; k++)
  {
    auto provider = std::make_shared<tsdk::TracerProvider>(std::unique_ptr<tsdk::SpanProcessor>(new Proc()),
                                                           opentelemetry::sdk::resource::Resource::Create({}),
                                                           std::unique_ptr<tsdk::Sampler>(new tsdk::AlwaysOnSampler),
                                                           std::unique_ptr<tsdk::IdGenerator>(new tsdk::RandomIdGenerator()), configurator());
    std::vector<nostd::shared_ptr<tapi::Tracer>> shared_tracers;
    for (auto *s : kScopes) shared_tracers.push_back(provider->GetTracer(s, "1.0"));
    std::vector<std::vector<Exported>> sinks(nworkers);
    std::vector<std::string> res(nworkers);
    run_threads(concurrent, nworkers, [&](int t) {
      tl_sink = &sinks[t];
      for (size_t i = 0; i < 6; i++)
      {
        size_t j = (i + size_t(t)) % 6;
        // the very first StartSpan on a tracer object all threads share ...
        auto sp = shared_tracers[j]->StartSpan(std::string(kScopes[j]) + ".shared." + std::to_string(t));
        res[t] += std::string(kScopes[j]) + (sp->GetContext().IsValid() ? "+V" : "-V") + (sp->IsRecording() ? "+R" : "-R");
        {
          tapi::Scope sc(sp);
          auto ch = shared_tracers[j]->StartSpan(std::string(kScopes[j]) + ".child." + std::to_string(t));
          bool inherits = ch->GetContext().IsValid() && ch->GetContext().trace_id() == sp->GetContext().trace_id();
          res[t] += inherits ? "+C" : "-C";
          ch->End();
        }
        sp->End();
        // ... and on a tracer this thread obtains itself (a scope of its own: a fresh Tracer object)
        auto own = provider->GetTracer(std::string(kScopes[j]), "v" + std::to_string(t));
        auto so  = own->StartSpan(std::string(kScopes[j]) + ".own." + std::to_string(t));
        res[t] += std::string(so->GetContext().IsValid() ? "+V" : "-V") + (so->IsRecording() ? "+R" : "-R") + ";";
        so->End();
      }
      tl_sink = nullptr;
    });
    for (int t = 0; t < nworkers; t++)
    {
      // canonical order (threads start at different scopes)
      std::vector<std::string> parts;
      std::stringstream ss(res[t]);
      std::string item;
      while (std::getline(ss, item, ';')) parts.push_back(item);
      std::sort(parts.begin(), parts.end());
      std::vector<std::string> names;
      for (auto &e : sinks[t]) names.push_back(e.name.substr(0, e.name.rfind('.')) + (zero(e.tid) || zero(e.sid) ? "!zero" : ""));
      std::sort(names.begin(), names.end());
      abstraction += "t:";
      for (auto &p : parts) abstraction += p + ",";
      abstraction += "x:";
      for (auto &n : names) abstraction += n + ",";
      abstraction += "|";
    }
  }
  return abstraction;
}

int main(int argc, char **argv)
{
  opentelemetry::sdk::common::internal_log::GlobalLogHandler::SetLogLevel(opentelemetry::sdk::common::internal_log::LogLevel::None);
  if (argc != 5) { std::printf("BADCASE\n"); return 0; }
  const int scenario = std::atoi(argv[1]), threads = std::atoi(argv[2]), rounds = std::atoi(argv[3]), iters = std::atoi(argv[4]);
  if (scenario < 0 || scenario > 1 || threads < 2 || threads > 8 || rounds < 1 || iters < 1) { std::printf("BADCASE\n"); return 0; }
  auto run = [&](int concurrent) { return scenario == 0 ? scenario_trees(concurrent, threads, iters) : scenario_first_start(concurrent, threads, iters); };
  const std::string ref = run(0);   // the same work, one worker after the other on this thread
  std::string mismatch;
  if (ref.compare(0, 8, "VIOLATED") == 0) mismatch = "single-threaded reference: " + ref;
  else if (run(0) != ref) mismatch = "single-threaded second run differs from the first";
  for (int r = 0; r < rounds && mismatch.empty(); r++)
  {
    std::string got = run(1);
    if (got != ref)
    {
      if (got.compare(0, 8, "VIOLATED") == 0) mismatch = "scenario=" + std::to_string(scenario) + " round=" + std::to_string(r) + " " + got;
      else
      {
        size_t i = 0;
        while (i < got.size() && i < ref.size() && got[i] == ref[i]) i++;
        size_t from = i > 40 ? i - 40 : 0;
        mismatch    = "scenario=" + std::to_string(scenario) + " round=" + std::to_string(r) + " got=..." + got.substr(from, 160) + " want=..." + ref.substr(from, 160);
      }
    }
  }
  if (mismatch.empty()) std::printf("PURE\n");
  else std::printf("DIFFERS %s\n", purity::hex(mismatch.substr(0, 500)).c_str());
  return 0;
}
