// C04 driver under the deterministic scheduler shim (E-sched): several threads on ONE span, End racing with mutators.
// Compiled against scratch copies (tools/shimcopy.py) of sdk/src/trace/span.{h,cc}, multi_span_processor.h, simple_processor.h and
// spin_lock_mutex.h: Span::mu_ is a verif::mutex (every lock() in a mutator / End / IsRecording is a scheduling point), the simple
// processor's spin lock spins on the shim's atomic, and this driver's exporters and queueing processor call
// verif::this_thread::yield() around their work, so a thread can be switched out while a processor is inside OnEnd / Export.
//
//   SRACE {S|Q}+ | ST x<name> <kind> <start_system> <start_steady> {; attr}* | T {| op}* | T {| op}* ... | s <tid> <flag> ...
//       S = the SDK's SimpleSpanProcessor in front of a recording exporter, Q = a processor that queues the recordable in OnEnd
//       and hands it to its exporter on Shutdown (what a batch processor does, without its worker thread);
//       T: one logical thread each (op as in coq/C04/Glue.v; explicit time stamps only); the controller starts the span, runs the
//       threads under the schedule, then calls End(7777) itself and drops the span.
//   observation:  Q {# <span received by processor i>}* || H {<K> <tid> <a> <b>}*        in the order in which it happened:
//       B / R <tid> <idx> <res>: operation <idx> of thread <tid> is about to be called / has returned (res: the answer of
//       IsRecording, else 0);  L / U <tid>: the thread took / released Span::mu_;  D <tid> <p>: processor p is handed its child
//       (a simple processor's exporter is called, the queueing processor's OnEnd is entered); thread number = number of threads
//       for the controller's End.   (DEADLOCK / STEPLIMIT / CRASH in front when the run did not finish)
#include "c04_common.h"
#include "sched/sched_driver.h"
// the shimmed copy of the SDK-internal header (scratch directory first on the include path): the driver needs the ADDRESS of
// Span::mu_ to give the lock a name in the scheduler's log - nothing else of the class is touched
#define private public
#include "src/trace/span.h"
#undef private

using verif::Sched;

struct RStore { std::vector<std::unique_ptr<tsdk::Recordable>> got; };
// what no exporter may ever see (MRACE cases): a null batch entry; an entry that is another recordable at the end of Export than at its start
static long g_null_entries = 0, g_changed_entries = 0;

// no lock of its own: under the baton exactly one logical thread runs, and a real mutex held across a yield would block the
// next thread outside the scheduler's knowledge
class RecExporter final : public tsdk::SpanExporter
{
public:
  RecExporter(std::shared_ptr<RStore> s, int deliver_as) : store_(std::move(s)), deliver_as_(deliver_as) {}
  std::unique_ptr<tsdk::Recordable> MakeRecordable() noexcept override { return std::unique_ptr<tsdk::Recordable>(new tsdk::SpanData); }
  sdkc::ExportResult Export(const nostd::span<std::unique_ptr<tsdk::Recordable>> &spans) noexcept override
  {
    if (deliver_as_ >= 0) Sched::I().log("D " + std::to_string(deliver_as_));   // a simple processor: Export runs inside OnEnd
    std::vector<const void *> seen;
    std::vector<std::string> names;
    for (auto &r : spans)
    {
      seen.push_back(r.get());
      tsdk::SpanData *d = static_cast<tsdk::SpanData *>(r.get());
      names.push_back(d ? std::string(d->GetName()) : std::string());
    }
    verif::this_thread::yield();      // a slow exporter: anything may happen while it works
    verif::this_thread::yield();
    size_t k = 0;
    for (auto &r : spans)
    {
      tsdk::SpanData *d = static_cast<tsdk::SpanData *>(r.get());
      if (r.get() != seen[k] || (d && std::string(d->GetName()) != names[k])) g_changed_entries++;   // re-read at the end of Export
      k++;
      if (r == nullptr) { g_null_entries++; continue; }
      store_->got.push_back(std::move(r));
    }
    verif::this_thread::yield();
    return sdkc::ExportResult::kSuccess;
  }
  bool ForceFlush(std::chrono::microseconds) noexcept override { return true; }
  bool Shutdown(std::chrono::microseconds) noexcept override { return true; }

private:
  std::shared_ptr<RStore> store_;
  int deliver_as_;
};

class QueueProcessor final : public tsdk::SpanProcessor
{
public:
  QueueProcessor(std::unique_ptr<tsdk::SpanExporter> &&e, int index) : exporter_(std::move(e)), index_(index) {}
  std::unique_ptr<tsdk::Recordable> MakeRecordable() noexcept override { return exporter_->MakeRecordable(); }
  void OnStart(tsdk::Recordable &, const trace::SpanContext &) noexcept override {}
  void OnEnd(std::unique_ptr<tsdk::Recordable> &&span) noexcept override
  {
    Sched::I().log("D " + std::to_string(index_));
    verif::this_thread::yield();
    queue_.push_back(std::move(span));
    verif::this_thread::yield();
  }
  bool ForceFlush(std::chrono::microseconds) noexcept override { return drain(); }
  bool Shutdown(std::chrono::microseconds) noexcept override { return drain(); }

private:
  bool drain()
  {
    for (auto &r : queue_)
    {
      nostd::span<std::unique_ptr<tsdk::Recordable>> batch(&r, 1);
      exporter_->Export(batch);
    }
    queue_.clear();
    return true;
  }
  std::unique_ptr<tsdk::SpanExporter> exporter_;
  int index_;
  std::vector<std::unique_ptr<tsdk::Recordable>> queue_;
};

static bool race_op_ok(const Toks &sec)
{
  if (sec.empty()) return false;
  if (sec[0].is_tag("EV0") || sec[0].is_tag("EVA")) return false;     // implicit time stamp
  if (sec[0].is_tag("END")) return sec.size() == 2 && is_int(sec[1]) && sec[1].as_ll() != 0;
  return true;
}

static bool run_srace(const Toks &t, Out &o)
{
  auto secs = verif::split_toks(t, "|");
  if (secs.size() < 3) return false;
  const Toks &sp = secs[0];
  if (sp.size() < 2 || sp.size() > 5) return false;
  for (size_t i = 1; i < sp.size(); i++) if (!sp[i].is_tag("S") && !sp[i].is_tag("Q")) return false;
  auto stparts   = verif::split_toks(secs[1], ";");
  const Toks &st = stparts[0];
  if (st.size() != 5 || !st[0].is_tag("ST") || !is_bytes(st[1]) || !is_int(st[2]) || !is_int(st[3]) || !is_int(st[4])) return false;
  if (st[3].as_ll() == 0 || st[4].as_ll() == 0) return false;

  Sched &S = Sched::I();
  S.reset();
  std::vector<std::vector<const Toks *>> threads;
  bool have_sched = false;
  for (size_t k = 2; k < secs.size(); k++)
  {
    const Toks &x = secs[k];
    if (x.empty()) return false;
    if (x[0].is_tag("s"))
    {
      if (have_sched) return false;
      S.set_schedule(verif::parse_schedule(Toks(x.begin() + 1, x.end())));
      have_sched = true;
    }
    else if (x.size() == 1 && x[0].is_tag("T")) threads.emplace_back();
    else
    {
      if (threads.empty() || !race_op_ok(x)) return false;
      threads.back().push_back(&x);
    }
  }
  if (threads.empty() || threads.size() > 4) return false;

  std::vector<std::shared_ptr<RStore>> stores;
  std::vector<std::unique_ptr<tsdk::SpanProcessor>> procs;
  for (size_t i = 1; i < sp.size(); i++)
  {
    stores.push_back(std::make_shared<RStore>());
    bool simple = sp[i].is_tag("S");
    std::unique_ptr<tsdk::SpanExporter> ex(new RecExporter(stores.back(), simple ? int(i - 1) : -1));
    if (simple) procs.emplace_back(new tsdk::SimpleSpanProcessor(std::move(ex)));
    else procs.emplace_back(new QueueProcessor(std::move(ex), int(i - 1)));
  }
  res::ResourceAttributes ra;
  RawResource rr(ra);
  std::unique_ptr<tsdk::TracerProvider> provider(
      new tsdk::TracerProvider(std::move(procs), rr, std::unique_ptr<tsdk::Sampler>(new tsdk::AlwaysOnSampler)));
  nostd::shared_ptr<trace::Tracer> tracer = provider->GetTracer("l", "", "");

  nostd::shared_ptr<trace::Span> span;
  {
    Arena A;
    KV kv;
    if (!make_kv(stparts, A, kv)) return false;
    trace::StartSpanOptions so;
    so.kind              = static_cast<trace::SpanKind>(st[2].as_ll());
    so.start_system_time = common::SystemTimestamp(std::chrono::nanoseconds(st[3].as_ll()));
    so.start_steady_time = common::SteadyTimestamp(std::chrono::nanoseconds(st[4].as_ll()));
    nostd::string_view name = A.str(st[1].s);
    Links nolinks;
    span = tracer->StartSpan(name, kv, nolinks, so);
    kv.trash();
  }
  trace::SpanContext span_ctx = span->GetContext();

  // the history is the scheduler's log (written by whoever holds the baton): the driver's B / R / D entries and the lock / unlock
  // entries of Span::mu_
  S.name(&static_cast<tsdk::Span *>(span.get())->mu_, "mu");
  auto ev = [&](const char *k, size_t, size_t idx, long long r) {
    S.log(std::string(k) + " " + std::to_string(idx) + " " + std::to_string(r));
  };
  std::vector<char> ok(threads.size(), 1);
  trace::Span *sp_raw = span.get();
  for (size_t ti = 0; ti < threads.size(); ti++)
    S.spawn([&, ti] {
      OpCtx cx;
      EndNote en;
      for (size_t k = 0; k < threads[ti].size(); k++)
      {
        size_t nq = cx.q.size();
        ev("B", ti, k, 0);
        if (!do_op(*threads[ti][k], *sp_raw, cx, en, true)) ok[ti] = 0;
        ev("R", ti, k, cx.q.size() > nq ? (cx.q.back() ? 1 : 0) : 0);
      }
    });
  S.set_step_limit(20000);
  S.run_all();
  for (char c : ok) if (!c) return false;
  {
    trace::EndSpanOptions eo;
    eo.end_steady_time = common::SteadyTimestamp(std::chrono::nanoseconds(7777));
    ev("B", threads.size(), 0, 0);
    span->End(eo);
    ev("R", threads.size(), 0, 0);
  }
  ev("B", threads.size(), 1, 0);
  span = nostd::shared_ptr<trace::Span>();      // ~Span: End()
  ev("R", threads.size(), 1, 0);
  tracer = nostd::shared_ptr<trace::Tracer>();
  provider->ForceFlush();
  provider->Shutdown();

  o.tag("Q");
  Window none{0, 0, false};
  std::vector<Window> no_events;
  Clocked ck;
  for (auto &s : stores)
  {
    o.tag("#");
    ck.pos          = 0;
    bool first_span = true;
    for (auto &r : s->got)
    {
      if (!first_span) o.tag("@");
      first_span        = false;
      tsdk::SpanData *d = static_cast<tsdk::SpanData *>(r.get());
      if (d == nullptr) { o.tag("NULL_RECORDABLE"); continue; }
      print_span(*d, span_ctx, none, none, no_events, 0, ck, o);
      scribble(*d);
    }
    ck.is_first = false;
  }
  // H {<K> <tid> <a> <b>}*   (the controller, tid -1 in the log, is thread number <number of threads>)
  o.tag("||").tag("H");
  for (auto &e : S.events())
  {
    std::istringstream is(e);
    long long tid; std::string k, a, b, c;
    is >> tid >> k >> a >> b >> c;
    std::string t = std::to_string(tid < 0 ? (long long)threads.size() : tid);
    if (k == "B" || k == "R") o.add(k + " " + t + " " + a + " " + b);
    else if (k == "D") o.add("D " + t + " " + a + " 0");
    else if (k == "lock" && a == "mu") o.add("L " + t + " 0 0");
    else if (k == "unlock" && a == "mu") o.add("U " + t + " 0 0");
  }
  provider.reset();
  return true;
}

// ------------------------------------------------------------------ MRACE: one span per thread, ended concurrently
//   MRACE {S|Q}+ | T | ST x<name> <kind> <sys> <steady> {; attr}* {| op}* | T | ST ... | s <tid> <flag> ...
//   observation:  M <null entries handed to an exporter> <entries that changed while an exporter held them> {# slot {& slot}*}*
//       one # section per processor, one slot per thread: the spans that processor's exporter received with that thread's span id
static bool run_mrace(const Toks &t, Out &o)
{
  auto secs = verif::split_toks(t, "|");
  if (secs.size() < 3) return false;
  const Toks &sp = secs[0];
  if (sp.size() < 2 || sp.size() > 5) return false;
  for (size_t i = 1; i < sp.size(); i++) if (!sp[i].is_tag("S") && !sp[i].is_tag("Q")) return false;
  Sched &S = Sched::I();
  S.reset();
  g_null_entries = g_changed_entries = 0;
  struct Th { const Toks *st = nullptr; std::vector<const Toks *> ops; };
  std::vector<Th> threads;
  bool have_sched = false;
  for (size_t k = 1; k < secs.size(); k++)
  {
    const Toks &x = secs[k];
    if (x.empty()) return false;
    if (x[0].is_tag("s"))
    {
      if (have_sched) return false;
      S.set_schedule(verif::parse_schedule(Toks(x.begin() + 1, x.end())));
      have_sched = true;
    }
    else if (x.size() == 1 && x[0].is_tag("T")) threads.emplace_back();
    else if (threads.empty()) return false;
    else if (threads.back().st == nullptr) { if (!x[0].is_tag("ST")) return false; threads.back().st = &x; }
    else { if (!race_op_ok(x)) return false; threads.back().ops.push_back(&x); }
  }
  if (threads.empty() || threads.size() > 4) return false;
  for (auto &th : threads)
  {
    if (!th.st) return false;
    bool has_end = false;
    for (auto *x : th.ops) has_end = has_end || (*x)[0].is_tag("END");
    if (!has_end) return false;
  }

  std::vector<std::shared_ptr<RStore>> stores;
  std::vector<std::unique_ptr<tsdk::SpanProcessor>> procs;
  for (size_t i = 1; i < sp.size(); i++)
  {
    stores.push_back(std::make_shared<RStore>());
    bool simple = sp[i].is_tag("S");
    std::unique_ptr<tsdk::SpanExporter> ex(new RecExporter(stores.back(), -1));
    if (simple) procs.emplace_back(new tsdk::SimpleSpanProcessor(std::move(ex)));
    else procs.emplace_back(new QueueProcessor(std::move(ex), int(i - 1)));
  }
  res::ResourceAttributes ra;
  RawResource rr(ra);
  std::unique_ptr<tsdk::TracerProvider> provider(
      new tsdk::TracerProvider(std::move(procs), rr, std::unique_ptr<tsdk::Sampler>(new tsdk::AlwaysOnSampler)));
  nostd::shared_ptr<trace::Tracer> tracer = provider->GetTracer("l", "", "");

  std::vector<nostd::shared_ptr<trace::Span>> spans;
  std::vector<trace::SpanContext> ctxs;
  for (auto &th : threads)
  {
    auto stparts   = verif::split_toks(*th.st, ";");
    const Toks &st = stparts[0];
    if (st.size() != 5 || !is_bytes(st[1]) || !is_int(st[2]) || !is_int(st[3]) || !is_int(st[4]) || st[3].as_ll() == 0 || st[4].as_ll() == 0)
      return false;
    Arena A;
    KV kv;
    if (!make_kv(stparts, A, kv)) return false;
    trace::StartSpanOptions so;
    so.kind              = static_cast<trace::SpanKind>(st[2].as_ll());
    so.start_system_time = common::SystemTimestamp(std::chrono::nanoseconds(st[3].as_ll()));
    so.start_steady_time = common::SteadyTimestamp(std::chrono::nanoseconds(st[4].as_ll()));
    so.parent            = trace::SpanContext(false, false);     // every span a root: they are independent of each other
    nostd::string_view name = A.str(st[1].s);
    Links nolinks;
    spans.push_back(tracer->StartSpan(name, kv, nolinks, so));
    ctxs.push_back(spans.back()->GetContext());
    kv.trash();
  }
  std::vector<char> ok(threads.size(), 1);
  for (size_t ti = 0; ti < threads.size(); ti++)
    S.spawn([&, ti] {
      OpCtx cx;
      EndNote en;
      for (const Toks *x : threads[ti].ops)
        if (!do_op(*x, *spans[ti], cx, en, true)) ok[ti] = 0;
    });
  S.set_step_limit(20000);
  S.run_all();
  for (char c : ok) if (!c) return false;
  spans.clear();
  tracer = nostd::shared_ptr<trace::Tracer>();
  provider->ForceFlush();
  provider->Shutdown();

  o.tag("M").num(g_null_entries).num(g_changed_entries);
  Window none{0, 0, false};
  std::vector<Window> no_events;
  Clocked ck;
  for (auto &s : stores)
  {
    o.tag("#");
    for (size_t ti = 0; ti < threads.size(); ti++)
    {
      if (ti) o.tag("&");
      bool first_span = true;
      for (auto &r : s->got)
      {
        tsdk::SpanData *d = static_cast<tsdk::SpanData *>(r.get());
        if (d == nullptr || !(d->GetSpanContext().span_id() == ctxs[ti].span_id())) continue;
        if (!first_span) o.tag("@");
        first_span = false;
        print_span(*d, ctxs[ti], none, none, no_events, 0, ck, o);
      }
    }
  }
  // a recordable that belongs to none of the spans would be lost above: count it as a null entry
  provider.reset();
  return true;
}

int main(int argc, char **argv)
{
  opentelemetry::sdk::common::internal_log::GlobalLogHandler::SetLogLevel(opentelemetry::sdk::common::internal_log::LogLevel::None);
  return verif::run_cases_forked(argc, argv, [](const Toks &t, Out &o) {
    bool ok = !t.empty() && ((t[0].is_tag("SRACE") && run_srace(t, o)) || (t[0].is_tag("MRACE") && run_mrace(t, o)));
    if (!ok) { o.line.clear(); o.tag("BADCASE"); }
  });
}
