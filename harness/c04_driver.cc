// C04 driver: one TracerProvider with 0..4 processors (simple / batch) per case, one span, the case's
// operations through the public trace API, and a canonical dump of what every processor's exporter
// received.  Grammar of cases and observations: coq/C04/Glue.v.
//
// Caller memory: EVERY buffer handed to the API in a call (names, keys, string values, C strings, arrays,
// arrays of string_views, the key/value table of a KeyValueIterable) lives in its own exact-size heap block
// that is OVERWRITTEN (every byte complemented, every view redirected) and then FREED as soon as the call
// returns.  The exported spans are dumped only at the very end of the case, so anything the SDK kept by
// reference shows up as an ASan report or as a changed export.
#include "c04_common.h"

// ------------------------------------------------------------------ one case
static bool run_case(const Toks &t, Out &o)
{
  auto secs = verif::split_toks(t, "|");
  if (secs.size() < 5) return false;
  // P kinds
  const Toks &sp = secs[0];
  if (sp.empty() || !sp[0].is_tag("P") || sp.size() > 5) return false;
  for (size_t i = 1; i < sp.size(); i++) if (!sp[i].is_tag("S") && !sp[i].is_tag("B")) return false;
  if (secs[1].size() != 2 || !secs[1][0].is_tag("SMP") || !is_int(secs[1][1])) return false;
  bool sampled = secs[1][1].as_ll() != 0;
  const Toks &sc = secs[2];
  if (sc.size() != 4 || !sc[0].is_tag("SC") || !is_bytes(sc[1]) || !is_bytes(sc[2]) || !is_bytes(sc[3])) return false;
  auto rparts = verif::split_toks(secs[3], ";");
  if (rparts[0].size() != 1 || !rparts[0][0].is_tag("R")) return false;
  auto stparts = verif::split_toks(secs[4], ";");
  const Toks &st = stparts[0];
  if (st.size() != 5 || !st[0].is_tag("ST") || !is_bytes(st[1]) || !is_int(st[2]) || !is_int(st[3]) || !is_int(st[4])) return false;

  // provider
  std::vector<std::shared_ptr<Store>> stores;
  std::vector<std::unique_ptr<tsdk::SpanProcessor>> procs;
  for (size_t i = 1; i < sp.size(); i++)
  {
    stores.push_back(std::make_shared<Store>());
    std::unique_ptr<tsdk::SpanExporter> ex(new HarnessExporter(stores.back()));
    if (sp[i].is_tag("S")) procs.emplace_back(new tsdk::SimpleSpanProcessor(std::move(ex)));
    else
    {
      tsdk::BatchSpanProcessorOptions bo;
      bo.max_queue_size        = 16;
      bo.max_export_batch_size = 4;
      bo.schedule_delay_millis = std::chrono::milliseconds(60000);
      procs.emplace_back(new tsdk::BatchSpanProcessor(std::move(ex), bo));
    }
  }
  std::unique_ptr<tsdk::TracerProvider> provider;
  {
    Arena A;
    KV kv;
    if (!make_kv(rparts, A, kv)) return false;
    res::ResourceAttributes ra;
    for (auto &it : *kv.items) ra.SetAttribute(it.first, it.second);
    RawResource rr(ra);
    std::unique_ptr<tsdk::Sampler> sampler;
    if (sampled) sampler.reset(new tsdk::AlwaysOnSampler); else sampler.reset(new tsdk::AlwaysOffSampler);
    provider.reset(new tsdk::TracerProvider(std::move(procs), rr, std::move(sampler)));
    kv.trash();
  }
  nostd::shared_ptr<trace::Tracer> tracer;
  {
    Arena A;
    nostd::string_view n = A.str(sc[1].s), v = A.str(sc[2].s), s = A.str(sc[3].s);
    tracer = provider->GetTracer(n, v, s);
  }

  // StartSpan
  size_t next = 5;
  nostd::shared_ptr<trace::Span> span;
  Window wstart{0, 0, false}, ws_steady{0, 0, false};
  {
    Arena A;
    KV kv;
    if (!make_kv(stparts, A, kv)) return false;
    Links links;
    while (next < secs.size() && !secs[next].empty() && secs[next][0].is_tag("LK"))
    {
      auto lp        = verif::split_toks(secs[next], ";");
      const Toks &lh = lp[0];
      if (lh.size() != 6 || !is_bytes(lh[1]) || lh[1].s.size() != 16 || !is_bytes(lh[2]) || lh[2].s.size() != 8 || !is_int(lh[3]) ||
          !is_int(lh[4]) || !is_bytes(lh[5]))
        return false;
      std::unique_ptr<KV> lkv(new KV);
      if (!make_kv(lp, A, *lkv)) return false;
      nostd::string_view tsh = A.str(lh[5].s);
      trace::SpanContext ctx(trace::TraceId(nostd::span<const uint8_t, 16>(reinterpret_cast<const uint8_t *>(lh[1].s.data()), 16)),
                             trace::SpanId(nostd::span<const uint8_t, 8>(reinterpret_cast<const uint8_t *>(lh[2].s.data()), 8)),
                             trace::TraceFlags(uint8_t(lh[3].as_ll())), lh[4].as_ll() != 0, trace::TraceState::FromHeader(tsh));
      links.items.emplace_back(ctx, std::move(lkv));
      next++;
    }
    trace::StartSpanOptions so;
    so.kind = static_cast<trace::SpanKind>(st[2].as_ll());
    if (st[3].as_ll() != 0) so.start_system_time = common::SystemTimestamp(std::chrono::nanoseconds(st[3].as_ll()));
    if (st[4].as_ll() != 0) so.start_steady_time = common::SteadyTimestamp(std::chrono::nanoseconds(st[4].as_ll()));
    nostd::string_view name = A.str(st[1].s);
    wstart.implicit    = st[3].as_ll() == 0;
    ws_steady.implicit = st[4].as_ll() == 0;
    wstart.lo    = sys_now();
    ws_steady.lo = steady_now();
    span         = tracer->StartSpan(name, kv, links, so);
    ws_steady.hi = steady_now();
    wstart.hi    = sys_now();
    if (!ws_steady.implicit) ws_steady.lo = ws_steady.hi = st[4].as_ll();
    kv.trash();
    for (auto &l : links.items) l.second->trash();
    links.items.clear();
  }
  trace::SpanContext span_ctx = span->GetContext();

  // operations
  OpCtx seq;
  EndNote en;
  size_t par_events = 0;
  if (next < secs.size() && secs[next].size() == 1 && secs[next][0].is_tag("PAR"))
  {
    // PAR | TH | op.. | TH | op.. | SEQ | op..
    std::vector<std::vector<const Toks *>> threads;
    size_t si = next + 1;
    bool seen_seq = false;
    for (; si < secs.size(); si++)
    {
      const Toks &x = secs[si];
      if (x.size() == 1 && x[0].is_tag("SEQ")) { seen_seq = true; si++; break; }
      if (x.size() == 1 && x[0].is_tag("TH")) { threads.emplace_back(); continue; }
      if (threads.empty()) return false;
      threads.back().push_back(&x);
    }
    if (!seen_seq || threads.empty() || threads.size() > 4) return false;
    for (size_t ti = 0; ti < threads.size(); ti++)
      for (const Toks *x : threads[ti])
        if (!thread_op_ok(*x, ti)) return false;
    std::vector<OpCtx> cx(threads.size());
    std::vector<char> ok(threads.size(), 1);
    std::atomic<size_t> ready{0};
    std::atomic<bool> go{false};
    std::vector<std::thread> th;
    trace::Span *sp = span.get();
    for (size_t ti = 0; ti < threads.size(); ti++)
      th.emplace_back([&, ti]() {
        ready.fetch_add(1);
        while (!go.load()) {}
        EndNote unused;
        for (const Toks *x : threads[ti])
          if (!do_op(*x, *sp, cx[ti], unused, false)) ok[ti] = 0;
      });
    while (ready.load() < threads.size()) {}
    go.store(true);
    for (auto &t : th) t.join();
    for (size_t ti = 0; ti < threads.size(); ti++)
    {
      if (!ok[ti]) return false;
      for (bool b : cx[ti].q) seq.q.push_back(b);
      for (auto &w : cx[ti].wevents) seq.wevents.push_back(w);
    }
    par_events = seq.wevents.size();
    next = si;
  }
  for (size_t si = next; si < secs.size(); si++)
    if (!do_op(secs[si], *span, seq, en, true)) return false;
  std::vector<bool> &q            = seq.q;
  std::vector<Window> &wevents    = seq.wevents;
  auto note_end = [&](long long explicit_end, long long lo, long long hi) { en.note(explicit_end, lo, hi); };
  Window &we_steady = en.we_steady;
  {
    long long lo = steady_now();
    span         = nostd::shared_ptr<trace::Span>();      // ~Span: End()
    note_end(0, lo, steady_now());
  }
  tracer = nostd::shared_ptr<trace::Tracer>();
  provider->ForceFlush();
  provider->Shutdown();

  Window wdur{we_steady.lo - ws_steady.hi, we_steady.hi - ws_steady.lo, ws_steady.implicit || we_steady.implicit};

  o.tag("Q");
  for (bool b : q) o.boolean(b);
  Clocked ck;
  for (auto &s : stores)
  {
    o.tag("#");
    std::lock_guard<std::mutex> g(s->mu);
    ck.pos = 0;
    bool first_span = true;
    for (auto &r : s->got)
    {
      if (!first_span) o.tag("@");
      first_span = false;
      tsdk::SpanData *d = static_cast<tsdk::SpanData *>(r.get());
      if (d == nullptr) { o.tag("NULL_RECORDABLE"); continue; }
      print_span(*d, span_ctx, wstart, wdur, wevents, par_events, ck, o);
      scribble(*d);
    }
    ck.is_first = false;
  }
  provider.reset();
  return true;
}

int main(int argc, char **argv)
{
  opentelemetry::sdk::common::internal_log::GlobalLogHandler::SetLogLevel(opentelemetry::sdk::common::internal_log::LogLevel::None);
  std::cout.setf(std::ios::unitbuf);   // one write per observation: a sanitizer report lands behind the last completed case
  return verif::run_cases(argc, argv, [](const Toks &t, Out &o) {
    if (!run_case(t, o)) { o.line.clear(); o.tag("BADCASE"); }
  });
}
