// C06 driver under the deterministic scheduler shim (E-sched): recorder and collector threads on one MeterProvider, the
// interleaving given by the case's schedule.  Compiled against scratch copies (tools/shimcopy.py) of
// api/.../common/spin_lock_mutex.h (its std::atomic<bool> is a verif::atomic: every lock()/unlock() of
// attribute_hashmap_lock_, TemporalMetricStorage::lock_, Meter::storage_lock_, MeterContext::meter_lock_ and of the Sum
// aggregations' own locks is a scheduling point), sync_metric_storage.{h,cc}, temporal_metric_storage.{h,cc},
// metric_collector.cc and meter_context.{h,cc} (system_clock::now() is the shim's virtual clock: 1us per read, no ties).
//
//   SRACE <readers> | <views> | <meters> | <news> | T <op ; op ...> | T ... | s <tid flag>*
//       op:  A <handle> <value>  |  K <handle> <value> (x<key> x<value>)*  |  C <reader>
//   a reader is collected by at most one thread; after all threads have finished every reader collects once more.
//
//   observation:  F <ok> { ; <reader> <meter> x<stream> (x<key> x<value>)* <total> }  ||  S <sdk start> { ; <thread> <event> }
//       the shim's log: events in the order in which the (one at a time) running threads produced them; thread -1 is the
//       controller (the final collections).  The driver's own events:
//         AC <op>   AR <op>                            an Add is called / has returned
//         CC <op>                                      a Collect is called
//         CR <op> <reader> <clock before> <clock after> { / <meter> x<stream> <mono> <double> <temporality>
//                                                           <start> <end> { , (x<key> x<value>)* <sum> } }
//       the shim's: xchg <obj> 1 0 = a lock acquired, st <obj> 0 = a lock released (obj: A<h> T<h> M<m> G o<N>), ld ...,
//       yield, sleep: spinning.  The final collections are the operations <reader> of the controller.
#include "sched/sched_driver.h"
#define C06_OPEN_PRIVATE
#include "c06_common.h"

using verif::Sched;

struct ThreadOp
{
  bool is_collect = false;
  size_t reader   = 0;
  AddOp add;
};

static void print_streams(Out &o, const std::vector<Stream> &streams)
{
  for (auto &st : streams)
  {
    bool mono = st.desc_mono, dbl = st.desc_dbl, bad = false;
    if (!st.pts.empty()) { mono = st.pts[0].mono; dbl = st.pts[0].dbl; }
    for (auto &p : st.pts) bad = bad || p.bad || p.mono != mono || p.dbl != dbl;
    o.tag("/").num(st.meter).bytes(st.name).boolean(mono).boolean(dbl).num(st.delta ? 0 : 1).num(st.start_ns).num(st.end_ns);
    if (bad) o.tag("BADPOINT");
    for (auto &p : st.pts)
    {
      o.tag(",");
      print_key(o, p.key);
      o.num(p.v);
    }
  }
}

static void run_srace(const Toks &t, Out &o)
{
  auto secs = verif::split_toks(t, "|", 1);
  if (secs.size() < 5) { o.tag("BADCASE"); return; }
  Sched &S = Sched::I();
  S.reset();
  Sdk s;
  if (!setup(secs[0], secs[1], secs[2], s)) { o.tag("BADCASE"); return; }
  if (!secs[3].empty())
    for (auto &op : verif::split_toks(secs[3], ";"))
      if (!do_new(s, op)) { o.tag("BADCASE"); return; }
  std::vector<std::vector<ThreadOp>> scripts;
  std::vector<int> owner(s.readers.size(), -1);
  for (size_t i = 4; i < secs.size(); i++)
  {
    if (secs[i].empty()) { o.tag("BADCASE"); return; }
    if (secs[i][0].is_tag("s"))
    {
      if (i + 1 != secs.size()) { o.tag("BADCASE"); return; }
      S.set_schedule(verif::parse_schedule(Toks(secs[i].begin() + 1, secs[i].end())));
      continue;
    }
    if (!secs[i][0].is_tag("T")) { o.tag("BADCASE"); return; }
    scripts.emplace_back();
    if (secs[i].size() == 1) continue;
    for (auto &op : verif::split_toks(secs[i], ";", 1))
    {
      ThreadOp to;
      if (op.size() == 2 && op[0].is_tag("C") && op[1].kind == Tok::INT)
      {
        long long r = op[1].as_ll();
        if (r < 0 || r >= (long long)s.readers.size()) { o.tag("BADCASE"); return; }
        int me = int(scripts.size()) - 1;
        if (owner[size_t(r)] >= 0 && owner[size_t(r)] != me) { o.tag("BADCASE"); return; }
        owner[size_t(r)] = me;
        to.is_collect    = true;
        to.reader        = size_t(r);
      }
      else if (!parse_add(op, 0, to.add) || to.add.h >= s.handles.size()) { o.tag("BADCASE"); return; }
      scripts.back().push_back(std::move(to));
    }
  }
  // the SDK's locks get names in the shim's log: A<h> attribute_hashmap_lock_ and T<h> TemporalMetricStorage::lock_ of the
  // storage behind handle h, M<m> Meter::storage_lock_ of meter m, G MeterContext::meter_lock_; every other lock (the Sum
  // aggregations' own) keeps its anonymous name o<N>
  for (size_t h = 0; h < s.handles.size(); h++)
  {
    auto *meter = static_cast<msdk::Meter *>(s.meters[size_t(s.handles[h]->meter)].get());
    auto it     = meter->storage_registry_.find(s.handles[h]->name);
    if (it == meter->storage_registry_.end()) { o.tag("BADCASE"); return; }
    auto *st = static_cast<msdk::SyncMetricStorage *>(it->second.get());
    S.name(&st->attribute_hashmap_lock_.flag_, "A" + std::to_string(h));
    S.name(&st->temporal_metric_storage_.lock_.flag_, "T" + std::to_string(h));
    S.name(&meter->storage_lock_.flag_, "M" + std::to_string(s.handles[h]->meter));
  }
  S.name(&s.ctx->meter_lock_.flag_, "G");
  // the trace is the shim's log from here on: every atomic operation of the (one at a time) running threads, and the
  // driver's own events AC/AR/CC/CR logged by the thread that performs them
  size_t log_start = S.events().size();
  std::vector<std::vector<std::vector<Stream>>> seen(s.readers.size());
  auto do_collect = [&](size_t op, size_t r) {
    S.log("CC " + std::to_string(op));
    long long before = S.peek_ns();
    auto streams     = collect(s, r);
    long long after  = S.peek_ns();
    Out ev;
    ev.tag("CR").num((long long)op).num((long long)r).num(before).num(after);
    print_streams(ev, streams);
    S.log(ev.line);
    seen[r].push_back(std::move(streams));
  };
  for (size_t ti = 0; ti < scripts.size(); ti++)
    S.spawn([&, ti] {
      for (size_t k = 0; k < scripts[ti].size(); k++)
      {
        const ThreadOp &op = scripts[ti][k];
        if (op.is_collect) do_collect(k, op.reader);
        else
        {
          S.log("AC " + std::to_string(k));
          do_add(s, op.add);
          S.log("AR " + std::to_string(k));
        }
      }
    });
  S.set_step_limit(60000);
  if (!scripts.empty()) S.run_all();
  for (size_t r = 0; r < s.readers.size(); r++) do_collect(r, r);

  // order-independent summary (as for RACE): per reader, stream and attribute set the sum of the delta points / the last
  // cumulative point; F: temporality and start/end relations held throughout
  bool flags = true;
  std::map<std::tuple<size_t, long long, std::string, Key>, long long> totals;
  for (size_t r = 0; r < s.readers.size(); r++)
  {
    std::map<std::pair<long long, std::string>, int64_t> prev_end;
    for (size_t ci = 0; ci < seen[r].size(); ci++)
    {
      bool last = ci + 1 == seen[r].size();
      for (auto &st : seen[r][ci])
      {
        auto id = std::make_pair(st.meter, st.name);
        if (st.delta != s.reader_delta[r]) flags = false;
        if (st.delta)
        {
          auto it        = prev_end.find(id);
          int64_t expect = it == prev_end.end() ? s.start_ns : it->second;
          if (st.start_ns != expect) flags = false;
        }
        else if (st.start_ns != s.start_ns) flags = false;
        if (st.end_ns < st.start_ns) flags = false;
        prev_end[id] = st.end_ns;
        for (auto &p : st.pts)
        {
          if (p.bad) flags = false;
          auto key = std::make_tuple(r, st.meter, st.name, p.key);
          if (st.delta) totals[key] += p.v;
          else if (last) totals[key] = p.v;
          else totals.emplace(key, 0);
        }
      }
    }
  }
  o.tag("F").boolean(flags);
  for (auto &kv : totals)
  {
    o.tag(";").num((long long)std::get<0>(kv.first)).num(std::get<1>(kv.first)).bytes(std::get<2>(kv.first));
    print_key(o, std::get<3>(kv.first));
    o.num(kv.second);
  }
  o.tag("||");
  o.tag("S").num(s.start_ns);
  for (size_t i = log_start; i < S.events().size(); i++)
  {
    o.tag(";");
    o.add(S.events()[i]);
  }
}

int main(int argc, char **argv)
{
  using namespace opentelemetry::sdk::common::internal_log;
  GlobalLogHandler::SetLogHandler(nostd::shared_ptr<LogHandler>(new NoopLogHandler()));
  GlobalLogHandler::SetLogLevel(LogLevel::None);
  return verif::run_cases_forked(argc, argv, [](const Toks &t, Out &o) {
    if (!t.empty() && t[0].is_tag("SRACE")) run_srace(t, o);
    else o.tag("BADCASE");
  });
}
