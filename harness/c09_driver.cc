// C09 driver: W3C trace-context Inject / Extract through the public propagator API.
#include <map>
#include "opentelemetry/context/context.h"
#include "opentelemetry/context/propagation/text_map_propagator.h"
#include "opentelemetry/trace/context.h"
#include "opentelemetry/trace/default_span.h"
#include "opentelemetry/trace/propagation/http_trace_context.h"
#include "opentelemetry/trace/span_context.h"
#include "opentelemetry/trace/trace_state.h"
#include "common/verif_io.h"

namespace nostd = opentelemetry::nostd;
namespace trace = opentelemetry::trace;
namespace context = opentelemetry::context;
using verif::Out;
using verif::Tok;

// carrier whose values live in exact-size heap blocks (no NUL after the last byte)
class Carrier : public context::propagation::TextMapCarrier
{
public:
  std::map<std::string, std::unique_ptr<verif::ExactBuf>> h;
  nostd::string_view Get(nostd::string_view key) const noexcept override
  {
    auto it = h.find(std::string(key));
    if (it == h.end()) return "";
    return nostd::string_view(it->second->p, it->second->n);
  }
  void Set(nostd::string_view key, nostd::string_view value) noexcept override
  {
    h[std::string(key)].reset(new verif::ExactBuf(std::string(value)));
  }
  bool has(const char *k) const { return h.count(k) != 0; }
  std::string val(const char *k) const { auto it = h.find(k); return std::string(it->second->p, it->second->n); }
};

static trace::SpanContext make_ctx(const std::vector<Tok> &t, size_t i)
{
  trace::TraceId tid(nostd::span<const uint8_t, 16>(reinterpret_cast<const uint8_t *>(t[i].s.data()), 16));
  trace::SpanId sid(nostd::span<const uint8_t, 8>(reinterpret_cast<const uint8_t *>(t[i + 1].s.data()), 8));
  verif::ExactBuf tsh(t[i + 3].s);
  auto ts = trace::TraceState::FromHeader(nostd::string_view(tsh.p, tsh.n));
  return trace::SpanContext(tid, sid, trace::TraceFlags(uint8_t(t[i + 2].as_ll())), false, ts);
}

static void print_extract(Carrier &c, Out &o)
{
  trace::propagation::HttpTraceContext prop;
  // the caller's context holds a sentinel span so that "returned unchanged" is observable
  nostd::shared_ptr<trace::Span> sentinel{new trace::DefaultSpan(trace::SpanContext::GetInvalid())};
  context::Context root;
  context::Context in = trace::SetSpan(root, sentinel);
  context::Context out = prop.Extract(c, in);
  auto sp = trace::GetSpan(out);
  auto sc = sp->GetContext();
  if (!sc.IsValid())
  {
    o.tag("INVALID").boolean(sp.get() == sentinel.get() && out == in);
    return;
  }
  char tid[16], sid[8];
  sc.trace_id().CopyBytesTo(nostd::span<uint8_t, 16>(reinterpret_cast<uint8_t *>(tid), 16));
  sc.span_id().CopyBytesTo(nostd::span<uint8_t, 8>(reinterpret_cast<uint8_t *>(sid), 8));
  o.tag("OK").bytes(tid, 16).bytes(sid, 8).num(sc.trace_flags().flags()).boolean(sc.IsRemote())
      .bytes(sc.trace_state()->ToHeader());
}

static void inject(const trace::SpanContext &sc, Carrier &c)
{
  trace::propagation::HttpTraceContext prop;
  nostd::shared_ptr<trace::Span> sp{new trace::DefaultSpan(sc)};
  context::Context root;
  context::Context ctx = trace::SetSpan(root, sp);
  prop.Inject(c, ctx);
}

int main(int argc, char **argv)
{
  return verif::run_cases(argc, argv, [](const std::vector<Tok> &t, Out &o) {
    if (t.empty()) { o.tag("BADCASE"); return; }
    if (t[0].is_tag("INJ") && t.size() == 5)
    {
      Carrier c;
      inject(make_ctx(t, 1), c);
      if (!c.has("traceparent")) { o.tag(c.h.empty() ? "NOHDR" : "ONLY_TRACESTATE"); return; }
      o.tag("TP").bytes(c.val("traceparent")).tag("TS");
      if (c.has("tracestate")) o.bytes(c.val("tracestate")); else o.tag("NONE");
    }
    else if (t[0].is_tag("EXT") && t.size() == 3)
    {
      Carrier c;
      if (t[1].kind == Tok::BYTES) c.Set("traceparent", t[1].s);
      if (t[2].kind == Tok::BYTES) c.Set("tracestate", t[2].s);
      print_extract(c, o);
    }
    else if (t[0].is_tag("RT") && t.size() == 5)
    {
      Carrier c;
      inject(make_ctx(t, 1), c);
      print_extract(c, o);
    }
    else o.tag("BADCASE");
  });
}
