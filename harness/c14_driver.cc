// C14 driver: TraceState::FromHeader / Set / Delete / Get / ToHeader / Empty through the public API.
// case        :  H x<header> { | SET i xk xv | DEL i xk | RT i | FH xh | GET i xk | HDR i | EMPTY i }
// observation :  <obj> { | same <result> }       <obj> = n xk1 xv1 ... xkn xvn x<ToHeader()> <Empty()>
// Every string handed to the API lives in an exact-size heap block without a terminating NUL.
// After every operation ALL earlier objects are read again in full (entries, header, Empty) and
// compared with what they showed when they were created: `same` = nothing changed.
#include <memory>
#include <string>
#include <utility>
#include <vector>
#include "opentelemetry/nostd/shared_ptr.h"
#include "opentelemetry/nostd/string_view.h"
#include "opentelemetry/trace/trace_state.h"
#include "common/verif_io.h"

namespace nostd = opentelemetry::nostd;
namespace trace = opentelemetry::trace;
using verif::Out;
using verif::Tok;

struct Dump
{
  std::vector<std::pair<std::string, std::string>> entries;
  std::string header;
  bool empty = false;
  bool operator==(const Dump &o) const { return entries == o.entries && header == o.header && empty == o.empty; }
};

static Dump dump(const nostd::shared_ptr<trace::TraceState> &ts)
{
  Dump d;
  ts->GetAllEntries([&d](nostd::string_view k, nostd::string_view v) noexcept {
    d.entries.emplace_back(std::string(k.data(), k.size()), std::string(v.data(), v.size()));
    return true;
  });
  d.header = ts->ToHeader();
  d.empty  = ts->Empty();
  return d;
}

static void print_obj(const Dump &d, Out &o)
{
  o.unum(d.entries.size());
  for (auto &e : d.entries) o.bytes(e.first).bytes(e.second);
  o.bytes(d.header).boolean(d.empty);
}

static nostd::shared_ptr<trace::TraceState> from_header(const std::string &h)
{
  verif::ExactBuf b(h);
  return trace::TraceState::FromHeader(nostd::string_view(b.p, b.n));
}

int main(int argc, char **argv)
{
  return verif::run_cases(argc, argv, [](const std::vector<Tok> &t, Out &o) {
    auto segs = verif::split_toks(t, "|");
    if (segs.empty() || segs[0].size() != 2 || !segs[0][0].is_tag("H") || segs[0][1].kind != Tok::BYTES)
    {
      o.tag("BADCASE");
      return;
    }
    std::vector<nostd::shared_ptr<trace::TraceState>> objs;
    std::vector<Dump> dumps;
    auto add = [&](nostd::shared_ptr<trace::TraceState> ts) {
      objs.push_back(ts);
      dumps.push_back(dump(ts));
    };
    Out out;
    add(from_header(segs[0][1].s));
    print_obj(dumps[0], out);
    for (size_t s = 1; s < segs.size(); s++)
    {
      const auto &g = segs[s];
      size_t before  = objs.size();
      bool has_index = g.size() >= 2 && g[1].kind == Tok::INT;
      size_t i       = has_index ? size_t(g[1].as_ull()) : 0;
      bool idx_ok    = has_index && g[1].s[0] != '-' && i < objs.size();
      Out r;   // the operation's own result
      if (g.size() == 4 && g[0].is_tag("SET") && idx_ok && g[2].kind == Tok::BYTES && g[3].kind == Tok::BYTES)
      {
        verif::ExactBuf k(g[2].s), v(g[3].s);
        nostd::string_view kv(k.p, k.n), vv(v.p, v.n);
        add(objs[i]->Set(kv, vv));
      }
      else if (g.size() == 3 && g[0].is_tag("DEL") && idx_ok && g[2].kind == Tok::BYTES)
      {
        verif::ExactBuf k(g[2].s);
        nostd::string_view kv(k.p, k.n);
        add(objs[i]->Delete(kv));
      }
      else if (g.size() == 2 && g[0].is_tag("RT") && idx_ok)
      {
        add(from_header(objs[i]->ToHeader()));
      }
      else if (g.size() == 2 && g[0].is_tag("FH") && g[1].kind == Tok::BYTES)
      {
        add(from_header(g[1].s));
      }
      else if (g.size() == 3 && g[0].is_tag("GET") && idx_ok && g[2].kind == Tok::BYTES)
      {
        verif::ExactBuf k(g[2].s);
        std::string value = "<unset>";
        bool found = objs[i]->Get(nostd::string_view(k.p, k.n), value);
        r.boolean(found);
        if (found) r.bytes(value);
      }
      else if (g.size() == 2 && g[0].is_tag("HDR") && idx_ok)
      {
        r.bytes(objs[i]->ToHeader());
      }
      else if (g.size() == 2 && g[0].is_tag("EMPTY") && idx_ok)
      {
        r.boolean(objs[i]->Empty());
      }
      else
      {
        o.line.clear();
        o.tag("BADCASE");
        return;
      }
      // re-read every object that existed before this operation
      bool same = true;
      for (size_t j = 0; j < before; j++) same = same && (dump(objs[j]) == dumps[j]);
      out.tag("|").boolean(same);
      if (objs.size() > before) print_obj(dumps.back(), out);
      else out.add(r.line);
    }
    o.line = out.line;
  });
}
