// Token wire format shared with the extracted Coq model (see coq/Base/Tok.v, ocaml/driver.ml):
//   x<hex>  byte string      -?[0-9]+  integer      anything else  tag
// One case per input line; the driver prints exactly one observation line per case.
#pragma once
#include <cstdint>
#include <cstdio>
#include <cstdlib>
#include <fstream>
#include <iostream>
#include <sstream>
#include <string>
#include <vector>

namespace verif
{
struct Tok
{
  enum Kind { BYTES, INT, TAG } kind;
  std::string s;   // BYTES: raw bytes; TAG/INT: text
  bool is_tag(const char *t) const { return kind == TAG && s == t; }
  long long as_ll() const { return std::strtoll(s.c_str(), nullptr, 10); }
  unsigned long long as_ull() const { return std::strtoull(s.c_str(), nullptr, 10); }
};

inline int hexv(char c)
{
  if (c >= '0' && c <= '9') return c - '0';
  if (c >= 'a' && c <= 'f') return c - 'a' + 10;
  return -1;
}

inline Tok parse_tok(const std::string &w)
{
  Tok t;
  if (w.size() >= 1 && w[0] == 'x' && w.size() % 2 == 1)
  {
    bool ok = true;
    for (size_t i = 1; i < w.size(); i++) ok = ok && hexv(w[i]) >= 0;
    if (ok)
    {
      t.kind = Tok::BYTES;
      for (size_t i = 1; i + 1 < w.size(); i += 2) t.s.push_back(char(hexv(w[i]) * 16 + hexv(w[i + 1])));
      return t;
    }
  }
  size_t st = (w.size() > 0 && w[0] == '-') ? 1 : 0;
  bool isint = w.size() > st;
  for (size_t i = st; i < w.size(); i++) isint = isint && w[i] >= '0' && w[i] <= '9';
  t.kind = isint ? Tok::INT : Tok::TAG;
  t.s    = w;
  return t;
}

inline std::vector<Tok> parse_line(const std::string &line)
{
  std::vector<Tok> out;
  std::istringstream is(line);
  std::string w;
  while (is >> w) out.push_back(parse_tok(w));
  return out;
}

// split a token vector at every tag `sep`
inline std::vector<std::vector<Tok>> split_toks(const std::vector<Tok> &v, const char *sep, size_t from = 0)
{
  std::vector<std::vector<Tok>> out(1);
  for (size_t i = from; i < v.size(); i++)
  {
    if (v[i].is_tag(sep)) out.emplace_back();
    else out.back().push_back(v[i]);
  }
  return out;
}

inline std::string hex(const void *p, size_t n)
{
  static const char *d = "0123456789abcdef";
  std::string r = "x";
  const unsigned char *b = static_cast<const unsigned char *>(p);
  for (size_t i = 0; i < n; i++) { r.push_back(d[b[i] >> 4]); r.push_back(d[b[i] & 15]); }
  return r;
}
inline std::string hex(const std::string &s) { return hex(s.data(), s.size()); }

// Output line builder
struct Out
{
  std::string line;
  Out &tag(const char *t) { add(t); return *this; }
  Out &tag(const std::string &t) { add(t); return *this; }
  Out &bytes(const std::string &s) { add(hex(s)); return *this; }
  Out &bytes(const void *p, size_t n) { add(hex(p, n)); return *this; }
  Out &num(long long v) { add(std::to_string(v)); return *this; }
  Out &unum(unsigned long long v) { add(std::to_string(v)); return *this; }
  Out &boolean(bool b) { add(b ? "1" : "0"); return *this; }
  void add(const std::string &w) { if (!line.empty()) line.push_back(' '); line += w; }
};

// A string_view-like buffer whose bytes are NOT followed by a NUL and sit at the very end of a
// heap block, so that reading data()[size()] (treating the view as a C string) is caught by ASan.
struct ExactBuf
{
  char *p; size_t n;
  explicit ExactBuf(const std::string &s) : p(new char[s.size() ? s.size() : 1]), n(s.size()) { for (size_t i = 0; i < n; i++) p[i] = s[i]; }
  ~ExactBuf() { delete[] p; }
  ExactBuf(const ExactBuf &) = delete;
  ExactBuf &operator=(const ExactBuf &) = delete;
};

template <class F>
int run_cases(int argc, char **argv, F f)
{
  if (argc < 2) { std::fprintf(stderr, "usage: %s CASES\n", argv[0]); return 2; }
  std::ifstream in(argv[1]);
  if (!in) { std::fprintf(stderr, "cannot open %s\n", argv[1]); return 2; }
  std::string line;
  while (std::getline(in, line))
  {
    Out o;
    f(parse_line(line), o);
    // flushed per case: when a sanitizer aborts the process the lines of the cases before it must already be out,
    // so that the runner attributes the crash to the right case
    std::cout << o.line << "\n" << std::flush;
  }
  std::cout.flush();
  return 0;
}
}  // namespace verif
