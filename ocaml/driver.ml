(* Generic driver for an extracted model (module Model: run_model, run_tag, run_spec, drv_b2n).
   usage: driver model CASES        -> one line per case:  <branch-tag> | <observation tokens>
          driver spec  CASES OBS    -> one line per case:  ok   |  <failed clause tags>
   Token format: x<hex> bytes, -?digits integer, anything else a tag.  Trusted glue. *)
type byte = Model.byte
type positive = Model.positive
type z = Model.z
type tok = Model.tok

let byte_of_int (i : int) : byte = Obj.magic i
let int_of_byte (b : byte) : int = (Obj.magic b : int)

(* decimal string <-> Coq positive/Z, arbitrary size *)
let rec pos_of_digits (d : int array) : positive option =
  (* d: big-endian decimal digits; returns None for 0 *)
  if Array.for_all (fun x -> x = 0) d then None
  else begin
    let q = Array.make (Array.length d) 0 in
    let r = ref 0 in
    Array.iteri (fun i x -> let v = !r * 10 + x in q.(i) <- v / 2; r := v mod 2) d;
    match pos_of_digits q with
    | None -> Some Model.XH            (* value was 1 *)
    | Some p -> Some (if !r = 1 then Model.XI p else Model.XO p)
  end

let z_of_string (s : string) : z =
  let neg = String.length s > 0 && s.[0] = '-' in
  let body = if neg then String.sub s 1 (String.length s - 1) else s in
  let d = Array.init (String.length body) (fun i -> Char.code body.[i] - 48) in
  match pos_of_digits d with
  | None -> Model.Z0
  | Some p -> if neg then Model.Zneg p else Model.Zpos p

let string_of_pos (p : positive) : string =
  (* digits little-endian in a Buffer-like int list ref *)
  let digits = ref [| 0 |] in
  let double_add c =
    let carry = ref c in
    let d = !digits in
    for i = 0 to Array.length d - 1 do
      let v = d.(i) * 2 + !carry in d.(i) <- v mod 10; carry := v / 10
    done;
    if !carry > 0 then digits := Array.append d [| !carry |] in
  let rec bits p acc = match p with Model.XH -> 1 :: acc | Model.XO q -> bits q (0 :: acc) | Model.XI q -> bits q (1 :: acc) in
  List.iter (fun b -> double_add b) (bits p []);
  let d = !digits in
  String.init (Array.length d) (fun i -> Char.chr (48 + d.(Array.length d - 1 - i)))

let string_of_z = function Model.Z0 -> "0" | Model.Zpos p -> string_of_pos p | Model.Zneg p -> "-" ^ string_of_pos p

let hexv c = match c with
  | '0'..'9' -> Char.code c - 48 | 'a'..'f' -> Char.code c - 87 | 'A'..'F' -> Char.code c - 55
  | _ -> failwith "bad hex"

let is_int s =
  let n = String.length s in
  let st = if n > 0 && s.[0] = '-' then 1 else 0 in
  n > st && (let ok = ref true in for i = st to n - 1 do if s.[i] < '0' || s.[i] > '9' then ok := false done; !ok)

let bytes_of_ascii (s : string) : byte list = List.init (String.length s) (fun i -> byte_of_int (Char.code s.[i]))

let tok_of_string (s : string) : tok =
  let n = String.length s in
  if n >= 1 && s.[0] = 'x' && n mod 2 = 1 &&
     (let ok = ref true in for i = 1 to n - 1 do (match s.[i] with '0'..'9' | 'a'..'f' -> () | _ -> ok := false) done; !ok)
  then Model.TB (List.init ((n - 1) / 2) (fun i -> byte_of_int (hexv s.[1 + 2 * i] * 16 + hexv s.[2 + 2 * i])))
  else if is_int s then Model.TZ (z_of_string s)
  else Model.TT (bytes_of_ascii s)

let hexd = "0123456789abcdef"
let string_of_tok (t : tok) : string = match t with
  | Model.TB l -> let b = Buffer.create 16 in Buffer.add_char b 'x';
      List.iter (fun x -> let i = int_of_byte x in Buffer.add_char b hexd.[i / 16]; Buffer.add_char b hexd.[i mod 16]) l;
      Buffer.contents b
  | Model.TZ z -> string_of_z z
  | Model.TT l -> String.init (List.length l) (fun i -> Char.chr (int_of_byte (List.nth l i)))

let toks_of_line (l : string) : tok list =
  List.map tok_of_string (List.filter (fun s -> s <> "") (String.split_on_char ' ' l))
let line_of_toks (l : tok list) : string = String.concat " " (List.map string_of_tok l)

let rec int_of_pos = function Model.XH -> 1 | Model.XO p -> 2 * int_of_pos p | Model.XI p -> 2 * int_of_pos p + 1
let int_of_n = function Model.N0 -> 0 | Model.Npos p -> int_of_pos p

let read_lines f =
  let ic = open_in f in
  let rec go acc = match input_line ic with l -> go (l :: acc) | exception End_of_file -> close_in ic; List.rev acc in
  go []

let () =
  for i = 0 to 255 do
    if int_of_n (Model.drv_b2n (byte_of_int i)) <> i then (prerr_endline "driver: byte representation self-test failed"; exit 3)
  done;
  match Array.to_list Sys.argv with
  | [_; "model"; cases] ->
      List.iter (fun l ->
        let t = toks_of_line l in
        print_endline (line_of_toks (Model.run_tag t) ^ " | " ^ line_of_toks (Model.run_model t))) (read_lines cases)
  | [_; "spec"; cases; obs] ->
      List.iter2 (fun l o ->
        match Model.run_spec (toks_of_line l) (toks_of_line o) with
        | [] -> print_endline "ok"
        | fs -> print_endline (line_of_toks fs)) (read_lines cases) (read_lines obs)
  | _ -> prerr_endline "usage: driver model CASES | driver spec CASES OBS"; exit 2
